//! C18 (e) engine level: GrafeoDB::create_vector_index + vector_search + batch_vector_search
//! end to end against the vectors stored in the graph.

use super::index::{DistMode, Hits, Judge, METRICS, Model, judge};
use super::refs::*;
use crate::rng::{Rng, fnv};
use crate::util::catch;
use grafeo_common::types::Value;
use grafeo_core::index::vector::DistanceMetric as M;
use grafeo_engine::GrafeoDB;
use serde_json::{Value as J, json};

fn metric_spelling(r: &mut Rng, m: M) -> Option<&'static str> {
    match m {
        M::Cosine => *r.pick(&[None, Some("cosine"), Some("COSINE"), Some("cos")]),
        M::Euclidean => Some(*r.pick(&["euclidean", "l2", "Euclid"])),
        M::DotProduct => Some(*r.pick(&["dot_product", "dot", "ip", "inner_product"])),
        M::Manhattan => Some(*r.pick(&["manhattan", "l1", "taxicab"])),
    }
}

fn same_hits(a: &Hits, b: &Hits) -> bool {
    a.len() == b.len() && a.iter().zip(b).all(|(x, y)| x.0 == y.0 && x.1.to_bits() == y.1.to_bits())
}

pub fn engine_case(acc: &mut Acc, seed: u64, case: u64) {
    let mut r = Rng::new(seed, "C18.engine", case);
    let dim = *r.pick(&[1usize, 2, 3, 8, 9, 16, 17, 33, 128]);
    let metric = METRICS[r.below(4)];
    let spelling = metric_spelling(&mut r, metric);
    let m = *r.pick(&[None, Some(2usize), Some(4), Some(16)]);
    let efc = *r.pick(&[None, Some(1usize), Some(8), Some(200)]);
    let m_max = m.unwrap_or(16) * 2;
    let n = *r.pick(&[1usize, 2, 5, m_max + 1, m_max + 1, 40, 150]);
    let flavour = r.weighted(&[55, 20, 12, 13]);
    let kinds: &[VKind] = match flavour {
        0 => &[VKind::BigNorm],
        1 => &[VKind::Unit, VKind::Grid, VKind::Zero, VKind::Sparse],
        2 => &[VKind::Unit, VKind::Small, VKind::Tiny],
        _ => &[VKind::Unit, VKind::Huge, VKind::Minus30, VKind::Zero],
    };
    let flav = super::index::FLAVOURS[flavour];
    let mut vecs: Vec<Vec<f32>> = Vec::new();
    for _ in 0..n {
        if !vecs.is_empty() && r.chance(0.1) {
            let j = r.below(vecs.len());
            vecs.push(vecs[j].clone());
        } else {
            vecs.push(gen_any(&mut r, dim, kinds));
        }
    }
    let origin = json!({"stream": "C18.engine", "seed": seed, "case": case, "dim": dim, "metric": metric.name(), "metric_arg": spelling, "m": m,
                        "ef_construction": efc, "n": n, "flavour": flav});
    acc.count(&format!("engine.cases.{}.{flav}", metric.name()), 1);
    acc.eval();
    let db = GrafeoDB::new_in_memory();
    // distractors: same property under another label, same label without the property,
    // same label with a non-vector value
    let other = db.create_node_with_props(&["Other"], [("emb", Value::Vector(gen_vec(&mut r, dim, VKind::Unit).into()))]);
    let bare = db.create_node(&["Doc"]);
    let scalar = db.create_node_with_props(&["Doc"], [("emb", Value::Int64(3))]);
    let ids = match catch(|| db.batch_create_nodes("Doc", "emb", vecs.clone())) {
        Ok(x) => x,
        Err(p) => {
            acc.dev(&format!("engine:batch_create_nodes.panic@{}", p.site), || json!({"at": p.at, "msg": p.msg, "origin": origin}));
            return;
        }
    };
    let mut model = Model::new();
    for (id, v) in ids.iter().zip(&vecs) {
        model.present.insert(id.as_u64(), v.clone());
    }
    let dims_arg = if r.chance(0.5) { Some(dim) } else { None };
    match catch(|| db.create_vector_index("Doc", "emb", dims_arg, spelling, m, efc)) {
        Err(p) => {
            acc.dev(&format!("engine:create_vector_index.panic@{}", p.site), || json!({"at": p.at, "msg": p.msg, "origin": origin}));
            return;
        }
        Ok(Err(e)) => {
            acc.dev("engine:create_vector_index.unexpected_error", || json!({"error": e.to_string(), "origin": origin}));
            return;
        }
        Ok(Ok(())) => {}
    }
    // error paths must be errors, not panics
    for (what, res) in [
        ("wrong_dimensions", catch(|| db.create_vector_index("Doc", "emb", Some(dim + 1), spelling, m, efc).is_err())),
        ("unknown_metric", catch(|| db.create_vector_index("Doc", "emb", None, Some("chebyshev"), m, efc).is_err())),
        ("no_vectors", catch(|| db.create_vector_index("Nope", "emb", None, spelling, m, efc).is_err())),
        ("missing_index", catch(|| db.vector_search("Nope", "emb", &vecs[0], 1, None).is_err())),
    ] {
        acc.eval();
        match res {
            Err(p) => acc.dev(&format!("engine:{what}.panic@{}", p.site), || json!({"at": p.at, "msg": p.msg, "origin": origin})),
            Ok(false) => acc.dev(&format!("engine:{what}.accepted"), || json!({"origin": origin})),
            Ok(true) => acc.count("engine.error_paths_ok", 1),
        }
    }
    let len = n;
    let justified = len <= m_max + 1; // insert-only build, no pruning possible (see rule)
    let nsearch = 6;
    let mut queries: Vec<Vec<f32>> = Vec::new();
    for s in 0..nsearch {
        let q = if r.chance(0.3) { vecs[r.below(n)].clone() } else { gen_any(&mut r, dim, kinds) };
        let k = *r.pick(&[0usize, 1, 2, len.saturating_sub(1), len, len + 5]);
        let ef = *r.pick(&[None, Some(0usize), Some(1), Some(len), Some(len + 5)]);
        let detail = |extra: J| json!({"origin": origin, "search": s, "query": show_vec(&q), "k": k, "ef": ef, "observed": extra,
                                       "vectors": if n <= 6 { json!(vecs.iter().map(|v| show_vec(v)).collect::<Vec<_>>()) } else { json!(format!("{n} vectors (regenerate from origin)")) }});
        match catch(|| db.vector_search("Doc", "emb", &q, k, ef)) {
            Err(p) => acc.dev(&format!("engine:vector_search.panic@{}", p.site), || detail(json!({"at": p.at, "msg": p.msg}))),
            Ok(Err(e)) => acc.dev("engine:vector_search.unexpected_error", || detail(json!({"error": e.to_string()}))),
            Ok(Ok(res)) => {
                if res.iter().any(|(id, _)| *id == other || *id == bare || *id == scalar) {
                    acc.dev("engine:search.id_not_indexed_label_or_property", || detail(json!({"result": res.iter().map(|x| x.0.as_u64()).collect::<Vec<_>>()})));
                }
                let j = Judge {
                    comp: "engine",
                    sig: "engine",
                    metric,
                    mode: DistMode::True,
                    stored_normalised: metric == M::Cosine,
                    model: &model,
                    justified,
                    ef_search: ef.unwrap_or(50).max(k),
                    exact_ok: true,
                };
                judge(acc, &j, &q, k, &res, &detail);
            }
        }
        queries.push(q);
    }
    // batch == one by one
    for (k, ef) in [(3usize, None), (len, Some(len + 5)), (1, Some(1usize))] {
        acc.eval();
        let r2 = catch(|| {
            let b = db.batch_vector_search("Doc", "emb", &queries, k, ef);
            let s: Vec<_> = queries.iter().map(|q| db.vector_search("Doc", "emb", q, k, ef)).collect();
            (b, s)
        });
        match r2 {
            Err(p) => acc.dev(&format!("engine:batch_vector_search.panic@{}", p.site), || json!({"at": p.at, "msg": p.msg, "origin": origin})),
            Ok((Ok(b), s)) => {
                acc.count("engine.batch_queries_compared", queries.len() as u64);
                let ok = b.len() == s.len() && b.iter().zip(&s).all(|(x, y)| matches!(y, Ok(y) if same_hits(x, y)));
                if !ok {
                    acc.dev("engine:batch_vector_search.differs_from_one_by_one", || json!({"origin": origin, "k": k, "ef": ef}));
                }
            }
            Ok((Err(e), _)) => acc.dev("engine:batch_vector_search.unexpected_error", || json!({"error": e.to_string(), "origin": origin})),
        }
    }
    // a node deleted from the database must not come back from a search
    if n >= 2 {
        acc.eval();
        let victim = ids[r.below(n)];
        let deleted = db.delete_node(victim);
        let q = vecs[ids.iter().position(|x| *x == victim).unwrap()].clone();
        match catch(|| db.vector_search("Doc", "emb", &q, len + 5, Some(len + 5))) {
            Err(p) => acc.dev(&format!("engine:vector_search.panic@{}", p.site), || json!({"at": p.at, "msg": p.msg, "origin": origin, "after": "delete_node"})),
            Ok(Err(e)) => acc.dev("engine:vector_search.unexpected_error", || json!({"error": e.to_string(), "origin": origin, "after": "delete_node"})),
            Ok(Ok(res)) => {
                acc.count("engine.searches_after_delete_node", 1);
                if deleted && res.iter().any(|(id, _)| *id == victim) && db.get_node(victim).is_none() {
                    acc.dev("engine:search.id_not_present|node_deleted_after_index_creation", || {
                        json!({"origin": origin, "deleted_node": victim.as_u64(), "get_node": "None",
                               "result_ids": res.iter().map(|x| x.0.as_u64()).collect::<Vec<_>>()})
                    });
                }
            }
        }
    }
    if n >= 2 {
        acc.nontrivial(fnv(format!("e{seed}{case}").as_bytes()));
    }
    if case < 1 {
        acc.sample(json!({"monitor": "engine", "origin": origin}));
    }
}
