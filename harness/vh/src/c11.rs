//! C11 — query results obey the algebra of predicates, limits and aggregates.
//! Metamorphic relations between the engine's own answers (no reference evaluator decides):
//!   partition   rows(Q) == rows(Q WHERE p) + rows(Q WHERE NOT p) + rows(Q WHERE (p) IS NULL)
//!   count       count == number of rows of the query without the aggregate
//!   distinct    DISTINCT(Q) == set(rows(Q))
//!   window      ORDER BY uid SKIP s LIMIT n == rows[s..s+n] of the ordered result
//!   order_perm  ORDER BY only permutes the rows, and sorts them
//!   weak_window SKIP/LIMIT without ORDER BY: right size, rows taken from the full result
//!   union_all   Q1 UNION ALL Q2 == rows(Q1) ++ rows(Q2)
//! in every language that can express the relation. A failing relation is first *attributed*:
//! if every component answer is exactly what the open findings' deviation rules of the C08
//! reference model predict, and the relation also fails on the predicted answers, the failure
//! is a KNOWN-FINDING of the responsible rule(s). Anything else is shrunk and signed
//! (relation | language | kind | canonical skeleton).

use crate::c08::ast::*;
use crate::c08::eval::{self, Rule, Rules, Row, eval_rows, rowkey};
use crate::c08::graph::{self, GraphSpec, build};
use crate::c08::render::{self, Lang, Rendered, render};
use crate::c08::{self, BIND_CAP, CaseOut, Verdict, merge, run_parallel, shrink, threads};
use crate::report::{Report, Tier};
use crate::rng::{Rng, hash_str};
use grafeo_common::types::Value;
use serde_json::json;
use std::collections::BTreeMap;

#[derive(Clone, Copy, Debug, PartialEq, Eq, Hash)]
pub enum Rel {
    Partition,
    /// two-way split rows(Q) == rows(p) + rows(NOT p), exact: only for directed cells whose
    /// predicate is known to be never unknown on Q (lets GQL, which has no IS NULL, lose rows
    /// visibly)
    PartitionTotal,
    Count,
    CountStar,
    Distinct,
    DistinctWith,
    Window,
    OrderPerm,
    WeakWindow,
    UnionAll,
}

impl Rel {
    fn name(self) -> &'static str {
        match self {
            Rel::Partition => "partition",
            Rel::PartitionTotal => "partition_total",
            Rel::Count => "count",
            Rel::CountStar => "count_star",
            Rel::Distinct => "distinct",
            Rel::DistinctWith => "distinct_with",
            Rel::Window => "window",
            Rel::OrderPerm => "order_perm",
            Rel::WeakWindow => "weak_window",
            Rel::UnionAll => "union_all",
        }
    }
}

/// one component query of a relation instance
#[derive(Clone)]
struct Comp {
    /// what is asked (rendered unless `text` overrides; also the model for attribution)
    q: Query,
    text: Option<String>,
    /// rules that do not apply to this component's text (e.g. WITH DISTINCT is not RETURN DISTINCT)
    rules_off: Vec<Rule>,
}

fn plain(q: &Query) -> Option<(&Vec<Proj>, bool)> {
    match &q.ret {
        Ret::Plain { items, distinct } => Some((items, *distinct)),
        _ => None,
    }
}

/// complement of a simple atom (Gremlin / GraphQL have no NOT)
fn complement(p: &Pred, graphql: bool) -> Option<Pred> {
    match p {
        Pred::Cmp(op, a, b) => {
            let o = match op {
                CmpOp::Eq => CmpOp::Ne,
                CmpOp::Ne => CmpOp::Eq,
                CmpOp::Lt => CmpOp::Ge,
                CmpOp::Le => CmpOp::Gt,
                CmpOp::Gt => CmpOp::Le,
                CmpOp::Ge => CmpOp::Lt,
            };
            Some(Pred::Cmp(o, a.clone(), b.clone()))
        }
        Pred::In(..) if !graphql => Some(Pred::Not(Box::new(p.clone()), false)),
        Pred::IsNull(t, n) if !graphql => Some(Pred::IsNull(t.clone(), !*n)),
        _ => None,
    }
}

/// Components of a relation instance, derived from its carrier query. None = the carrier does
/// not have the shape the relation needs (possible while shrinking) or the language cannot
/// express the relation.
fn components(rel: Rel, c: &Query, lang: Lang) -> Option<Vec<Comp>> {
    let mk = |q: Query| Comp { q, text: None, rules_off: vec![] };
    let (items, distinct) = plain(c)?;
    match rel {
        Rel::PartitionTotal => {
            let p = c.pred.clone()?;
            if distinct || !c.order.is_empty() || c.skip.is_some() || c.limit.is_some() || !matches!(lang, Lang::Gql | Lang::Cypher) {
                return None;
            }
            let mut all = c.clone();
            all.pred = None;
            all.fix_names();
            let mut neg = c.clone();
            neg.pred = Some(Pred::Not(Box::new(p), false));
            Some(vec![mk(all), mk(c.clone()), mk(neg)])
        }
        Rel::Partition => {
            let p = c.pred.clone()?;
            if distinct || !c.order.is_empty() || c.skip.is_some() || c.limit.is_some() {
                return None;
            }
            let mut all = c.clone();
            all.pred = None;
            all.fix_names();
            let with = |p: Pred| {
                let mut x = c.clone();
                x.pred = Some(p);
                x
            };
            match lang {
                Lang::Cypher => Some(vec![mk(all), mk(c.clone()), mk(with(Pred::Not(Box::new(p.clone()), false))), mk(with(Pred::PredIsNull(Box::new(p))))]),
                Lang::Gql => Some(vec![mk(all), mk(c.clone()), mk(with(Pred::Not(Box::new(p), false)))]),
                Lang::Gremlin | Lang::GraphQL => {
                    let neg = complement(&p, lang == Lang::GraphQL)?;
                    let mut v = vec![mk(all), mk(c.clone()), mk(with(neg))];
                    // third part: the property is missing (only when every stored value of the key
                    // is comparable with the constant: homogeneous keys)
                    if lang == Lang::Gremlin {
                        if let Pred::Cmp(_, Term::Prop(var, k), Term::Const(cst)) = &p {
                            if (k == "uid" || k == "f") && matches!(cst, Value::Int64(_) | Value::Float64(_)) {
                                v.push(mk(with(Pred::IsNull(Term::Prop(*var, k.clone()), false))));
                            }
                        }
                    }
                    Some(v)
                }
            }
        }
        Rel::Count | Rel::CountStar => {
            if distinct || !c.order.is_empty() || c.skip.is_some() || c.limit.is_some() || lang == Lang::GraphQL {
                return None;
            }
            let mut agg = c.clone();
            let arg = if rel == Rel::CountStar { AggArg::Star } else { AggArg::Var(Var::N(c.nodes.len() - 1)) };
            agg.ret = Ret::Agg { keys: vec![], aggs: vec![Agg { f: AggFn::Count, arg, distinct: false }] };
            agg.fix_names();
            Some(vec![mk(c.clone()), mk(agg)])
        }
        Rel::Distinct | Rel::DistinctWith => {
            if !distinct || !c.order.is_empty() || c.skip.is_some() || c.limit.is_some() || lang == Lang::GraphQL {
                return None;
            }
            let mut all = c.clone();
            all.ret = Ret::Plain { items: items.clone(), distinct: false };
            let mut d = mk(c.clone());
            if rel == Rel::DistinctWith {
                if !matches!(lang, Lang::Gql | Lang::Cypher) {
                    return None;
                }
                let mut t = format!("MATCH {}", render::pattern_text(c));
                if let Some(p) = &c.pred {
                    t.push_str(&format!(" WHERE {}", render::pred_text(p)));
                }
                let n = items.len();
                t.push_str(&format!(
                    " WITH DISTINCT {} RETURN {}",
                    items.iter().enumerate().map(|(i, p)| format!("{} AS c{i}", render::proj_text(p))).collect::<Vec<_>>().join(", "),
                    (0..n).map(|i| format!("c{i}")).collect::<Vec<_>>().join(", ")
                ));
                d.text = Some(t);
                d.rules_off = vec![Rule::DistinctIgnored];
            }
            Some(vec![mk(all), d])
        }
        Rel::Window | Rel::OrderPerm | Rel::WeakWindow => {
            if distinct {
                return None;
            }
            let ordered = !c.order.is_empty();
            let windowed = c.skip.is_some() || c.limit.is_some();
            match rel {
                Rel::Window if !(ordered && windowed) => return None,
                Rel::OrderPerm if !ordered || windowed => return None,
                Rel::WeakWindow if ordered || !windowed => return None,
                _ => {}
            }
            let mut base = c.clone();
            if rel == Rel::OrderPerm {
                base.order.clear();
            } else {
                base.skip = None;
                base.limit = None;
            }
            Some(vec![mk(base), mk(c.clone())])
        }
        Rel::UnionAll => {
            if lang != Lang::Gql || distinct || !c.order.is_empty() || c.skip.is_some() || c.limit.is_some() || items.len() != 1 {
                return None;
            }
            let q2 = Query {
                nodes: vec![NodePat { labels: vec![] }],
                edges: vec![],
                pred: None,
                ret: Ret::Plain { items: vec![Proj::Prop(Var::N(0), "uid".into())], distinct: false },
                order: vec![],
                skip: None,
                limit: None,
                order_in_with: false,
            };
            let t1 = render(c, lang)?.text;
            let t2 = render(&q2, lang)?.text;
            let mut u = mk(c.clone());
            u.text = Some(format!("{t1} UNION ALL {t2}"));
            Some(vec![mk(c.clone()), mk(q2), u])
        }
    }
}

fn multiset(rows: &[Row]) -> BTreeMap<String, i64> {
    let mut m = BTreeMap::new();
    for r in rows {
        *m.entry(rowkey(r, &[])).or_insert(0) += 1;
    }
    m
}

fn sub_multiset(a: &BTreeMap<String, i64>, b: &BTreeMap<String, i64>) -> bool {
    a.iter().all(|(k, n)| b.get(k).copied().unwrap_or(0) >= *n)
}

/// Does the relation hold on these answers (one per component)? None = holds.
fn check(rel: Rel, c: &Query, outs: &[Vec<Row>]) -> Option<(&'static str, String)> {
    match rel {
        Rel::Partition | Rel::PartitionTotal => {
            let all = multiset(&outs[0]);
            let mut parts: BTreeMap<String, i64> = BTreeMap::new();
            for o in &outs[1..] {
                for (k, n) in multiset(o) {
                    *parts.entry(k).or_insert(0) += n;
                }
            }
            let sizes: Vec<usize> = outs.iter().map(Vec::len).collect();
            if outs.len() == 4 || rel == Rel::PartitionTotal {
                // exact three-way split
                if parts != all {
                    let kind = if !sub_multiset(&parts, &all) { "extra_rows" } else { "lost_rows" };
                    return Some((kind, format!("|Q|, |p|, |NOT p|, |p IS NULL| = {sizes:?}")));
                }
            } else if !sub_multiset(&parts, &all) {
                return Some(("extra_rows", format!("|Q|, |p|, |NOT p| = {sizes:?}: a row is in a part more often than in Q")));
            }
            None
        }
        Rel::Count | Rel::CountStar => {
            let n = outs[0].len() as i64;
            if outs[1].len() != 1 || outs[1][0].len() != 1 || outs[1][0][0] != Value::Int64(n) {
                return Some(("wrong_value", format!("{n} rows, count says {:?}", outs[1])));
            }
            None
        }
        Rel::Distinct | Rel::DistinctWith => {
            let all = multiset(&outs[0]);
            let d = multiset(&outs[1]);
            let dup = d.values().any(|n| *n > 1);
            let same_set = all.keys().eq(d.keys());
            if dup {
                return Some(("extra_rows", format!("{} rows, {} distinct, DISTINCT returned {} with repeats", outs[0].len(), all.len(), outs[1].len())));
            }
            if !same_set {
                return Some((if d.len() < all.len() { "missing_rows" } else { "wrong_value" }, format!("{} distinct rows expected, {} returned", all.len(), d.len())));
            }
            None
        }
        Rel::Window => {
            let s = c.skip.unwrap_or(0) as usize;
            let n = c.limit.map(|l| l as usize).unwrap_or(usize::MAX);
            let exp: Vec<String> = outs[0].iter().skip(s).take(n).map(|r| rowkey(r, &[])).collect();
            let got: Vec<String> = outs[1].iter().map(|r| rowkey(r, &[])).collect();
            if exp != got {
                let kind = if got.len() < exp.len() {
                    "missing_rows"
                } else if got.len() > exp.len() {
                    "extra_rows"
                } else {
                    "wrong_rows"
                };
                return Some((kind, format!("ordered result has {} rows; rows[{s}..{s}+{n}] has {}, the window query returned {}", outs[0].len(), exp.len(), got.len())));
            }
            None
        }
        Rel::OrderPerm => {
            if multiset(&outs[0]) != multiset(&outs[1]) {
                return Some(("wrong_rows", format!("{} rows unordered, {} rows ordered, not the same multiset", outs[0].len(), outs[1].len())));
            }
            for w in outs[1].windows(2) {
                for o in &c.order {
                    let cmp = eval::sort_cmp(&w[0][o.col], &w[1][o.col]).map(|x| if o.desc { x.reverse() } else { x });
                    match cmp {
                        Some(std::cmp::Ordering::Less) => break,
                        Some(std::cmp::Ordering::Greater) => return Some(("wrong_order", format!("{:?} before {:?}", w[0], w[1]))),
                        _ => {}
                    }
                }
            }
            None
        }
        Rel::WeakWindow => {
            let s = c.skip.unwrap_or(0) as usize;
            let n = outs[0].len().saturating_sub(s).min(c.limit.map(|l| l as usize).unwrap_or(usize::MAX));
            if outs[1].len() != n {
                return Some((if outs[1].len() < n { "missing_rows" } else { "extra_rows" }, format!("{} rows, skip {:?} limit {:?} must give {n}, got {}", outs[0].len(), c.skip, c.limit, outs[1].len())));
            }
            if !sub_multiset(&multiset(&outs[1]), &multiset(&outs[0])) {
                return Some(("wrong_rows", "the window contains rows that are not in the full result".into()));
            }
            None
        }
        Rel::UnionAll => {
            let mut cat = multiset(&outs[0]);
            for (k, n) in multiset(&outs[1]) {
                *cat.entry(k).or_insert(0) += n;
            }
            if multiset(&outs[2]) != cat {
                let kind = if multiset(&outs[2]) == multiset(&outs[0]) && !outs[1].is_empty() { "second_branch_ignored" } else { "wrong_rows" };
                return Some((kind, format!("|Q1| = {}, |Q2| = {}, |Q1 UNION ALL Q2| = {}", outs[0].len(), outs[1].len(), outs[2].len())));
            }
            None
        }
    }
}

/// what the deviation rules `s` predict for one component (rows in result order where the
/// component is ordered); None = not predictable
fn predict(b: &graph::Built, comp: &Comp, lang: Lang, s: &Rules, observed: &[Row]) -> Option<Vec<Row>> {
    let mut s = s.clone();
    for r in &comp.rules_off {
        s = s.without(*r);
    }
    let q = &comp.q;
    let windowed = q.skip.is_some() || q.limit.is_some();
    if !eval::expected_errors(q, lang, &s).is_empty() {
        return None;
    }
    let mut rows = eval_rows(&b.model, q, lang, &s, BIND_CAP).ok()?;
    let cmp_rows = |x: &Row, y: &Row| {
        for o in &q.order {
            // total order: kinds first (nulls last), then value
            let (cx, cy) = (eval::class(&x[o.col]), eval::class(&y[o.col]));
            let rank = |c: u8| if c == 0 { 9 } else { c };
            let c = rank(cx).cmp(&rank(cy)).then_with(|| eval::sort_cmp(&x[o.col], &y[o.col]).unwrap_or_else(|| eval::vkey(&x[o.col], false).cmp(&eval::vkey(&y[o.col], false))));
            let c = if o.desc { c.reverse() } else { c };
            if c != std::cmp::Ordering::Equal {
                return c;
            }
        }
        std::cmp::Ordering::Equal
    };
    let sk = q.skip.unwrap_or(0) as usize;
    let lim = q.limit.map(|l| l as usize).unwrap_or(usize::MAX);
    let size = rows.len().saturating_sub(sk).min(lim);
    // which rows are cut is the engine's choice when the window comes before any order (no
    // ORDER BY, or rule GqlWindowFirst): its answer is the prediction if it is a possible one
    let engine_picks = windowed && (q.order.is_empty() || (lang == Lang::Gql && s.on(Rule::GqlWindowFirst)));
    if engine_picks && observed.len() == size && sub_multiset(&multiset(observed), &multiset(&rows)) {
        return Some(observed.to_vec());
    }
    // an edge column re-typed under way (rule EdgeColTypeLost) is sorted on its true values when
    // nothing rebuilt the chunk before the sort, on the looked-up node values otherwise: the
    // engine's order is taken when it returns the predicted multiset
    let order_on_edge = match &q.ret {
        Ret::Plain { items, .. } => q.order.iter().any(|o| matches!(items[o.col], Proj::Prop(Var::E(_), _))),
        _ => false,
    };
    if order_on_edge && !windowed && eval::edge_cols_retyped(q, lang, &s, rows.len()) == Ok(true) && multiset(observed) == multiset(&rows) {
        return Some(observed.to_vec());
    }
    if !q.order.is_empty() {
        rows.sort_by(cmp_rows);
    }
    if windowed {
        rows = rows.into_iter().skip(sk).take(lim).collect();
    }
    Some(rows)
}

pub enum Outcome11 {
    Holds,
    Inexpressible,
    /// explained by these open rules
    Known(Vec<Rule>),
    Fails(String, String),
    Undecided(String),
}

fn comp_rendered(comp: &Comp, lang: Lang) -> Option<Rendered> {
    match &comp.text {
        Some(t) => Some(Rendered { text: t.clone(), cols: None }),
        None => render(&comp.q, lang),
    }
}

/// Evaluate one relation instance (carrier query `c`) in one language.
pub fn relation(g: &GraphSpec, rel: Rel, c: &Query, lang: Lang, dev: &Rules) -> (Outcome11, Vec<String>) {
    let Some(comps) = components(rel, c, lang) else { return (Outcome11::Inexpressible, vec![]) };
    let b = build(g);
    let mut outs: Vec<Vec<Row>> = Vec::new();
    let mut texts = Vec::new();
    let mut verdicts = Vec::new();
    for comp in &comps {
        let Some(r) = comp_rendered(comp, lang) else { return (Outcome11::Inexpressible, vec![]) };
        texts.push(r.text.clone());
        let mut d = dev.clone();
        for x in &comp.rules_off {
            d = d.without(*x);
        }
        let _ = c08::take_last_rows();
        let (v, _) = c08::verdict_r(&b, &comp.q, lang, &d, r);
        match c08::take_last_rows() {
            Some(rows) => outs.push(rows),
            None => {
                // the component did not answer
                return match v {
                    Verdict::Known(rules) => (Outcome11::Known(rules), texts),
                    Verdict::Mismatch(k, dsc) => (Outcome11::Fails(k, dsc), texts),
                    Verdict::Tainted(t) => (Outcome11::Undecided(format!("tainted_by_{}", eval::rule_id(t))), texts),
                    _ => (Outcome11::Undecided("component gave no rows".into()), texts),
                };
            }
        }
        verdicts.push(v);
    }
    // a component hit by a defect the reference model cannot emulate: not judged here (C08's
    // directed cells and the directed cells below pin those defects)
    for v in &verdicts {
        if let Verdict::Tainted(t) = v {
            return (Outcome11::Undecided(format!("tainted_by_{}", eval::rule_id(*t))), texts);
        }
    }
    let Some((kind, note)) = check(rel, c, &outs) else { return (Outcome11::Holds, texts) };
    // the relation fails, but the reference model could not evaluate a component (binding cap):
    // the failure cannot be attributed to, or told apart from, the open findings
    if rel != Rel::UnionAll && verdicts.iter().any(|v| matches!(v, Verdict::Undecided(_))) {
        return (Outcome11::Undecided("attribution_undecided_binding_cap".into()), texts);
    }
    // union_all over a front end that ignores the second branch: fixed kind, no model
    // attribution: are all component answers what the open rules predict, and does the relation
    // fail on the predictions too?
    let explained = verdicts.iter().all(|v| matches!(v, Verdict::Agree | Verdict::Known(_)));
    if explained && rel != Rel::UnionAll {
        let fails_under = |s: &Rules| -> Option<bool> {
            let mut pred = Vec::new();
            for (i, comp) in comps.iter().enumerate() {
                pred.push(predict(&b, comp, lang, s, &outs[i])?);
            }
            Some(check(rel, c, &pred).is_some())
        };
        if fails_under(dev) == Some(true) {
            // rules that explain the component answers ...
            let mut explaining: Vec<Rule> = Vec::new();
            for v in &verdicts {
                if let Verdict::Known(rs) = v {
                    for r in rs {
                        if !explaining.contains(r) {
                            explaining.push(*r);
                        }
                    }
                }
            }
            // (a window cut before the order, and a re-typed edge column, act on a component even
            // when its answer happens to coincide with the specification)
            for comp in &comps {
                let w = comp.q.skip.is_some() || comp.q.limit.is_some();
                if lang == Lang::Gql && w && dev.on(Rule::GqlWindowFirst) && !explaining.contains(&Rule::GqlWindowFirst) {
                    explaining.push(Rule::GqlWindowFirst);
                }
                if eval::edge_cols_retyped(&comp.q, lang, dev, usize::MAX / 2).unwrap_or(true) && !explaining.contains(&Rule::EdgeColTypeLost) {
                    explaining.push(Rule::EdgeColTypeLost);
                }
            }
            // ... of which only those that can break this relation are responsible (the others
            // merely shape the data the relation is evaluated on, identically in every component)
            let relevant: &[Rule] = match rel {
                Rel::Partition | Rel::PartitionTotal => &[Rule::StackedFilter, Rule::RangeScanStrict, Rule::ZoneMapPrecheck],
                Rel::Count | Rel::CountStar => &[Rule::ErrCountStar],
                Rel::Distinct | Rel::DistinctWith => &[Rule::DistinctIgnored],
                Rel::Window => &[Rule::GqlWindowFirst, Rule::EdgeColTypeLost],
                Rel::OrderPerm | Rel::WeakWindow => &[Rule::EdgeColTypeLost],
                Rel::UnionAll => &[],
            };
            let resp: Vec<Rule> = explaining.into_iter().filter(|r| relevant.contains(r)).collect();
            if !resp.is_empty() {
                return (Outcome11::Known(resp), texts);
            }
        }
    }
    let sizes: Vec<usize> = outs.iter().map(Vec::len).collect();
    (Outcome11::Fails(kind.to_string(), format!("{note}; component sizes {sizes:?}")), texts)
}

fn family(kind: &str) -> String {
    match kind {
        "missing_rows" | "extra_rows" | "lost_rows" | "wrong_value" | "wrong_order" | "wrong_rows" => "rows".into(),
        k => c08::family(k),
    }
}

// ------------------------------------------------------------------ generation

fn uid_items(q: &Query, edges_too: bool) -> Vec<Proj> {
    let mut v: Vec<Proj> = (0..q.nodes.len()).map(|i| Proj::Prop(Var::N(i), "uid".into())).collect();
    for (i, e) in q.edges.iter().enumerate() {
        if e.len.is_none() && edges_too {
            v.push(Proj::Prop(Var::E(i), "uid".into()));
        }
    }
    v
}

/// base query: small pattern whose rows identify the bindings (uid of every variable)
fn gen_base(r: &mut Rng, max_hops: usize) -> Query {
    let cfg = GenCfg { max_hops, p_varlen: 0.06, ..GenCfg::default() };
    let (mut nodes, edges) = gen_pattern(r, &cfg);
    // labels mostly on the first node (a label on a later node is a filter operator)
    for n in nodes.iter_mut().skip(1) {
        if r.chance(0.7) {
            n.labels.clear();
        }
    }
    for n in nodes.iter_mut() {
        n.labels.truncate(1);
    }
    let mut q = Query { nodes, edges, pred: None, ret: Ret::Plain { items: vec![], distinct: false }, order: vec![], skip: None, limit: None, order_in_with: true };
    for e in q.edges.iter_mut() {
        e.types.truncate(1);
    }
    // edge uids only sometimes: an edge column under ORDER BY/SKIP/LIMIT hits finding C11-F16
    let edges_too = r.chance(0.3);
    q.ret = Ret::Plain { items: uid_items(&q, edges_too), distinct: false };
    q.fix_names();
    q
}

fn gen_instance(r: &mut Rng, huge: bool) -> (Rel, Query) {
    let rel = *r.pick(&[
        Rel::Partition, Rel::Partition, Rel::Partition, Rel::Partition, Rel::Count, Rel::Count, Rel::CountStar, Rel::Distinct, Rel::DistinctWith, Rel::Window, Rel::Window, Rel::Window,
        Rel::OrderPerm, Rel::WeakWindow, Rel::UnionAll,
    ]);
    let mut q = gen_base(r, if huge { 1 } else { 2 });
    let sizes: [u64; 10] = [0, 1, 2, 3, 5, 7, 10, 20, 2047, 4096];
    let huge_sizes: [u64; 12] = [0, 1, 2046, 2047, 2048, 2049, 2050, 2100, 2600, 3000, 4096, 5000];
    let pick_size = |r: &mut Rng| if huge { *r.pick(&huge_sizes) } else { *r.pick(&sizes) };
    match rel {
        Rel::PartitionTotal => unreachable!("directed cells only"),
        Rel::Partition => {
            q.pred = Some(match r.below(10) {
                0..=2 => gen_atom(r, &q),
                _ => gen_pred(r, &q, 3),
            });
        }
        Rel::Count | Rel::CountStar => {
            if r.chance(0.6) {
                q.pred = Some(gen_pred(r, &q, 2));
            }
        }
        Rel::Distinct | Rel::DistinctWith => {
            let n = 1 + r.below(2);
            let items: Vec<Proj> = (0..n)
                .map(|_| {
                    let v = Var::N(r.below(q.nodes.len()));
                    Proj::Prop(v, (*r.pick(&["k", "s", "b", "f", "k"])).to_string())
                })
                .collect();
            q.ret = Ret::Plain { items, distinct: true };
            if r.chance(0.4) {
                q.pred = Some(gen_pred(r, &q, 2));
            }
        }
        Rel::Window | Rel::OrderPerm | Rel::WeakWindow => {
            if r.chance(0.4) {
                q.pred = Some(gen_pred(r, &q, 2));
            }
            if rel != Rel::WeakWindow {
                // total order: every uid column
                let n = q.ncols();
                let desc = r.chance(0.3);
                q.order = (0..n).map(|col| Order { col, desc }).collect();
            }
            if rel != Rel::OrderPerm {
                if r.chance(0.7) {
                    q.skip = Some(pick_size(r));
                }
                if q.skip.is_none() || r.chance(0.7) {
                    q.limit = Some(pick_size(r));
                }
            }
            q.order_in_with = r.chance(0.85);
        }
        Rel::UnionAll => {
            q.ret = Ret::Plain { items: vec![Proj::Prop(Var::N(0), "uid".into())], distinct: false };
        }
    }
    q.fix_names();
    (rel, q)
}

/// sizes relative to the result size n: n-1, n, n+1 (needs the unwindowed answer first)
fn retarget_window(q: &mut Query, n: usize, r: &mut Rng) {
    let around = [n.saturating_sub(1) as u64, n as u64, n as u64 + 1, n as u64 + 50];
    if q.skip.is_some() && r.chance(0.35) {
        q.skip = Some(*r.pick(&around));
    }
    if q.limit.is_some() && r.chance(0.35) {
        q.limit = Some(*r.pick(&around));
    }
}

// ------------------------------------------------------------------ driver

const LANGS11: [Lang; 4] = [Lang::Gql, Lang::Cypher, Lang::Gremlin, Lang::GraphQL];

fn process(g: &GraphSpec, rel: Rel, c: &Query, dev: &Rules, out: &mut CaseOut, stratum: &str) {
    let mut any = false;
    for lang in LANGS11 {
        let (o, texts) = relation(g, rel, c, lang, dev);
        match o {
            Outcome11::Inexpressible => {
                out.count(&format!("inexpressible.{}.{}", rel.name(), lang.name()));
            }
            Outcome11::Undecided(u) => out.count(&format!("undecided.{}", u.split('(').next().unwrap_or("x"))),
            Outcome11::Holds => {
                any = true;
                out.evals += 1;
                out.count(&format!("holds.{}.{}", rel.name(), lang.name()));
                out.count(&format!("instances.{stratum}"));
            }
            Outcome11::Known(rules) => {
                any = true;
                out.evals += 1;
                out.count(&format!("explained_by_open_findings.{}.{}", rel.name(), lang.name()));
                for r in rules {
                    out.known.push((rule_finding(r), format!("{} {}: {}", rel.name(), lang.name(), texts.last().cloned().unwrap_or_default())));
                }
            }
            Outcome11::Fails(kind, _) => {
                any = true;
                out.evals += 1;
                out.count(&format!("fails.{}.{}", rel.name(), lang.name()));
                let fam = family(&kind);
                let mut fails = |g2: &GraphSpec, q2: &Query| matches!(relation(g2, rel, q2, lang, dev).0, Outcome11::Fails(k, _) if family(&k) == fam);
                // partition_total is only valid on the directed cells' own graph and label (the
                // predicate must be total there): those cells are reported as they are
                let budget = if rel == Rel::PartitionTotal { 0 } else { 200 };
                let (g2, q2, used) = shrink::shrink(g, c, budget, &mut fails);
                let (o2, texts2) = relation(&g2, rel, &q2, lang, dev);
                let (kind2, detail) = match o2 {
                    Outcome11::Fails(k, d) => (k, d),
                    _ => (kind.clone(), String::new()),
                };
                let sig = format!("{}|{}|{}|{}", rel.name(), lang.name(), kind2, skeleton(&q2, lang == Lang::Cypher));
                out.deviations.push((
                    sig,
                    json!({"relation": rel.name(), "language": lang.name(), "kind": kind2, "original_component_queries": texts,
                           "shrunk_component_queries": texts2, "shrunk_graph": if g2.nodes.len() <= 40 { g2.to_json() } else { json!({"nodes": g2.nodes.len(), "edges": g2.edges.len()}) },
                           "observed": detail, "shrink_executions": used}),
                ));
            }
        }
    }
    if any {
        let nontrivial = c.pred.is_some() || !c.edges.is_empty() || c.skip.is_some() || c.limit.is_some();
        if nontrivial {
            out.nontrivial = Some(hash_str(&format!("{rel:?}{c:?}|{}", g.nodes.len())));
        }
        if out.sample.is_none() {
            out.sample = Some(json!({"relation": rel.name(), "carrier_gql": render(c, Lang::Gql).map(|r| r.text), "graph_nodes": g.nodes.len()}));
        }
    }
}

/// C11 finding that documents the same root cause as a C08 deviation rule
fn rule_finding(r: Rule) -> String {
    eval::rule_id(r).replace("C08-", "C11-")
}

fn case(seed: u64, i: u64, dev: &Rules) -> CaseOut {
    let mut out = CaseOut::default();
    let mut gr = Rng::new(seed, "c11.graph", i / 5);
    let g = graph::random_graph(&mut gr, 40, 1.2);
    let mut qr = Rng::new(seed, "c11.query", i);
    let (rel, mut q) = gen_instance(&mut qr, false);
    // a third of the predicates get literals at the bounds of the graph's actual values (the
    // zone map's min/max) and literal-first spellings
    if qr.chance(0.33) {
        if let Some(p) = q.pred.as_mut() {
            sharpen_pred(p, &|k| graph::key_bounds(&g, k), &mut qr);
        }
    }
    if matches!(rel, Rel::Window | Rel::WeakWindow) {
        // sizes around the actual result size
        let b = build(&g);
        let mut base = q.clone();
        base.skip = None;
        base.limit = None;
        base.order.clear();
        if let Ok(rows) = eval_rows(&b.model, &base, Lang::Cypher, &Rules::none(), BIND_CAP) {
            retarget_window(&mut q, rows.len(), &mut qr);
        }
    }
    process(&g, rel, &q, dev, &mut out, "small");
    out
}

fn huge_case(seed: u64, i: u64, dev: &Rules) -> CaseOut {
    let mut out = CaseOut::default();
    let mut gr = Rng::new(seed, "c11.hugegraph", i / 8);
    let g = graph::huge_graph(&mut gr);
    let mut qr = Rng::new(seed, "c11.hugequery", i);
    let (rel, mut q) = gen_instance(&mut qr, true);
    // keep the pattern small: scan or one hop
    if q.edges.len() > 1 || q.edges.iter().any(|e| e.len.is_some() || e.dir == Dir::Both) {
        q = gen_instance(&mut Rng::new(seed, "c11.hugequery2", i), true).1;
        q.nodes.truncate(1);
        q.edges.clear();
        q.pred = None;
        q.ret = Ret::Plain { items: uid_items(&q, false), distinct: false };
        q.order.retain(|o| o.col == 0);
        let rel2 = if q.order.is_empty() { Rel::WeakWindow } else { Rel::Window };
        if q.skip.is_none() && q.limit.is_none() {
            q.limit = Some(2048);
        }
        q.fix_names();
        if matches!(rel2, Rel::Window | Rel::WeakWindow) {
            let n = g.nodes.iter().filter(|n| q.nodes[0].labels.iter().all(|l| n.labels.contains(l))).count();
            retarget_window(&mut q, n, &mut qr);
        }
        process(&g, rel2, &q, dev, &mut out, "huge");
        return out;
    }
    if matches!(rel, Rel::Window | Rel::WeakWindow) {
        let b = build(&g);
        let mut base = q.clone();
        base.skip = None;
        base.limit = None;
        base.order.clear();
        if let Ok(rows) = eval_rows(&b.model, &base, Lang::Cypher, &Rules::none(), BIND_CAP) {
            retarget_window(&mut q, rows.len(), &mut qr);
        }
    }
    process(&g, rel, &q, dev, &mut out, "huge");
    out
}

pub fn run(tier: Tier, seed: u64) -> ! {
    let mut rep = Report::new("C11", tier, seed, "exploration");
    rep.rule = "relation instance = (graph, carrier query, relation, language); counted once per language in which every component query answered; non-trivial = carrier with a predicate, an edge pattern or a window; distinct by hash of (relation, carrier AST, graph size)".into();
    rep.assumptions = vec![
        "the relations are checked between the engine's own answers; the C08 reference model is used only to attribute a failing relation to open findings (every component answer must be exactly what the findings' rules predict, and the relation must fail on the predicted answers as well)".into(),
        "partition: exact three-way split in Cypher; GQL has no IS NULL (finding C08-F17) and GraphQL/Gremlin have no NOT: there rows(p) + rows(NOT p) must be contained in rows(Q) (Gremlin: exact split with hasNot(k) for homogeneous numeric keys); NOT p for Gremlin/GraphQL atoms is the complementary comparison".into(),
        "count: count(last variable) stands for count(*) (variables are never null in the core); the literal count(*) is the separate relation count_star".into(),
        "window: ORDER BY lists the uid of every variable (total order); Cypher writes ORDER BY/SKIP/LIMIT in a WITH before RETURN (RETURN ... ORDER BY fails: C08-F21); without ORDER BY only the size and membership of the window are checked".into(),
        "UNION ALL: only GQL accepts the text (Cypher: syntax error 'Expected end of query', Gremlin: unknown step union — listed, not generated)".into(),
        "predicates come from the full C08 generator (comparisons, + - *, AND/OR/NOT, IN, IS NULL, string operators, missing and mixed-kind properties); arithmetic uses constants 0..3 on small values only: no overflow, no division (C12's business)".into(),
        "skip/limit values: 0, 1, 2, 3, 5, 7, 10, 20, n-1, n, n+1, n+50, 2046..2050, 2100, 2600, 3000, 4096, 5000; graphs of 2650-3050 nodes give scans and one-hop results that cross the 2048-row chunk size".into(),
    ];
    // a rule is on when its C08 finding or the C11 finding of the same root cause is open
    let dev = Rules::from_open(|id| rep.findings.rule_open(id) || rep.findings.rule_open(&id.replace("C08-", "C11-")));
    rep.extra.insert(
        "deviation_rules_on".into(),
        json!(eval::RULE_IDS.iter().filter(|x| dev.on(x.0)).map(|x| format!("{} ({:?})", x.1, x.0)).collect::<Vec<_>>()),
    );
    let n: u64 = std::env::var("C11_CASES").ok().and_then(|s| s.parse().ok()).unwrap_or(tier.pick(10_000, 90_000));
    let nhuge: u64 = std::env::var("C11_HUGE").ok().and_then(|s| s.parse().ok()).unwrap_or(tier.pick(64, 1500));
    let th = threads();
    let merge11 = |rep: &mut Report, mut out: CaseOut| {
        // a root cause known to C08 but not recorded as a C11 finding is a violation here
        let known = std::mem::take(&mut out.known);
        for (id, ex) in known {
            if rep.findings.rule_open(&id) {
                out.known.push((id, ex));
            } else {
                out.deviations.push((format!("unrecorded_root_cause|{id}"), json!({"example": ex, "note": "the relation fails exactly as the C08 deviation rule of that number predicts, but no open C11 finding records it"})));
            }
        }
        merge(rep, out);
    };
    // directed cells: defects the reference model does not emulate, under fixed signatures
    {
        let no9 = dev.without(Rule::FactorizedEmptyLevel);
        let mut two = c08::base_query(2);
        two.ret = Ret::Plain { items: uid_items(&two, false), distinct: false };
        let mut cells: Vec<(GraphSpec, Rel, Query, Rules)> = vec![(c08::chain_graph(2), Rel::Count, two.clone(), no9.clone()), (c08::chain_graph(1), Rel::Count, two.clone(), no9.clone())];
        let mut part = c08::base_query(1);
        part.ret = Ret::Plain { items: uid_items(&part, false), distinct: false };
        part.pred = Some(Pred::Cmp(CmpOp::Gt, Term::Prop(Var::E(0), "uid".into()), Term::Const(Value::Int64(500))));
        part.fix_names();
        cells.push((c08::chain_graph(3), Rel::Partition, part, dev.clone()));
        let mut two_p = two.clone();
        two_p.pred = Some(Pred::Cmp(CmpOp::Gt, Term::Prop(Var::N(0), "uid".into()), Term::Const(Value::Int64(0))));
        cells.push((c08::chain_graph(2), Rel::Partition, two_p, no9.clone()));
        for (g, rel, q, rules) in cells {
            let mut out = CaseOut::default();
            process(&g, rel, &q, &rules, &mut out, "directed");
            merge11(&mut rep, out);
        }
        // zone-boundary family: partition / count / distinct with literal-first comparisons whose
        // literal is at, just inside and just outside the store-wide min / max of the property,
        // over a bare and a labelled node scan (on :P the predicate is never unknown: exact
        // two-way split, so that GQL is sensitive too)
        let bg = c08::boundary_graph();
        for (key, lits) in c08::boundary_literals() {
            for cst in &lits {
                for op in [CmpOp::Eq, CmpOp::Ne, CmpOp::Lt, CmpOp::Le, CmpOp::Gt, CmpOp::Ge] {
                    for labelled in [false, true] {
                        let mut q = c08::base_query(0);
                        if labelled {
                            q.nodes[0].labels = vec!["P".into()];
                        }
                        q.pred = Some(Pred::Cmp(op, Term::Const(cst.clone()), Term::Prop(Var::N(0), key.into())));
                        q.ret = Ret::Plain { items: uid_items(&q, false), distinct: false };
                        let mut dq = q.clone();
                        dq.ret = Ret::Plain { items: vec![Proj::Prop(Var::N(0), key.into())], distinct: true };
                        let mut rels = vec![(Rel::Partition, q.clone()), (Rel::Count, q.clone()), (Rel::DistinctWith, dq)];
                        if labelled {
                            rels.push((Rel::PartitionTotal, q.clone()));
                        }
                        for (rel, carrier) in rels {
                            let mut out = CaseOut::default();
                            process(&bg, rel, &carrier, &dev, &mut out, "directed_zone_boundary");
                            merge11(&mut rep, out);
                        }
                    }
                }
            }
        }
    }
    for out in run_parallel(n, th, |i| case(seed, i, &dev)) {
        merge11(&mut rep, out);
    }
    for out in run_parallel(nhuge, th, |i| huge_case(seed, i, &dev)) {
        merge11(&mut rep, out);
    }
    rep.finish()
}
