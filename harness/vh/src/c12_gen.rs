//! C12 corpus: directed (seed-independent) inputs, nesting constructs, seeded random batches.
//! Language specific generators live in c12_gen_<lang>.rs.

use super::seeds;
use super::{Input, L_CYPHER, L_GQL, L_GRAPHQL, L_GREMLIN, L_SPARQL};
use crate::rng::Rng;

#[path = "c12_gen_cy.rs"]
pub mod cy;
#[path = "c12_gen_other.rs"]
pub mod other;

pub struct Nest {
    pub lang: u8,
    pub fx: u8,
    pub name: &'static str,
    pub make: Box<dyn Fn(usize) -> String + Send + Sync>,
}

pub fn nest(lang: u8, name: &'static str, f: impl Fn(usize) -> String + Send + Sync + 'static) -> Nest {
    Nest { lang, fx: 1, name, make: Box::new(f) }
}

/// `open`^d core `close`^d wrapped in prefix/suffix
pub fn wrap(prefix: &str, open: &str, core: &str, close: &str, suffix: &str, d: usize) -> String {
    let mut s = String::with_capacity(prefix.len() + suffix.len() + core.len() + d * (open.len() + close.len()));
    s.push_str(prefix);
    for _ in 0..d {
        s.push_str(open);
    }
    s.push_str(core);
    for _ in 0..d {
        s.push_str(close);
    }
    s.push_str(suffix);
    s
}

/// first `sep` first `sep` … (d repetitions of `item`)
pub fn chain(prefix: &str, item: &str, sep: &str, suffix: &str, d: usize) -> String {
    let mut s = String::with_capacity(prefix.len() + suffix.len() + d * (item.len() + sep.len()));
    s.push_str(prefix);
    for i in 0..d {
        if i > 0 {
            s.push_str(sep);
        }
        s.push_str(item);
    }
    s.push_str(suffix);
    s
}

pub fn stock(lang: u8) -> &'static [&'static str] {
    match lang {
        L_GQL => seeds::GQL,
        L_CYPHER => seeds::CYPHER,
        L_GREMLIN => seeds::GREMLIN,
        L_GRAPHQL => seeds::GRAPHQL,
        _ => seeds::SPARQL,
    }
}

/// Characters that lexers tend to mishandle: multi-byte letters, multi-byte whitespace, case
/// mappings that change length, combining marks, controls, BOM, noncharacters.
pub const HOSTILE: [char; 30] = [
    'é', 'ß', 'İ', 'ǆ', '日', '\u{1F600}', '\u{a0}', '\u{2003}', '\u{2028}', '\u{85}', '\u{feff}', '\u{200b}', '\u{301}', '\u{3000}',
    '\0', '\x01', '\x07', '\x08', '\x0b', '\x0c', '\r', '\x1b', '\x7f', '\u{80}', '\u{fffd}', '\u{10ffff}', '٣', '²', '\u{202e}', 'ﬁ',
];

/// Generic token boundaries: identifier/number runs, quoted strings, whitespace runs, single
/// punctuation characters. Returns byte ranges.
pub fn tokens(s: &str) -> Vec<(usize, usize)> {
    let b: Vec<(usize, char)> = s.char_indices().collect();
    let mut out = Vec::new();
    let mut i = 0;
    let end_of = |j: usize| if j < b.len() { b[j].0 } else { s.len() };
    while i < b.len() {
        let (st, c) = b[i];
        let mut j = i + 1;
        if c.is_alphanumeric() || c == '_' {
            while j < b.len() && (b[j].1.is_alphanumeric() || b[j].1 == '_') {
                j += 1;
            }
        } else if c.is_whitespace() {
            while j < b.len() && b[j].1.is_whitespace() {
                j += 1;
            }
        } else if c == '\'' || c == '"' {
            while j < b.len() && b[j].1 != c {
                if b[j].1 == '\\' {
                    j += 1;
                }
                j += 1;
            }
            j = (j + 1).min(b.len());
        }
        out.push((st, end_of(j)));
        i = j;
    }
    out
}

fn nonspace_tokens(s: &str) -> Vec<(usize, usize)> {
    tokens(s).into_iter().filter(|(a, b)| !s[*a..*b].trim().is_empty()).collect()
}

/// One random mutation of a valid query.
pub fn mutate(r: &mut Rng, lang: u8, s: &str) -> (String, &'static str) {
    let toks = nonspace_tokens(s);
    if toks.is_empty() {
        return (s.to_string(), "mut-noop");
    }
    let st = stock(lang);
    match r.below(10) {
        0 => {
            let (a, b) = toks[r.below(toks.len())];
            (format!("{}{}", &s[..a], &s[b..]), "mut-delete")
        }
        1 => {
            let (a, b) = toks[r.below(toks.len())];
            let n = *r.pick(&[1usize, 1, 2, 5]);
            (format!("{}{}{}", &s[..b], format!(" {}", &s[a..b]).repeat(n), &s[b..]), "mut-duplicate")
        }
        2 => {
            let i = r.below(toks.len());
            let j = r.below(toks.len());
            let (i, j) = (i.min(j), i.max(j));
            if i == j {
                return (s.to_string(), "mut-noop");
            }
            let (a1, b1) = toks[i];
            let (a2, b2) = toks[j];
            (format!("{}{}{}{}{}", &s[..a1], &s[a2..b2], &s[b1..a2], &s[a1..b1], &s[b2..]), "mut-swap")
        }
        3 => {
            // splice: prefix of s + suffix of another stock query
            let o = *r.pick(st);
            let ot = nonspace_tokens(o);
            if ot.is_empty() {
                return (s.to_string(), "mut-noop");
            }
            let (_, b) = toks[r.below(toks.len())];
            let (a2, _) = ot[r.below(ot.len())];
            (format!("{} {}", &s[..b], &o[a2..]), "mut-splice")
        }
        4 => {
            // replace a token by a token of another query
            let o = *r.pick(st);
            let ot = nonspace_tokens(o);
            if ot.is_empty() {
                return (s.to_string(), "mut-noop");
            }
            let (a, b) = toks[r.below(toks.len())];
            let (a2, b2) = ot[r.below(ot.len())];
            (format!("{}{}{}", &s[..a], &o[a2..b2], &s[b..]), "mut-replace")
        }
        5 => {
            // truncate at a random char boundary
            let cut: Vec<usize> = s.char_indices().map(|x| x.0).collect();
            let c = cut[r.below(cut.len())];
            (s[..c].to_string(), "mut-truncate")
        }
        6 => {
            // hostile character at a token boundary or inside a token
            let (a, b) = toks[r.below(toks.len())];
            let c = *r.pick(&HOSTILE);
            let inner: Vec<usize> = s[a..b].char_indices().map(|x| a + x.0).collect();
            let pos = if r.chance(0.5) { a } else { inner[r.below(inner.len())] };
            (format!("{}{}{}", &s[..pos], c, &s[pos..]), "mut-hostile-char")
        }
        7 => {
            // replace a number by an extreme
            let nums: Vec<(usize, usize)> = toks.iter().copied().filter(|(a, _)| s[*a..].starts_with(|c: char| c.is_ascii_digit())).collect();
            if nums.is_empty() {
                return (s.to_string(), "mut-noop");
            }
            let (a, b) = nums[r.below(nums.len())];
            let x = *r.pick(&EXTREME_NUMS);
            (format!("{}{}{}", &s[..a], x, &s[b..]), "mut-number")
        }
        8 => {
            // replace a punctuation token by another punctuation
            let (a, b) = toks[r.below(toks.len())];
            let p = *r.pick(&["(", ")", "[", "]", "{", "}", ",", ".", ":", "-", "*", "..", "|", "$", "'", "\"", "`", "\\", "=", "<", ">", "/", "%", "^", "!", "?", "@", "#", ";", "&"]);
            (format!("{}{}{}", &s[..a], p, &s[b..]), "mut-punct")
        }
        _ => {
            // change case of a token (keywords are matched case-insensitively)
            let (a, b) = toks[r.below(toks.len())];
            let t = &s[a..b];
            let t2 = if r.chance(0.5) { t.to_lowercase() } else { t.to_uppercase() };
            (format!("{}{}{}", &s[..a], t2, &s[b..]), "mut-case")
        }
    }
}

pub const EXTREME_NUMS: [&str; 24] = [
    "0", "-0", "1", "-1", "9223372036854775807", "-9223372036854775808", "9223372036854775808", "18446744073709551615", "18446744073709551616",
    "4294967295", "4294967296", "4000000000", "2147483648", "99999999999999999999999999999999999999", "1e400", "1e-400", "1.7976931348623157e308", "0.0",
    "-0.0", "00000000000000000001", "1.", ".5", "0x7fffffffffffffff", "1e",
];

pub fn nests(lang: u8) -> Vec<Nest> {
    match lang {
        L_GQL | L_CYPHER => cy::nests(lang),
        L_GREMLIN => other::gremlin_nests(),
        L_GRAPHQL => other::graphql_nests(),
        _ => other::sparql_nests(),
    }
}

/// Fixed corpus, identical for every seed.
pub fn directed(lang: u8) -> Vec<Input> {
    let mut v = Vec::new();
    let st = stock(lang);
    // 1. every stock query on the small fixture; every third also on the empty one and the clique
    for (i, q) in st.iter().enumerate() {
        v.push(Input::new(lang, 1, "stock", *q));
        if i % 3 == 0 {
            v.push(Input::new(lang, 0, "stock", *q));
        }
        if i % 3 == 1 && !explosive_text(lang, q) {
            v.push(Input::new(lang, 2, "stock", *q));
        }
    }
    // 2. truncation at every byte (char boundary) of the shortest stock queries
    let mut short: Vec<&str> = st.iter().copied().filter(|q| q.len() <= 90).collect();
    short.sort_by_key(|q| (q.len(), *q));
    short.dedup();
    let step = (short.len() / 25).max(1);
    for q in short.iter().step_by(step).take(25) {
        for (c, _) in q.char_indices().skip(1) {
            v.push(Input::new(lang, 1, "truncate", &q[..c]));
        }
    }
    // 3. hostile characters at every token position (boundary and inside) of a few base queries
    for base in hostile_bases(lang) {
        let toks = nonspace_tokens(base);
        for (ti, (a, b)) in toks.iter().enumerate() {
            let inner = a + base[*a..*b].char_indices().nth(1).map_or(0, |x| x.0);
            for (ci, c) in HOSTILE.iter().enumerate() {
                // all characters at boundaries; inside tokens a rotating third (every char is used inside some token)
                v.push(Input::new(lang, 1, "hostile-char", format!("{}{}{}", &base[..*a], c, &base[*a..])));
                if inner > *a && (ci + ti) % 3 == 0 {
                    v.push(Input::new(lang, 1, "hostile-char", format!("{}{}{}", &base[..inner], c, &base[inner..])));
                }
            }
        }
        for c in HOSTILE {
            v.push(Input::new(lang, 1, "hostile-char", format!("{base}{c}")));
            v.push(Input::new(lang, 0, "hostile-char", c.to_string()));
        }
    }
    // 4. language specific directed families
    match lang {
        L_GQL | L_CYPHER => cy::directed(lang, &mut v),
        L_GREMLIN => other::gremlin_directed(&mut v),
        L_GRAPHQL => other::graphql_directed(&mut v),
        _ => other::sparql_directed(&mut v),
    }
    for i in v.iter_mut() {
        if i.fam != "explosive" && i.fam != "varlen-acyclic" && i.fam != "varlen-sparse-cycle" && explosive_text(lang, &i.text) {
            i.fx = 0;
            i.cons = "varlen-unbounded".into();
        }
    }
    // degenerate texts, every language
    for t in ["", " ", "\n", "\t", ";", ";;", "\"", "'", "`", "\\", "/*", "//", "--", "#", "(", ")", "{", "}", "[", "]", "$", "?", "@", "<", ">", "\u{feff}", "\0", "0", "-", ".", "..", ":", "::", "|", "null", "NULL", "true"] {
        v.push(Input::new(lang, 0, "degenerate", t));
        v.push(Input::new(lang, 1, "degenerate", t).par("p5"));
    }
    // every directed input gets its own fresh fixture: order-independent, reproducible alone
    for i in v.iter_mut() {
        if i.fx < 3 {
            i.fx += 3;
        }
    }
    v
}

/// Text that may enumerate an unbounded number of paths on the clique (kept out of the
/// ordinary families; the dedicated "explosive" family covers it with a few inputs).
pub fn explosive_text(lang: u8, q: &str) -> bool {
    match lang {
        L_GQL | L_CYPHER => {
            // variable length without a small upper bound
            let b = q.as_bytes();
            let mut i = 0;
            while let Some(p) = q[i..].find('*') {
                let at = i + p;
                let open = q[..at].rfind('[');
                let close = q[..at].rfind(']');
                if open.is_some() && (close.is_none() || close < open) {
                    let rest: String = q[at + 1..].chars().take_while(|c| *c != ']' && *c != '{').collect();
                    // bounded = an explicit upper bound, and every number in the quantifier ≤ 3
                    let nums: Vec<String> = rest.split(|c: char| !c.is_ascii_digit()).filter(|s| !s.is_empty()).map(String::from).collect();
                    let small = nums.iter().all(|n| n.parse::<u64>().is_ok_and(|u| u <= 3));
                    let has_upper = if rest.contains("..") { rest.rsplit("..").next().is_some_and(|u| u.trim().starts_with(|c: char| c.is_ascii_digit())) } else { !nums.is_empty() };
                    let bounded = small && has_upper && !rest.contains('$');
                    if !bounded {
                        return true;
                    }
                }
                i = at + 1;
                if i >= b.len() {
                    break;
                }
            }
            q.to_lowercase().contains("shortestpath")
        }
        L_SPARQL => {
            // a path quantifier: * or + directly after an IRI, a prefixed name or a group
            let cs: Vec<char> = q.chars().collect();
            (1..cs.len()).any(|i| (cs[i] == '*' || cs[i] == '+') && (cs[i - 1] == '>' || cs[i - 1] == ')' || cs[i - 1].is_alphanumeric()))
        }
        _ => false,
    }
}

fn hostile_bases(lang: u8) -> Vec<&'static str> {
    match lang {
        L_GQL => vec!["MATCH (n:Person {name: 'Al'})-[r:KNOWS*1..2]->(m) WHERE n.age >= 30 AND m.name <> \"x\" RETURN n.name AS nm, count(m) ORDER BY nm DESC SKIP 1 LIMIT 2", "INSERT (a:Person {name: 'Ann', age: 1})-[:KNOWS {w: 1.5}]->(b:`Per son` {k: [1, 2]})"],
        L_CYPHER => vec!["MATCH (n:Person {name: 'Al'})-[r:KNOWS*1..2]->(m) WHERE n.age >= 30 AND m.name =~ \"x.*\" RETURN n.name AS nm, count(m), n.tags[0] ORDER BY nm DESC SKIP 1 LIMIT 2", "CREATE (a:Person {name: 'Ann', age: 1})-[:KNOWS {w: 1.5}]->(b:`Per son` {k: [1, 2]}) // c\n/* d */"],
        L_GREMLIN => vec!["g.V().hasLabel('Person').has('age', P.gt(30)).out(\"KNOWS\").as('a').values('name').order().by('name', desc).limit(5)", "g.addV('Person').property('name', 'Ann').property(\"age\", 1.5)"],
        L_GRAPHQL => vec!["query Q($v: Int = 3, $s: [String!]) { person(where: {age_gt: 30, name: \"Al\"}, first: 2) @include(if: true) { nm: name ... on Person { age } ...F } } fragment F on Person { id }", "mutation { createPerson(name: \"Ann\", age: 1.5e1, tags: [\"a\", null, true, E]) { name } } # c", "{ person(name: \"\"\"block string\"\"\", k: \"str ing\") { name } } # com ment"],
        _ => vec!["PREFIX foaf: <http://xmlns.com/foaf/0.1/> SELECT DISTINCT ?s (COUNT(?o) AS ?c) WHERE { ?s foaf:name ?n ; foaf:knows+ ?o . OPTIONAL { ?s foaf:age ?a } FILTER(?a >= 30 && REGEX(?n, \"^A\", 'i') || ?n = \"x\"@en || ?a = \"1\"^^<http://www.w3.org/2001/XMLSchema#integer>) } GROUP BY ?s ORDER BY DESC(?c) LIMIT 5 OFFSET 1 # c", "INSERT DATA { <http://example.org/a> <http://example.org/p> 'v' , 1.5e0 , _:b , true }"],
    }
}

/// Seeded random batch: valid generated queries, mutations of stock and generated queries,
/// hostile characters, random parameter maps.
pub fn random_batch(lang: u8, seed: u64, batch: u64, n: usize) -> Vec<Input> {
    let st = stock(lang);
    let mut v = Vec::with_capacity(n);
    let name = format!("c12-{}", super::LANGS[lang as usize]);
    for i in 0..n {
        let case = batch * 1_000_000 + i as u64;
        let mut r = Rng::new(seed, &name, case);
        let fx = *r.pick(&[1u8, 1, 1, 1, 0, 2]);
        let valid = |r: &mut Rng| -> String {
            if r.chance(0.7) {
                match lang {
                    L_GQL | L_CYPHER => cy::gen_query(r, lang),
                    L_GREMLIN => other::gen_gremlin(r),
                    L_GRAPHQL => other::gen_graphql(r),
                    _ => other::gen_sparql(r),
                }
            } else {
                (*r.pick(st)).to_string()
            }
        };
        let mut inp = match r.below(10) {
            0..=3 => Input::new(lang, fx, "generated", valid(&mut r)),
            4..=7 => {
                let q = valid(&mut r);
                let (m, kind) = mutate(&mut r, lang, &q);
                let mut m = m;
                let mut kind = kind;
                // sometimes stack a second and third mutation
                while r.chance(0.3) {
                    let (m2, _) = mutate(&mut r, lang, &m);
                    m = m2;
                    kind = "mut-multi";
                }
                Input::new(lang, fx, kind, m)
            }
            8 => {
                // random parameter value
                let q = match lang {
                    L_GQL | L_CYPHER => cy::gen_param_query(&mut r, lang),
                    L_GREMLIN => other::gen_gremlin(&mut r),
                    L_GRAPHQL => other::gen_graphql_vars(&mut r),
                    _ => other::gen_sparql(&mut r),
                };
                let p = if r.chance(0.5) { format!("r{case}") } else { format!("p{}", r.below(200)) };
                Input::new(lang, fx, "params-random", q).par(p)
            }
            _ => {
                // soup of the language's own tokens
                let k = 1 + r.below(14);
                let mut s = String::new();
                for _ in 0..k {
                    let q = *r.pick(st);
                    let t = nonspace_tokens(q);
                    if t.is_empty() {
                        continue;
                    }
                    let (a, b) = t[r.below(t.len())];
                    s.push_str(&q[a..b]);
                    if r.chance(0.8) {
                        s.push(' ');
                    }
                }
                Input::new(lang, fx, "token-soup", s)
            }
        };
        // known hang (unbounded variable-length expansion over a cyclic graph, finding C12-F…):
        // outside the dedicated "explosive" family such texts run against the empty fixture,
        // where they still exercise lexer/parser/binder/planner but have nothing to enumerate
        if explosive_text(lang, &inp.text) {
            inp.fx = 3;
            inp.cons = "varlen-unbounded".into();
        }
        if inp.text.len() > 2000 {
            let mut c = 2000;
            while !inp.text.is_char_boundary(c) {
                c -= 1;
            }
            inp.text.truncate(c);
        }
        v.push(inp);
    }
    v
}
