//! C07 — snapshot export/import, save and in-memory copy preserve the whole graph.
//! Copy comparator over graphs reached by mutation histories (incl. committed transactions,
//! deletions, sparse ids, every value type) for all four copy routes, plus hostile bytes
//! offered to import_snapshot in an isolated child process.

use crate::c05::{self, diff_kind, dump};
use crate::model::Model;
use crate::report::{Report, Tier};
use crate::rng::{Rng, hash_str};
use crate::util::{catch, scratch_dir};
use crate::vals;
use grafeo_common::types::{EdgeId, NodeId, Value};
use grafeo_engine::GrafeoDB;
use serde_json::json;
use std::collections::BTreeSet;
use std::io::Write;

fn build_source(r: &mut Rng, hist: &mut Vec<String>) -> GrafeoDB {
    let db = GrafeoDB::new_in_memory();
    let mut m = Model::default();
    let mut pushed = Vec::new();
    let mut kinds = BTreeSet::new();
    let n = 3 + r.below(40);
    for _ in 0..n {
        if r.chance(0.15) {
            // a committed (or rolled back) transaction through a session
            let mut s = db.session();
            let _ = s.begin_tx();
            let uid = r.below(100_000);
            let _ = s.execute(&format!("INSERT (:T {{tuid: {uid}, s: 'x'}})"));
            if r.chance(0.5) {
                let ids: Vec<u64> = m.nodes.keys().copied().collect();
                if ids.len() >= 2 {
                    let _ = s.create_edge(NodeId::new(*r.pick(&ids)), NodeId::new(*r.pick(&ids)), "TX");
                }
            }
            if r.chance(0.8) {
                let _ = s.commit();
                hist.push(format!("tx: INSERT (:T {{tuid:{uid}}}) commit"));
            } else {
                let _ = s.rollback();
                hist.push(format!("tx: INSERT (:T {{tuid:{uid}}}) rollback"));
            }
            m = dump(&db);
        } else if r.chance(0.1) {
            // exotic values
            let ids: Vec<u64> = m.nodes.keys().copied().collect();
            if let Some(id) = ids.first() {
                let v = r.pick(&vals::pool()).clone();
                db.set_node_property(NodeId::new(*id), "exotic", v.clone());
                hist.push(format!("set exotic {}", vals::show(&v)));
                m = dump(&db);
            }
        } else {
            c05::mutate_opt(&db, &mut m, &mut pushed, r, hist, &mut kinds, true);
        }
    }
    // sparse ids: delete a few nodes in the middle (with their edges)
    let ids: Vec<u64> = m.nodes.keys().copied().collect();
    for id in ids.iter().filter(|_| r.chance(0.15)) {
        for (_, e) in m.out_edges(*id).into_iter().chain(m.in_edges(*id)) {
            db.delete_edge(EdgeId::new(e));
        }
        db.delete_node(NodeId::new(*id));
        m = dump(&db);
        hist.push(format!("delete node {id} with its edges"));
    }
    db
}

const QUERIES: &[&str] = &[
    "MATCH (n) RETURN n.k",
    "MATCH (n:A) RETURN n.k, n.w",
    "MATCH (a)-[r]->(b) RETURN a.k, r.w, b.k",
    "MATCH (a)-[r:R]->(b) RETURN a.k, b.k",
    "MATCH (n:A) RETURN count(n)",
    "MATCH (n:T) RETURN n.tuid, n.s",
];

fn answers(db: &GrafeoDB) -> Vec<String> {
    let s = db.session();
    QUERIES
        .iter()
        .map(|q| match catch(|| s.execute(q)) {
            Ok(Ok(r)) => {
                let mut rows: Vec<String> = r.iter().map(|row| row.iter().map(vals::key).collect::<Vec<_>>().join(",")).collect();
                rows.sort();
                rows.join(";")
            }
            Ok(Err(e)) => format!("ERR:{}", e.to_string().lines().next().unwrap_or("")),
            Err(p) => format!("PANIC:{}", p.site),
        })
        .collect()
}

fn check_copy(rep: &mut Report, route: &str, src: &Model, src_answers: &[String], copy: &GrafeoDB, hist: &[String]) {
    rep.count(&format!("copies.{route}"), 1);
    let c = dump(copy);
    if let Some((k, d)) = diff_kind(&c, src) {
        rep.deviation(&format!("copy:{route}.{k}"), json!({"detail": d, "history": hist}));
        return;
    }
    let a = answers(copy);
    for (i, (x, y)) in a.iter().zip(src_answers).enumerate() {
        if x != y {
            rep.deviation(&format!("copy:{route}.query_answer_differs|q{i}"), json!({"query": QUERIES[i], "source": y, "copy": x, "history": hist}));
        }
    }
    // identifiers handed out in the copy do not collide
    let n = copy.create_node(&["New"]).as_u64();
    if src.nodes.contains_key(&n) {
        rep.deviation(&format!("copy:{route}.new_node_id_collides"), json!({"id": n, "history": hist}));
    }
    let ids: Vec<u64> = src.nodes.keys().copied().collect();
    if ids.len() >= 2 {
        let e = copy.create_edge(NodeId::new(ids[0]), NodeId::new(ids[1]), "New").as_u64();
        if src.edges.contains_key(&e) {
            rep.deviation(&format!("copy:{route}.new_edge_id_collides"), json!({"id": e, "history": hist}));
        }
    }
}

fn copies(rep: &mut Report, seed: u64, case: u64) -> Option<Vec<u8>> {
    let mut r = Rng::new(seed, "C07", case);
    let mut hist = Vec::new();
    let db = build_source(&mut r, &mut hist);
    let src = dump(&db);
    let src_answers = answers(&db);
    rep.eval();
    let mut kinds: BTreeSet<&str> = BTreeSet::new();
    for n in src.nodes.values() {
        for v in n.props.values() {
            kinds.insert(vals::class(v));
        }
    }
    if src.nodes.len() >= 2 && !src.edges.is_empty() && kinds.len() >= 2 {
        rep.nontrivial(hash_str(&src.canon()));
    }
    if case < 2 {
        rep.sample(json!({"case": case, "nodes": src.nodes.len(), "edges": src.edges.len(), "value_classes": kinds, "history_head": hist.iter().take(10).collect::<Vec<_>>()}));
    }
    // export / import
    let mut snap_out = None;
    match catch(|| db.export_snapshot()) {
        Ok(Ok(snap)) => {
            match catch(|| db.export_snapshot()) {
                Ok(Ok(s2)) if s2 == snap => {}
                _ => rep.deviation("copy:export.nondeterministic", json!({"history": hist})),
            }
            match catch(|| GrafeoDB::import_snapshot(&snap)) {
                Ok(Ok(copy)) => check_copy(rep, "snapshot", &src, &src_answers, &copy, &hist),
                Ok(Err(e)) => rep.deviation("copy:snapshot.import_error", json!({"err": e.to_string(), "history": hist})),
                Err(p) => rep.deviation(&format!("copy:snapshot.import_panic@{}", p.site), json!({"history": hist})),
            }
            snap_out = Some(snap);
        }
        Ok(Err(e)) => rep.deviation("copy:export.error", json!({"err": e.to_string(), "history": hist})),
        Err(p) => rep.deviation(&format!("copy:export.panic@{}", p.site), json!({"history": hist})),
    }
    // to_memory
    match catch(|| db.to_memory()) {
        Ok(Ok(copy)) => check_copy(rep, "to_memory", &src, &src_answers, &copy, &hist),
        Ok(Err(e)) => rep.deviation("copy:to_memory.error", json!({"err": e.to_string()})),
        Err(p) => rep.deviation(&format!("copy:to_memory.panic@{}", p.site), json!({"history": hist})),
    }
    // save -> open, save -> open_in_memory
    let dir = scratch_dir("c07");
    let p = dir.join("saved");
    match catch(|| db.save(&p)) {
        Ok(Ok(())) => {
            match catch(|| GrafeoDB::open(&p)) {
                Ok(Ok(copy)) => {
                    check_copy(rep, "save_open", &src, &src_answers, &copy, &hist);
                    let _ = copy.close();
                }
                Ok(Err(e)) => rep.deviation("copy:save_open.open_error", json!({"err": e.to_string()})),
                Err(pn) => rep.deviation(&format!("copy:save_open.panic@{}", pn.site), json!({"history": hist})),
            }
            let p2 = dir.join("saved2");
            if catch(|| db.save(&p2)).is_ok() {
                match catch(|| GrafeoDB::open_in_memory(&p2)) {
                    Ok(Ok(copy)) => check_copy(rep, "open_in_memory", &src, &src_answers, &copy, &hist),
                    Ok(Err(e)) => rep.deviation("copy:open_in_memory.error", json!({"err": e.to_string()})),
                    Err(pn) => rep.deviation(&format!("copy:open_in_memory.panic@{}", pn.site), json!({"history": hist})),
                }
            }
        }
        Ok(Err(e)) => rep.deviation("copy:save.error", json!({"err": e.to_string()})),
        Err(pn) => rep.deviation(&format!("copy:save.panic@{}", pn.site), json!({"history": hist})),
    }
    let _ = std::fs::remove_dir_all(&dir);
    // the source is left unchanged
    if let Some((k, d)) = diff_kind(&dump(&db), &src) {
        rep.deviation(&format!("copy:source_changed.{k}"), json!({"detail": d, "history": hist}));
    }
    snap_out
}

// ---------------------------------------------------------------- hostile bytes (child process)

#[derive(serde::Serialize, serde::Deserialize)]
struct SnapMirror {
    version: u8,
    nodes: Vec<(NodeId, Vec<String>, Vec<(String, Value)>)>,
    edges: Vec<(EdgeId, NodeId, NodeId, String, Vec<(String, Value)>)>,
}

/// Independent reading of the published format: Some(clean?) if the bytes decode as a version-1
/// snapshot; `clean` = unique ids and every edge endpoint exists.
fn decode_snapshot(b: &[u8]) -> Option<(SnapMirror, bool)> {
    // same wire format, but with an allocation limit so hostile lengths cannot hurt the harness
    let r: Result<(SnapMirror, usize), _> = bincode::serde::decode_from_slice(b, bincode::config::standard().with_limit::<4_000_000>());
    let (s, _used) = r.ok()?;
    if s.version != 1 {
        return None;
    }
    let ids: BTreeSet<u64> = s.nodes.iter().map(|n| n.0.as_u64()).collect();
    let eids: BTreeSet<u64> = s.edges.iter().map(|e| e.0.as_u64()).collect();
    let clean = ids.len() == s.nodes.len()
        && eids.len() == s.edges.len()
        && s.edges.iter().all(|e| ids.contains(&e.1.as_u64()) && ids.contains(&e.2.as_u64()))
        && s.nodes.iter().all(|n| n.1.iter().collect::<BTreeSet<_>>().len() == n.1.len() && n.2.iter().map(|p| &p.0).collect::<BTreeSet<_>>().len() == n.2.len())
        && s.edges.iter().all(|e| e.4.iter().map(|p| &p.0).collect::<BTreeSet<_>>().len() == e.4.len());
    Some((s, clean))
}

fn mirror_to_model(s: &SnapMirror) -> Model {
    let mut m = Model::default();
    for (id, labels, props) in &s.nodes {
        let l: Vec<&str> = labels.iter().map(|x| x.as_str()).collect();
        let p: Vec<(&str, Value)> = props.iter().map(|(k, v)| (k.as_str(), v.clone())).collect();
        m.add_node(id.as_u64(), &l, &p);
    }
    for (id, src, dst, ty, props) in &s.edges {
        let p: Vec<(&str, Value)> = props.iter().map(|(k, v)| (k.as_str(), v.clone())).collect();
        m.add_edge(id.as_u64(), src.as_u64(), dst.as_u64(), ty, &p);
    }
    m
}

/// Child mode: read length-prefixed inputs from the batch file, import each, print one line
/// per input: "<i> ok <canon-hash>" / "<i> err" / "<i> panic <site>".
pub fn child_main(batch: &str) -> ! {
    unsafe {
        let lim = libc::rlimit { rlim_cur: 4 << 30, rlim_max: 4 << 30 };
        libc::setrlimit(libc::RLIMIT_AS, &lim);
    }
    let data = std::fs::read(batch).expect("batch");
    let out = std::io::stdout();
    let mut pos = 0usize;
    let mut i = 0usize;
    let start: usize = std::env::var("VH_C07_START").ok().and_then(|s| s.parse().ok()).unwrap_or(0);
    while pos + 4 <= data.len() {
        let len = u32::from_le_bytes(data[pos..pos + 4].try_into().unwrap()) as usize;
        let input = &data[pos + 4..pos + 4 + len];
        pos += 4 + len;
        if i >= start {
            {
                let mut o = out.lock();
                let _ = writeln!(o, "{i} begin");
                let _ = o.flush();
            }
            let line = match catch(|| GrafeoDB::import_snapshot(input)) {
                Ok(Ok(db)) => format!("{i} ok {:016x}", hash_str(&dump(&db).canon())),
                Ok(Err(_)) => format!("{i} err"),
                Err(p) => format!("{i} panic {}", p.site),
            };
            let mut o = out.lock();
            let _ = writeln!(o, "{line}");
            let _ = o.flush();
        }
        i += 1;
    }
    std::process::exit(0)
}

fn hostile(rep: &mut Report, seed: u64, snaps: &[Vec<u8>], tier: Tier) {
    let mut r = Rng::new(seed, "C07.hostile", 0);
    let mut inputs: Vec<(Vec<u8>, &'static str)> = Vec::new();
    for s in snaps {
        if s.len() > 400 {
            continue;
        }
        for cut in 0..s.len() {
            inputs.push((s[..cut].to_vec(), "truncation"));
        }
        let flips = tier.pick(s.len().min(200) * 2, s.len() * 8);
        for f in 0..flips {
            let bit = if tier == Tier::Thorough { f } else { r.below(s.len() * 8) };
            let mut b = s.clone();
            b[bit / 8] ^= 1 << (bit % 8);
            inputs.push((b, "bit_flip"));
        }
        // inflated length fields: replace a byte by the varint markers for u32/u64 lengths
        for pos in 0..s.len().min(60) {
            for marker in [251u8, 252, 253, 254, 255] {
                let mut b = s.clone();
                b[pos] = marker;
                inputs.push((b, "inflated_length"));
            }
        }
    }
    for _ in 0..tier.pick(300, 5000) {
        let n = r.below(64);
        inputs.push(((0..n).map(|_| r.next_u64() as u8).collect(), "random_bytes"));
    }
    if inputs.is_empty() {
        rep.inconclusive("no small snapshot available for the hostile-bytes corpus");
        return;
    }
    let dir = scratch_dir("c07h");
    let batch = dir.join("batch.bin");
    let mut f = std::fs::File::create(&batch).unwrap();
    for (b, _) in &inputs {
        f.write_all(&(b.len() as u32).to_le_bytes()).unwrap();
        f.write_all(b).unwrap();
    }
    drop(f);
    // run the child; if it dies, the input after the last "begin" is the culprit
    let exe = std::env::current_exe().unwrap();
    let mut results: Vec<Option<String>> = vec![None; inputs.len()];
    let mut start = 0usize;
    let mut deaths = 0;
    while start < inputs.len() && deaths < tier.pick(60, 600) {
        let out = std::process::Command::new(&exe)
            .env("VH_C07_CHILD", batch.to_str().unwrap())
            .env("VH_C07_START", start.to_string())
            .arg("C07")
            .output()
            .expect("spawn child");
        let text = String::from_utf8_lossy(&out.stdout);
        let mut last_begin = None;
        for line in text.lines() {
            let mut it = line.splitn(2, ' ');
            let Some(i) = it.next().and_then(|x| x.parse::<usize>().ok()) else { continue };
            let rest = it.next().unwrap_or("");
            if rest == "begin" {
                last_begin = Some(i);
            } else if i < results.len() {
                results[i] = Some(rest.to_string());
            }
        }
        if out.status.success() {
            break;
        }
        deaths += 1;
        match last_begin {
            Some(i) if results[i].is_none() => {
                results[i] = Some(format!("died {:?}", out.status));
                start = i + 1;
            }
            _ => break,
        }
    }
    let _ = std::fs::remove_dir_all(&dir);
    for ((b, kind), res) in inputs.iter().zip(results) {
        rep.eval();
        rep.count(&format!("hostile.{kind}"), 1);
        let Some(res) = res else {
            rep.count("hostile.not_judged", 1);
            continue;
        };
        let decoded = decode_snapshot(b);
        rep.nontrivial(hash_str(&format!("{b:?}")));
        let head: Vec<u8> = b.iter().take(40).copied().collect();
        if res.starts_with("panic") {
            rep.deviation(&format!("import:panic@{}", res.split(' ').nth(1).unwrap_or("")), json!({"corpus": kind, "len": b.len(), "bytes": b}));
        } else if res.starts_with("died") {
            rep.deviation("import:process_died", json!({"corpus": kind, "status": res, "len": b.len(), "bytes": b}));
        } else if res == "err" {
            if let Some((s, true)) = &decoded {
                let _ = s;
                rep.deviation(&format!("import:valid_snapshot_rejected|{kind}"), json!({"len": b.len(), "bytes_head": head}));
            } else {
                rep.count("hostile.rejected", 1);
            }
        } else if let Some(h) = res.strip_prefix("ok ") {
            match &decoded {
                None => rep.deviation(&format!("import:invalid_bytes_accepted|{kind}"), json!({"len": b.len(), "bytes": b})),
                Some((s, clean)) => {
                    rep.count("hostile.accepted_valid", 1);
                    if *clean && format!("{:016x}", hash_str(&mirror_to_model(s).canon())) != h {
                        rep.deviation(&format!("import:content_differs_from_bytes|{kind}"), json!({"len": b.len(), "bytes": b}));
                    }
                }
            }
        }
    }
}

pub fn run(tier: Tier, seed: u64) -> ! {
    if let Ok(batch) = std::env::var("VH_C07_CHILD") {
        child_main(&batch);
    }
    let mut rep = Report::new("C07", tier, seed, "exploration");
    rep.rule = "sources reached by histories (direct-API mutations with every value type and nested values, committed and rolled-back session transactions, deletions leaving sparse ids, the curated exotic value pool) copied through export/import, to_memory, save+open, save+open_in_memory: full dump equality (ids, labels, types, endpoints, bit-exact values), equal answers to a query battery, source unchanged, export deterministic, fresh ids in the copy collision-free. Hostile bytes (every truncation, bit flips, inflated varint lengths, random bytes of small valid snapshots) are imported in a child process under RLIMIT_AS=4GiB; an independent decoder of the published format decides validity. non-trivial = source with >= 2 nodes, >= 1 edge and >= 2 value classes (distinct by canonical dump) resp. each distinct hostile input".into();
    let mut small_snaps = Vec::new();
    // two tiny directed sources for the hostile corpus
    for k in 0..2 {
        let db = GrafeoDB::new_in_memory();
        let a = db.create_node_with_props(&["A"], [("k", Value::Int64(7))]);
        let b = db.create_node(&["B", "C"]);
        if k == 1 {
            db.set_node_property(b, "s", vals::s("é"));
            db.set_node_property(b, "l", vals::list(vec![Value::Float64(1.5), Value::Null]));
        }
        db.create_edge_with_props(a, b, "R", [("w", Value::Bool(true))]);
        small_snaps.push(db.export_snapshot().unwrap());
    }
    for case in 0..tier.pick(100, 1500) {
        if let Some(s) = copies(&mut rep, seed, case) {
            if s.len() < 200 && small_snaps.len() < 5 {
                small_snaps.push(s);
            }
        }
    }
    hostile(&mut rep, seed, &small_snaps, tier);
    rep.assumptions = vec![
        "validity of hostile bytes is decided by a mirror of the published snapshot layout decoded with bincode's standard configuration; for inputs that decode but are not 'clean' (duplicate ids, dangling endpoints, duplicate keys) either outcome is accepted as long as the process survives".into(),
        "the memory bound is an address-space limit of 4 GiB on the child".into(),
    ];
    rep.finish()
}
