//! C03 — first committer wins: concurrent writers of one entity cannot both commit; a writer
//! that committed before T began never causes T's refusal; gc never changes a decision.
//!
//! Commit-decision checker. Histories of begin / write(entity) / commit / abort / gc are run on
//! the real `TransactionManager`, recorded at the API boundary with one logical clock, and every
//! commit decision is compared with the one computed from the recorded history alone. Every
//! history is run with gc stripped / gc at the generated points / gc after every operation (and,
//! in the exhaustive families, with a single gc at every position). Session level: the same
//! shapes as SET / DELETE statements through real sessions. Threaded: plain stress, judged from
//! the epochs the API returns.

#[path = "c03_hist.rs"]
mod hist;

use crate::report::{Report, Tier};
use crate::rng::Rng;
use grafeo_common::types::Value;
use grafeo_engine::GrafeoDB;
use grafeo_engine::transaction::{EntityId, TransactionManager};
use hist::{Acc, Lvl, Op, Opts, RandCfg};
use serde_json::json;
use std::sync::Arc;

const P: &str = "c03";

// ---------------------------------------------------------------------------------------------
// Manager level
// ---------------------------------------------------------------------------------------------

/// Directed cells: relation x gc placement x entity kind x level pair. Always run.
fn manager_matrix(acc: &mut Acc) {
    use Op::*;
    let levels = [Lvl::Rc, Lvl::Si, Lvl::Ser];
    for emap in 0..hist::N_EMAPS {
        for la in levels {
            for lb in levels {
                let cells: Vec<(&str, Vec<Op>)> = vec![
                    ("overlap.begin_begin", vec![Begin(0, la), Begin(1, lb), Write(0, 0), Write(1, 0), Commit(0), Commit(1)]),
                    ("overlap.second_begins_before_first_commits", vec![Begin(0, la), Write(0, 0), Begin(1, lb), Commit(0), Write(1, 0), Commit(1)]),
                    ("overlap.later_starter_commits_first", vec![Begin(0, la), Write(0, 0), Begin(1, lb), Write(1, 0), Commit(1), Commit(0)]),
                    ("overlap.gc_between_commits", vec![Begin(0, la), Begin(1, lb), Write(0, 0), Write(1, 0), Commit(0), Gc, Commit(1)]),
                    ("non_overlap.no_gc", vec![Begin(0, la), Write(0, 0), Commit(0), Begin(1, lb), Write(1, 0), Commit(1)]),
                    ("non_overlap.gc_before_begin", vec![Begin(0, la), Write(0, 0), Commit(0), Gc, Begin(1, lb), Write(1, 0), Commit(1)]),
                    ("non_overlap.gc_after_begin", vec![Begin(0, la), Write(0, 0), Commit(0), Begin(1, lb), Gc, Write(1, 0), Commit(1)]),
                    (
                        "non_overlap.gc_before_begin_reader_pins",
                        vec![Begin(2, Lvl::Si), Begin(0, la), Write(0, 0), Commit(0), Gc, Begin(1, lb), Write(1, 0), Commit(1), Commit(2)],
                    ),
                    (
                        "non_overlap.reader_pins_then_ends",
                        vec![Begin(2, Lvl::Si), Begin(0, la), Write(0, 0), Commit(0), Commit(2), Gc, Begin(1, lb), Write(1, 0), Commit(1)],
                    ),
                    ("non_overlap.first_aborted", vec![Begin(0, la), Write(0, 0), Abort(0), Begin(1, lb), Write(1, 0), Commit(1)]),
                    ("overlap.first_aborted", vec![Begin(0, la), Begin(1, lb), Write(0, 0), Write(1, 0), Abort(0), Commit(1)]),
                    ("disjoint_entities", vec![Begin(0, la), Begin(1, lb), Write(0, 0), Write(1, 1), Commit(0), Commit(1)]),
                    (
                        "chain_of_three_non_overlapping",
                        vec![Begin(0, la), Write(0, 0), Commit(0), Begin(1, lb), Write(1, 0), Commit(1), Gc, Begin(2, la), Write(2, 0), Commit(2)],
                    ),
                ];
                for (name, h) in cells {
                    for abort_on_refusal in [true, false] {
                        let before = acc.devs.values().map(|v| v.0).sum::<u64>();
                        hist::check_history(P, &h, Opts { emap, abort_on_refusal, poke_finished: true }, 2, false, "matrix", true, acc);
                        let after = acc.devs.values().map(|v| v.0).sum::<u64>();
                        acc.count(&format!("cell[{name}].{}", if after == before { "pass_in_all_gc_modes" } else { "deviates_in_some_gc_mode" }), 1);
                    }
                }
            }
        }
    }
}

/// Exhaustive: every interleaving of every choice of write-only programs for `ntx` transactions
/// over `nent` entities. `keep_one_in`: 1 = all; k = a pseudo-random 1/k of the interleavings.
fn manager_exhaustive(seed: u64, ntx: usize, nent: u8, sweep: bool, keep_one_in: u64, family: &'static str) -> Acc {
    let per_tx: Vec<Vec<Vec<Op>>> = (0..ntx).map(|t| hist::write_programs(t as u8, Lvl::Si, nent)).collect();
    let np = per_tx[0].len();
    let combos = np.pow(ntx as u32);
    hist::parallel(hist::n_workers(), |w, nw, acc| {
        for combo in (0..combos).filter(|c| c % nw == w) {
            let mut c = combo;
            let mut progs = Vec::new();
            for t in 0..ntx {
                progs.push(per_tx[t][c % np].clone());
                c /= np;
            }
            let mut idx: u64 = 0;
            let mut buf: Vec<Op> = Vec::new();
            hist::interleavings(&progs, &mut |h| {
                idx += 1;
                let key = (combo as u64) << 32 | idx;
                let mut r = Rng::new(seed, "C03.exh", key);
                if keep_one_in > 1 && r.below(keep_one_in as usize) != 0 {
                    return;
                }
                // levels, entity map and refusal handling vary deterministically with the case
                buf.clear();
                buf.extend(h.iter().map(|o| match *o {
                    Op::Begin(t, _) => Op::Begin(t, Lvl::from_index(r.below(3))),
                    x => x,
                }));
                let o = Opts { emap: r.below(hist::N_EMAPS), abort_on_refusal: r.below(4) != 0, poke_finished: false };
                hist::check_history(P, &buf, o, nent, false, family, sweep, acc);
            });
        }
    })
}

fn manager_random(seed: u64, n: u64) -> Acc {
    hist::parallel(hist::n_workers(), |w, nw, acc| {
        for case in (0..n).filter(|c| (*c as usize) % nw == w) {
            let mut r = Rng::new(seed, "C03.rand", case);
            let cfg = RandCfg {
                ntx: 2 + r.below(5),
                nent: 1 + r.below(4) as u8,
                reads: false,
                p_reader: [0.0, 0.2, 0.4][r.below(3)],
                p_gc: [0.0, 0.1, 0.3][r.below(3)],
                level: if r.chance(0.3) { Some(Lvl::from_index(r.below(3))) } else { None },
            };
            let mut h = hist::random_history(&mut r, cfg);
            if r.chance(0.3) {
                hist::mutate(&mut r, &mut h, cfg.ntx, cfg.nent);
                h.retain(|o| !matches!(o, Op::Read(..)));
            }
            let o = Opts { emap: r.below(hist::N_EMAPS), abort_on_refusal: r.chance(0.6), poke_finished: r.chance(0.3) };
            hist::check_history(P, &h, o, cfg.nent, false, "random", false, acc);
        }
    })
}

// ---------------------------------------------------------------------------------------------
// Begin gap (hook site txmgr.begin.between_epoch_and_insert; the harness is always built with
// --cfg grafeo_verif): a commit and/or gc scheduled
// between "begin read the epoch" and "begin registered the transaction"
// ---------------------------------------------------------------------------------------------

mod gap {
    use std::cell::RefCell;
    thread_local! {
        pub static ACTION: RefCell<Option<Box<dyn FnOnce()>>> = const { RefCell::new(None) };
    }
    pub fn handler(site: &'static str, _a: u64, _b: u64) -> u64 {
        if site == "txmgr.begin.between_epoch_and_insert" {
            if let Some(f) = ACTION.with(|a| a.borrow_mut().take()) {
                f();
            }
        }
        0
    }
}

/// Deterministic schedules through the begin gap. U writes e and is active; T's begin is
/// entered; inside the gap the listed steps run (on the same thread — the site holds no lock);
/// then T writes e and commits. U's commit call lies inside T's begin call; which of the two
/// took effect first is read off the epochs the API reports (start_epoch(T) vs the epoch
/// returned by U's commit): if U committed after T's snapshot epoch, T must be refused.
fn begin_gap_matrix(rep: &mut Report) {
    use std::cell::RefCell;
    use std::rc::Rc;
    grafeo_common::verif::install(gap::handler);
    let plans: [(&str, &[&str]); 6] = [
        ("commit", &["commit"]),
        ("commit+gc", &["commit", "gc"]),
        ("gc+commit", &["gc", "commit"]),
        ("commit+gc|older_reader_pins", &["commit", "gc"]),
        ("gc", &["gc"]),
        ("abort+gc", &["abort", "gc"]),
    ];
    for (name, steps) in plans {
        for emap in 0..hist::N_EMAPS {
            for lu in [Lvl::Rc, Lvl::Si, Lvl::Ser] {
                for lt in [Lvl::Rc, Lvl::Si, Lvl::Ser] {
                    let mgr = Rc::new(TransactionManager::new());
                    let e = hist::entity(emap, 0);
                    let reader = name.ends_with("older_reader_pins").then(|| mgr.begin());
                    let u = mgr.begin_with_isolation(lu.iso());
                    let _ = mgr.record_write(u, e);
                    let log: Rc<RefCell<Vec<String>>> = Rc::new(RefCell::new(Vec::new()));
                    let u_commit: Rc<RefCell<Option<hist::Dec>>> = Rc::new(RefCell::new(None));
                    {
                        let (mgr, log, u_commit) = (Rc::clone(&mgr), Rc::clone(&log), Rc::clone(&u_commit));
                        let steps: Vec<&'static str> = steps.to_vec();
                        gap::ACTION.with(|a| {
                            *a.borrow_mut() = Some(Box::new(move || {
                                for s in steps {
                                    match s {
                                        "commit" => {
                                            let d = hist::Dec::from_result(&mgr.commit(u));
                                            log.borrow_mut().push(format!("  [in T.begin gap] U.commit -> {d:?}"));
                                            *u_commit.borrow_mut() = Some(d);
                                        }
                                        "abort" => {
                                            let _ = mgr.abort(u);
                                            log.borrow_mut().push("  [in T.begin gap] U.abort".into());
                                        }
                                        _ => {
                                            let n = mgr.gc();
                                            log.borrow_mut().push(format!("  [in T.begin gap] gc -> removed {n}"));
                                        }
                                    }
                                }
                            }));
                        });
                    }
                    log.borrow_mut().push("T.begin called".into());
                    let t = mgr.begin_with_isolation(lt.iso());
                    let leftover = gap::ACTION.with(|a| a.borrow_mut().take().is_some());
                    let t_start = mgr.start_epoch(t).map(|x| x.as_u64());
                    log.borrow_mut().push(format!("T.begin returned; start_epoch(T) = {t_start:?}"));
                    let _ = mgr.record_write(t, e);
                    let td = hist::Dec::from_result(&mgr.commit(t));
                    log.borrow_mut().push(format!("T.commit -> {td:?}"));
                    rep.eval();
                    rep.count(&format!("begin_gap.cell[{name}]"), 1);
                    if leftover {
                        rep.count("begin_gap.hook_site_not_reached", 1);
                        continue;
                    }
                    // U's commit call lies inside T's begin call; concurrent calls may take effect in
                    // either order, so the order is taken from the epochs the API reports: U
                    // overlaps T iff commit_epoch(U) > start_epoch(T)
                    let u_epoch = match *u_commit.borrow() {
                        Some(hist::Dec::Ok(e)) => Some(e),
                        _ => None,
                    };
                    let u_committed = matches!((u_epoch, t_start), (Some(ue), Some(ts)) if ue > ts);
                    let detail = json!({"steps_in_gap": name, "entity": hist::entity_name(emap, 0), "levels": [lu.name(), lt.name()], "reader": reader.is_some(), "log": *log.borrow()});
                    if u_committed {
                        rep.nontrivial(crate::rng::hash_str(&format!("gap{name}{emap}{}{}", lu.name(), lt.name())));
                        if td.accepted() {
                            rep.deviation(&format!("{P}:manager|begin_gap|{name}|both_commit"), detail);
                        } else if td != hist::Dec::WriteConflict {
                            rep.deviation(&format!("{P}:manager|begin_gap|{name}|wrong_error"), detail);
                        }
                    } else if !td.accepted() {
                        let why = if u_epoch.is_some() { "refused_by_writer_committed_before_start_epoch" } else { "refused_without_committed_writer" };
                        rep.deviation(&format!("{P}:manager|begin_gap|{name}|{why}"), detail);
                    }
                }
            }
        }
    }
    // the handler stays installed (it answers 0 to every other site, like no handler at all)
}

// ---------------------------------------------------------------------------------------------
// Session level
// ---------------------------------------------------------------------------------------------

#[derive(Clone, Copy, PartialEq, Eq, Debug, PartialOrd, Ord)]
enum Kind {
    SetNode,
    DelNode,
    SetEdge,
    DelEdge,
}
impl Kind {
    fn name(self) -> &'static str {
        match self {
            Kind::SetNode => "set_node_prop",
            Kind::DelNode => "delete_node",
            Kind::SetEdge => "set_edge_prop",
            Kind::DelEdge => "delete_edge",
        }
    }
    fn on_node(self) -> bool {
        matches!(self, Kind::SetNode | Kind::DelNode)
    }
}

#[derive(Clone, Copy, Debug)]
enum SOp {
    Begin(u8, Lvl),
    /// session, kind, target index
    Write(u8, Kind, u8),
    Commit(u8),
    Rollback(u8),
}

fn render_sops(h: &[SOp]) -> String {
    h.iter()
        .map(|o| match o {
            SOp::Begin(s, l) => format!("S{s}.begin_tx({})", l.name()),
            SOp::Write(s, k, t) => format!("S{s}.{}({}{t})", k.name(), if k.on_node() { "node uid=" } else { "edge eid=" }),
            SOp::Commit(s) => format!("S{s}.commit"),
            SOp::Rollback(s) => format!("S{s}.rollback"),
        })
        .collect::<Vec<_>>()
        .join("; ")
}

struct SWrite {
    kind: Kind,
    target: u8,
    value: i64,
}
#[derive(Default)]
struct STx {
    begun: Option<u32>,
    writes: Vec<SWrite>,
    /// (clock, accepted, error text)
    commit: Option<(u32, bool, String)>,
    rolled_back: bool,
}

const N_TARGETS: u8 = 3;

fn pair_kinds(a: Kind, b: Kind) -> String {
    if a == b {
        a.name().to_string()
    } else {
        let (x, y) = if a.name() < b.name() { (a, b) } else { (b, a) };
        format!("{}+{}", x.name(), y.name())
    }
}

/// Run one session-level history on a fresh in-memory database and judge it.
fn session_history(h: &[SOp], family: &str, rep: &mut Report) {
    let db = GrafeoDB::new_in_memory();
    // nodes uid 0..N_TARGETS with v = 0; edge k from uid 100+k to uid 200+k with w = 0.
    // Endpoints and edges are created first so that edge id k never equals the id of a target node
    // (SET/DELETE on an edge variable act on the NODE with the edge's numeric id, see assumptions).
    let mut node_ids = Vec::new();
    let mut edge_ids = Vec::new();
    for k in 0..N_TARGETS {
        // sacrificial nodes occupying the numeric ids the edges will get
        db.create_node_with_props(&["Dummy"], [("uid", Value::Int64(900 + i64::from(k)))]);
    }
    for k in 0..N_TARGETS {
        let a = db.create_node_with_props(&["N"], [("uid", Value::Int64(100 + i64::from(k)))]);
        let b = db.create_node_with_props(&["N"], [("uid", Value::Int64(200 + i64::from(k)))]);
        edge_ids.push(db.create_edge_with_props(a, b, "R", [("eid", Value::Int64(i64::from(k))), ("w", Value::Int64(0))]));
    }
    for k in 0..N_TARGETS {
        node_ids.push(db.create_node_with_props(&["N"], [("uid", Value::Int64(i64::from(k))), ("v", Value::Int64(0))]));
    }
    let ns = 1 + h
        .iter()
        .map(|o| match o {
            SOp::Begin(s, _) | SOp::Write(s, ..) | SOp::Commit(s) | SOp::Rollback(s) => *s,
        })
        .max()
        .unwrap_or(0) as usize;
    let mut sessions: Vec<_> = (0..ns).map(|_| db.session()).collect();
    let mut txs: Vec<STx> = (0..ns).map(|_| STx::default()).collect();
    let mut clock = 0u32;
    let mut next_value = 1000i64;
    let mut log: Vec<String> = Vec::new();
    let mut harness_trouble = false;
    for op in h {
        clock += 1;
        match *op {
            SOp::Begin(s, l) => {
                let r = if l == Lvl::Si { sessions[s as usize].begin_tx() } else { sessions[s as usize].begin_tx_with_isolation(l.iso()) };
                match r {
                    Ok(()) => txs[s as usize].begun = Some(clock),
                    Err(e) => {
                        log.push(format!("S{s}.begin_tx -> Err({e})"));
                        harness_trouble = true;
                    }
                }
            }
            SOp::Write(s, kind, t) => {
                if txs[s as usize].begun.is_none() || txs[s as usize].commit.is_some() || txs[s as usize].rolled_back {
                    continue;
                }
                let sess = &sessions[s as usize];
                let (probe, stmt, value) = match kind {
                    Kind::SetNode => {
                        next_value += 1;
                        (format!("MATCH (n:N {{uid: {t}}}) RETURN n.uid"), format!("MATCH (n:N {{uid: {t}}}) SET n.v = {next_value}"), next_value)
                    }
                    Kind::DelNode => (format!("MATCH (n:N {{uid: {t}}}) RETURN n.uid"), format!("MATCH (n:N {{uid: {t}}}) DELETE n"), -1),
                    Kind::SetEdge => {
                        next_value += 1;
                        (
                            format!("MATCH (a:N {{uid: {}}})-[e:R]->(b) RETURN e.eid", 100 + i64::from(t)),
                            format!("MATCH (a:N {{uid: {}}})-[e:R]->(b) SET e.w = {next_value}", 100 + i64::from(t)),
                            next_value,
                        )
                    }
                    Kind::DelEdge => (
                        format!("MATCH (a:N {{uid: {}}})-[e:R]->(b) RETURN e.eid", 100 + i64::from(t)),
                        format!("MATCH (a:N {{uid: {}}})-[e:R]->(b) DELETE e", 100 + i64::from(t)),
                        -1,
                    ),
                };
                // the statement counts as a modification only if the session could see the entity
                // before, the statement succeeded, and its effect on that very entity is observable
                let visible = sess.execute(&probe).map(|r| r.row_count()).unwrap_or(0) == 1;
                let res = sess.execute(&stmt);
                let effect = match kind {
                    Kind::SetNode => db.get_node(node_ids[t as usize]).and_then(|n| n.get_property("v").cloned()) == Some(Value::Int64(value)),
                    Kind::SetEdge => db.get_edge(edge_ids[t as usize]).and_then(|e| e.get_property("w").cloned()) == Some(Value::Int64(value)),
                    Kind::DelNode => sess.execute(&probe).map(|r| r.row_count()).unwrap_or(1) == 0,
                    Kind::DelEdge => sess.execute(&probe).map(|r| r.row_count()).unwrap_or(1) == 0 && !sess.edge_exists(edge_ids[t as usize]),
                };
                let performed = res.is_ok() && visible && effect;
                log.push(format!("S{s}: {stmt} -> {}", match &res {
                    Ok(r) => format!("ok rows={} visible_before={visible} effect_observed={effect}", r.row_count()),
                    Err(e) => format!("Err({e})"),
                }));
                rep.count(&format!("session.stmt.{}.{}", kind.name(), if performed { "performed" } else { "no_effect" }), 1);
                if performed {
                    txs[s as usize].writes.push(SWrite { kind, target: t, value });
                }
            }
            SOp::Commit(s) => {
                if txs[s as usize].begun.is_none() || txs[s as usize].commit.is_some() || txs[s as usize].rolled_back {
                    continue;
                }
                let r = sessions[s as usize].commit();
                log.push(format!("S{s}.commit -> {}", match &r {
                    Ok(()) => "ok".to_string(),
                    Err(e) => format!("Err({e})"),
                }));
                txs[s as usize].commit = Some((clock, r.is_ok(), r.err().map(|e| e.to_string()).unwrap_or_default()));
            }
            SOp::Rollback(s) => {
                if txs[s as usize].begun.is_none() || txs[s as usize].commit.is_some() || txs[s as usize].rolled_back {
                    continue;
                }
                let r = sessions[s as usize].rollback();
                log.push(format!("S{s}.rollback -> {}", if r.is_ok() { "ok" } else { "err" }));
                txs[s as usize].rolled_back = true;
            }
        }
    }
    rep.eval();
    rep.count(&format!("session.histories.{family}"), 1);
    if harness_trouble {
        rep.count("session.histories.begin_failed", 1);
        return;
    }
    // final state
    let reader = db.session();
    let final_node = |t: u8| -> Option<Option<i64>> {
        // None = node gone; Some(v)
        let r = reader.execute(&format!("MATCH (n:N {{uid: {t}}}) RETURN n.v")).ok()?;
        let rows: Vec<_> = r.iter().collect();
        if rows.is_empty() {
            return Some(None);
        }
        match rows[0].first() {
            Some(Value::Int64(x)) => Some(Some(*x)),
            _ => Some(Some(i64::MIN)),
        }
    };
    let final_edge = |t: u8| -> Option<Option<i64>> {
        match db.get_edge(edge_ids[t as usize]) {
            None => Some(None),
            Some(e) => match e.get_property("w") {
                Some(Value::Int64(x)) => Some(Some(*x)),
                _ => Some(Some(i64::MIN)),
            },
        }
    };
    let detail = |why: String| json!({"family": family, "history": render_sops(h), "log": log, "why": why});
    let mut nontrivial = false;
    // pairs
    for a in 0..ns {
        for b in 0..ns {
            if a == b {
                continue;
            }
            let (Some((ca, oka, _)), Some((cb, okb, errb))) = (&txs[a].commit, &txs[b].commit) else { continue };
            if ca > cb {
                continue;
            }
            // a asked to commit first
            let bb = txs[b].begun.unwrap_or(0);
            let overlap = bb < *ca;
            for wa in &txs[a].writes {
                for wb in &txs[b].writes {
                    if wa.kind.on_node() != wb.kind.on_node() || wa.target != wb.target {
                        continue;
                    }
                    let kinds = pair_kinds(wa.kind, wb.kind);
                    if overlap {
                        nontrivial = true;
                        rep.count(&format!("session.pair.overlap.{kinds}"), 1);
                        if *oka && *okb {
                            let fin = if wa.kind.on_node() { final_node(wa.target) } else { final_edge(wa.target) };
                            rep.deviation(
                                &format!("{P}:session|overlap|{kinds}|both_commit"),
                                detail(format!(
                                    "S{a} and S{b} overlap, both modified {} {} (values {} and {}), both commits were accepted; final value {:?}",
                                    if wa.kind.on_node() { "node uid" } else { "edge eid" },
                                    wa.target,
                                    wa.value,
                                    wb.value,
                                    fin
                                )),
                            );
                        }
                    } else {
                        rep.count(&format!("session.pair.non_overlap.{kinds}"), 1);
                        if *oka && !*okb {
                            rep.deviation(&format!("{P}:session|non_overlap|{kinds}|refused"), detail(format!("S{b} refused ({errb}) although S{a} committed before it began")));
                        }
                    }
                }
            }
        }
    }
    // a refusal must name a committed overlapping writer of a common entity
    for b in 0..ns {
        let Some((cb, false, errb)) = &txs[b].commit else { continue };
        let bb = txs[b].begun.unwrap_or(0);
        let justified = (0..ns).any(|a| {
            a != b
                && matches!(&txs[a].commit, Some((ca, true, _)) if ca < cb && *ca > bb)
                && txs[a].writes.iter().any(|wa| txs[b].writes.iter().any(|wb| wa.kind.on_node() == wb.kind.on_node() && wa.target == wb.target))
        });
        if !justified {
            let any_prior = (0..ns).any(|a| {
                a != b && txs[a].writes.iter().any(|wa| txs[b].writes.iter().any(|wb| wa.kind.on_node() == wb.kind.on_node() && wa.target == wb.target))
            });
            if !any_prior {
                rep.deviation(&format!("{P}:session|no_writer|refused"), detail(format!("S{b} refused: {errb}")));
            }
        }
    }
    // final values: only where rollback (C02's business) is not involved on that target
    for on_node in [true, false] {
        for t in 0..N_TARGETS {
            let mut writers: Vec<(u32, usize, &SWrite)> = Vec::new(); // (commit clock, session, last write)
            let mut spoiled = false;
            for s in 0..ns {
                let ws: Vec<&SWrite> = txs[s].writes.iter().filter(|w| w.kind.on_node() == on_node && w.target == t).collect();
                if ws.is_empty() {
                    continue;
                }
                match &txs[s].commit {
                    Some((c, true, _)) => writers.push((*c, s, ws[ws.len() - 1])),
                    Some((_, false, _)) => {} // refused: its writes must not survive
                    None => spoiled = true,   // rolled back or left open: C01/C02 territory
                }
            }
            // targets somebody deleted are left to C01/C14 (which read path shows a deleted entity
            // is their subject); the final value is judged on SET-only targets
            let any_delete = txs.iter().any(|x| x.writes.iter().any(|w| w.kind.on_node() == on_node && w.target == t && matches!(w.kind, Kind::DelNode | Kind::DelEdge)));
            if spoiled || writers.is_empty() || any_delete {
                rep.count("session.final_value_skipped", u64::from(!writers.is_empty()));
                continue;
            }
            writers.sort_by_key(|w| w.0);
            // pairwise overlap among committed writers = lost update, reported above
            let serial = writers.windows(2).all(|p| txs[p[1].1].begun.unwrap_or(0) > p[0].0);
            if !serial {
                continue;
            }
            let last = writers[writers.len() - 1].2;
            let fin = if on_node { final_node(t) } else { final_edge(t) };
            let expected: Option<i64> = if matches!(last.kind, Kind::DelNode | Kind::DelEdge) { None } else { Some(last.value) };
            rep.count("session.final_value_checks", 1);
            if fin != Some(expected) {
                let relation = if writers.len() == 1 { "single_writer" } else { "non_overlap" };
                rep.deviation(
                    &format!("{P}:session|{relation}|{}|final_value_wrong", last.kind.name()),
                    detail(format!("{} {t}: final {:?}, expected {:?} (value of the last committed writer S{})", if on_node { "node" } else { "edge" }, fin, expected, writers[writers.len() - 1].1)),
                );
            }
        }
    }
    if nontrivial {
        rep.nontrivial(crate::rng::hash_str(&format!("S{}", render_sops(h))));
        rep.sample(json!({"level": "session", "history": render_sops(h), "log": log}));
    }
}

fn session_matrix(rep: &mut Report) {
    use SOp::*;
    let levels = [Lvl::Rc, Lvl::Si, Lvl::Ser];
    let kind_pairs = [
        (Kind::SetNode, Kind::SetNode),
        (Kind::SetNode, Kind::DelNode),
        (Kind::DelNode, Kind::SetNode),
        (Kind::DelNode, Kind::DelNode),
        (Kind::SetEdge, Kind::SetEdge),
        (Kind::SetEdge, Kind::DelEdge),
        (Kind::DelEdge, Kind::SetEdge),
        (Kind::DelEdge, Kind::DelEdge),
    ];
    for (ka, kb) in kind_pairs {
        for la in levels {
            for lb in levels {
                let hs: Vec<Vec<SOp>> = vec![
                    vec![Begin(0, la), Begin(1, lb), Write(0, ka, 1), Write(1, kb, 1), Commit(0), Commit(1)],
                    vec![Begin(0, la), Write(0, ka, 1), Begin(1, lb), Write(1, kb, 1), Commit(1), Commit(0)],
                    vec![Begin(0, la), Write(0, ka, 1), Begin(1, lb), Commit(0), Write(1, kb, 1), Commit(1)],
                    // non-overlapping: both must commit, the later one's value stays
                    vec![Begin(0, la), Write(0, ka, 1), Commit(0), Begin(1, lb), Write(1, kb, 1), Commit(1)],
                    // different targets: no conflict
                    vec![Begin(0, la), Begin(1, lb), Write(0, ka, 0), Write(1, kb, 2), Commit(0), Commit(1)],
                ];
                for h in hs {
                    session_history(&h, "matrix", rep);
                }
            }
        }
    }
}

fn session_random(rep: &mut Report, seed: u64, n: u64) {
    let kinds = [Kind::SetNode, Kind::SetNode, Kind::SetEdge, Kind::DelNode, Kind::DelEdge];
    for case in 0..n {
        let mut r = Rng::new(seed, "C03.session", case);
        let ns = 2 + r.below(3);
        let ntargets = 1 + r.below(N_TARGETS as usize) as u8;
        // 0 new, 1 active, 2 done
        let mut st = vec![0u8; ns];
        let mut h = Vec::new();
        let mut guard = 0;
        while st.iter().any(|s| *s != 2) && guard < 60 {
            guard += 1;
            let live: Vec<usize> = (0..ns).filter(|i| st[*i] != 2).collect();
            let i = *r.pick(&live);
            let s = i as u8;
            match st[i] {
                0 => {
                    h.push(SOp::Begin(s, Lvl::from_index(r.below(3))));
                    st[i] = 1;
                }
                _ => {
                    if r.chance(0.55) {
                        h.push(SOp::Write(s, *r.pick(&kinds), r.below(ntargets as usize) as u8));
                    } else if r.chance(0.85) {
                        h.push(SOp::Commit(s));
                        st[i] = 2;
                    } else {
                        h.push(SOp::Rollback(s));
                        st[i] = 2;
                    }
                }
            }
        }
        session_history(&h, "random", rep);
    }
}

// ---------------------------------------------------------------------------------------------
// Threaded variant (plain stress; judged from the epochs the API returns)
// ---------------------------------------------------------------------------------------------

struct TRec {
    thread: usize,
    seq: usize,
    start_epoch: u64,
    w: u8,
    /// Ok(commit epoch) | Err(kind)
    result: Result<u64, &'static str>,
    /// current_epoch() read right after the commit call returned
    epoch_after: u64,
}

/// One repetition: `nthreads` threads, each running `per_thread` transactions on a pool of
/// `nent` entities; with `gc_thread`, another thread calls gc() in a loop meanwhile; with
/// `gc_by_workers` the workers themselves call gc() after some of their commits.
#[allow(clippy::too_many_arguments)]
fn threaded_rep(seed: u64, case: u64, nthreads: usize, per_thread: usize, nent: u8, gc_thread: bool, gc_by_workers: bool, rep: &mut Report) {
    let mgr = Arc::new(TransactionManager::new());
    let stop = Arc::new(std::sync::atomic::AtomicBool::new(false));
    let barrier = Arc::new(std::sync::Barrier::new(nthreads + usize::from(gc_thread)));
    let mut handles = Vec::new();
    for th in 0..nthreads {
        let mgr = Arc::clone(&mgr);
        let barrier = Arc::clone(&barrier);
        handles.push(std::thread::spawn(move || {
            let mut r = Rng::new(seed, "C03.threaded", case * 16 + th as u64);
            let mut out = Vec::new();
            barrier.wait();
            for seq in 0..per_thread {
                let lvl = Lvl::from_index(r.below(3));
                let tx = mgr.begin_with_isolation(lvl.iso());
                let start_epoch = mgr.start_epoch(tx).map_or(u64::MAX, |e| e.as_u64());
                let mut w = 0u8;
                let nw = 1 + r.below(2);
                for _ in 0..nw {
                    let e = r.below(nent as usize) as u8;
                    let ent: EntityId = hist::entity(0, e);
                    if mgr.record_write(tx, ent).is_ok() {
                        w |= 1 << e;
                    }
                }
                if r.chance(0.3) {
                    std::thread::yield_now();
                }
                let res = mgr.commit(tx);
                let epoch_after = mgr.current_epoch().as_u64();
                let d = hist::Dec::from_result(&res);
                let result = match d {
                    hist::Dec::Ok(e) => Ok(e),
                    hist::Dec::WriteConflict => Err("write_conflict"),
                    hist::Dec::SerFail => Err("serialization_failure"),
                    hist::Dec::Other(_) => Err("other_error"),
                };
                if result.is_err() {
                    let _ = mgr.abort(tx);
                }
                if gc_by_workers && r.chance(0.5) {
                    mgr.gc();
                }
                out.push(TRec { thread: th, seq, start_epoch, w, result, epoch_after });
            }
            out
        }));
    }
    let gc_handle = if gc_thread {
        let mgr = Arc::clone(&mgr);
        let stop = Arc::clone(&stop);
        let barrier = Arc::clone(&barrier);
        Some(std::thread::spawn(move || {
            barrier.wait();
            let mut n = 0u64;
            while !stop.load(std::sync::atomic::Ordering::Relaxed) {
                mgr.gc();
                n += 1;
                if n % 4 == 0 {
                    std::thread::yield_now();
                }
            }
            n
        }))
    } else {
        None
    };
    let mut recs: Vec<TRec> = Vec::new();
    for h in handles {
        recs.extend(h.join().expect("worker thread"));
    }
    stop.store(true, std::sync::atomic::Ordering::Relaxed);
    if let Some(g) = gc_handle {
        rep.count("threaded.gc_calls", g.join().unwrap_or(0));
    }
    rep.eval();
    let gcc = if gc_thread || gc_by_workers { "gc_concurrent" } else { "no_gc" };
    rep.count(&format!("threaded.repetitions.{}", if gc_thread { "gc_thread" } else if gc_by_workers { "gc_by_workers" } else { "no_gc" }), 1);
    let show = |t: &TRec| format!("thread{}#{} start_epoch={} writes={:#b} -> {:?} (epoch after call {})", t.thread, t.seq, t.start_epoch, t.w, t.result, t.epoch_after);
    // (d) epochs unique; per thread increasing; commit epoch > start epoch
    let mut epochs: Vec<u64> = recs.iter().filter_map(|t| t.result.ok()).collect();
    let n_commits = epochs.len();
    epochs.sort_unstable();
    epochs.dedup();
    if epochs.len() != n_commits {
        rep.deviation(&format!("{P}:threaded|commit_epoch_not_unique"), json!({"commits": n_commits, "distinct_epochs": epochs.len()}));
    }
    for th in 0..nthreads {
        let mut last = 0u64;
        for t in recs.iter().filter(|t| t.thread == th) {
            if let Ok(e) = t.result {
                if e <= last || e <= t.start_epoch {
                    rep.deviation(&format!("{P}:threaded|commit_epoch_not_increasing"), json!({"tx": show(t), "previous_commit_epoch_of_thread": last}));
                }
                last = e;
            }
        }
    }
    let mut overlapping_pairs = 0u64;
    for (i, t) in recs.iter().enumerate() {
        rep.count(&format!("threaded.decision.{}", match t.result {
            Ok(_) => "ok",
            Err(k) => k,
        }), 1);
        match t.result {
            Ok(te) => {
                // (a) no committed U with U.commit in (T.start, T.commit) writing a common entity
                for (j, u) in recs.iter().enumerate() {
                    if i == j || u.w & t.w == 0 {
                        continue;
                    }
                    if let Ok(ue) = u.result {
                        if ue > t.start_epoch && ue < te {
                            rep.deviation(
                                &format!("{P}:threaded|overlap|{gcc}|both_commit"),
                                json!({"threads": nthreads, "entities": nent, "first_committer": show(u), "second_committer": show(t),
                                       "why": "first committed (epoch) after the second had begun (start epoch), common entity, both accepted"}),
                            );
                        }
                    }
                }
            }
            Err(kind) => {
                // (b) a refusal needs a committed U, U.commit > T.start, common entity, and U's
                // commit must have happened by the time T's commit call returned
                let cause = recs.iter().enumerate().any(|(j, u)| {
                    i != j && u.w & t.w != 0 && matches!(u.result, Ok(ue) if ue > t.start_epoch && ue <= t.epoch_after)
                });
                if cause {
                    overlapping_pairs += 1;
                }
                if kind != "write_conflict" {
                    rep.deviation(&format!("{P}:threaded|commit_error|{kind}"), json!({"tx": show(t)}));
                } else if !cause {
                    let earlier = recs.iter().enumerate().any(|(j, u)| i != j && u.w & t.w != 0 && matches!(u.result, Ok(ue) if ue <= t.start_epoch));
                    let rel = if earlier { "non_overlap" } else { "no_writer" };
                    rep.deviation(
                        &format!("{P}:threaded|{rel}|{gcc}|refused"),
                        json!({"threads": nthreads, "entities": nent, "refused": show(t),
                               "committed_writers_of_common_entities": recs.iter().filter(|u| u.w & t.w != 0 && u.result.is_ok()).map(&show).collect::<Vec<_>>()}),
                    );
                }
            }
        }
    }
    rep.count("threaded.justified_refusals", overlapping_pairs);
    if overlapping_pairs > 0 {
        rep.nontrivial(crate::rng::hash_str(&format!("T{seed}.{case}.{nthreads}.{nent}.{gcc}")));
    }
}

pub fn run(tier: Tier, seed: u64) -> ! {
    let mut rep = Report::new("C03", tier, seed, "exploration");
    rep.rule = "manager level: histories of begin(level)/record_write(entity)/commit/abort/gc on TransactionManager, each run with gc stripped, gc at the generated points and gc after every operation (exhaustive families: additionally a single gc at every position); expected decision of every commit computed from the recorded history and the observed fate of the earlier commits. Families: directed matrix; ALL interleavings of all write-only programs (every subset of the entities, ended by commit or abort) for <=3 tx x 2 entities (every run, quick and thorough), 4 tx x 1 entity (complete in thorough), 3 tx x 3 entities and 4 tx x 2 entities (pseudo-random 1/k of the interleavings); random 2-6 tx x 1-4 entities with long readers, retries after refusal, mixed levels. Session level: SET/DELETE statements on nodes and edges through real sessions (directed matrix + random). Begin gap: commit/abort/gc of the other writer scheduled inside begin() through the hook site (directed cells). Threaded: 2-4 threads x conflicting transactions (no gc / gc thread / gc by the workers), judged from start/commit epochs. non-trivial = history with >= 1 pair of overlapping writers of one entity that both asked to commit (distinct by structural hash)".into();

    let t0 = std::time::Instant::now();
    let lap = |what: &str| {
        if std::env::var("VH_TIMING").is_ok() {
            eprintln!("timing: {what} done at {:.1}s", t0.elapsed().as_secs_f64());
        }
    };
    // manager level
    let mut acc = Acc::default();
    manager_matrix(&mut acc);
    lap("matrix");
    acc.merge(manager_exhaustive(seed, 1, 2, true, 1, "exhaustive.1tx_2ent"));
    acc.merge(manager_exhaustive(seed, 2, 2, true, 1, "exhaustive.2tx_2ent"));
    acc.merge(manager_exhaustive(seed, 3, 1, true, 1, "exhaustive.3tx_1ent"));
    acc.merge(manager_exhaustive(seed, 3, 2, true, 1, "exhaustive.3tx_2ent"));
    lap("exhaustive <=3tx x 2ent");
    match tier {
        Tier::Quick => {
            acc.merge(manager_exhaustive(seed, 4, 1, false, 20, "exhaustive.4tx_1ent.sampled"));
            acc.merge(manager_exhaustive(seed, 3, 3, false, 400, "exhaustive.3tx_3ent.sampled"));
        }
        Tier::Thorough => {
            acc.merge(manager_exhaustive(seed, 4, 1, true, 1, "exhaustive.4tx_1ent"));
            acc.merge(manager_exhaustive(seed, 3, 3, false, 8, "exhaustive.3tx_3ent.sampled"));
            acc.merge(manager_exhaustive(seed, 4, 2, false, 80, "exhaustive.4tx_2ent.sampled"));
        }
    }
    acc.merge(manager_random(seed, tier.pick(1_200_000, 8_000_000)));
    lap("manager random + larger families");
    acc.into_report(&mut rep);
    lap("merge");

    begin_gap_matrix(&mut rep);

    // session level
    session_matrix(&mut rep);
    session_random(&mut rep, seed, tier.pick(1500, 20_000));

    lap("session");
    // threaded
    let reps = tier.pick(300, 9000);
    for case in 0..reps {
        let mut r = Rng::new(seed, "C03.threaded.cfg", case);
        let nthreads = 2 + r.below(3);
        let nent = 1 + r.below(3) as u8;
        let per_thread = 2 + r.below(6);
        threaded_rep(seed, case, nthreads, per_thread, nent, case % 3 == 1, case % 3 == 2, &mut rep);
    }

    lap("threaded");
    rep.assumptions = vec![
        "lifetimes are taken from the order of API calls (single-threaded histories) or from the start/commit epochs the API returns (threaded)".into(),
        "each commit is judged against the OBSERVED fate of earlier commits, so one wrong decision does not cascade into later expectations".into(),
        "a session statement counts as a modification only if the session saw the entity right before and the statement reports a processed row".into(),
        "edge cells are unreachable at session level today: SET e.p / DELETE e on an edge variable act on the NODE whose numeric id equals the edge's id (planner.rs plan_set_property always builds a node operator; no translator emits DeleteEdge), so edge statements are counted as no_effect (see counters session.stmt.*edge*)".into(),
        "session-level final values are checked only on targets no rolled-back or open transaction touched (rollback is C02's subject)".into(),
        "threaded variant is plain stress; the begin gap is additionally driven deterministically through the hook site txmgr.begin.between_epoch_and_insert (commit/gc executed inside T's begin call, on the same thread)".into(),
    ];
    rep.finish()
}
