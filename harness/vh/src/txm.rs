//! Shared machinery of C01 / C02: fixtures, write kinds, read paths (each evaluated on the
//! real engine AND on the reference model), scenarios, cell classification.
//!
//! A *cell* is (write kind, read path, scenario observation, epoch regime). The matrix is
//! deterministic and enumerated completely on every run. For each cell the read result is
//! compared with the reference model's answer in the state the reader is entitled to see
//! (S0 = without the write, S1 = with it). Outcome: `ok`, `wrong_snapshot` (exactly the other
//! state: the write leaked or was lost), or `neither#<hash>` (something else; the hash of the
//! observed answer makes any change of a known-wrong behaviour visible).

use crate::model::Model;
use crate::rng::hash_str;
use crate::util::catch;
use crate::vals;
use grafeo_common::types::{EdgeId, NodeId, Value};
use grafeo_engine::{GrafeoDB, Session};
use std::collections::{BTreeMap, BTreeSet};

pub const UID_EDGE_API: u64 = 9001;

#[derive(Clone, Copy, PartialEq, Eq, Debug, PartialOrd, Ord)]
pub enum Regime {
    /// database that never committed a transaction
    Fresh,
    /// one dummy transaction committed before the base data is created through a session
    AfterCommit,
}

impl Regime {
    pub fn name(self) -> &'static str {
        match self {
            Regime::Fresh => "fresh",
            Regime::AfterCommit => "after_commit",
        }
    }
}

pub struct Fixture {
    pub db: GrafeoDB,
    /// model keyed by uid (nodes) / edge uid (edges)
    pub s0: Model,
    pub triples0: BTreeSet<(String, String, String)>,
    pub node_id: BTreeMap<u64, NodeId>,
    pub edge_id: BTreeMap<u64, EdgeId>,
}

fn i(x: i64) -> Value {
    Value::Int64(x)
}

pub fn fixture(regime: Regime) -> Fixture {
    let db = GrafeoDB::new_in_memory();
    let mut s0 = Model::default();
    let mut node_id = BTreeMap::new();
    let mut edge_id = BTreeMap::new();
    if regime == Regime::AfterCommit {
        let mut s = db.session();
        s.begin_tx().unwrap();
        s.commit().unwrap();
        // a second, non-empty one
        s.begin_tx().unwrap();
        let _ = s.execute("INSERT (:Dummy {d: 1})");
        s.commit().unwrap();
    }
    let s = db.session();
    let mut mk = |uid: u64, labels: &[&str], props: Vec<(&str, Value)>| {
        let mut p = vec![("uid", i(uid as i64))];
        p.extend(props);
        let id = match regime {
            Regime::Fresh => db.create_node_with_props(labels, p.iter().map(|(k, v)| (*k, v.clone()))),
            Regime::AfterCommit => s.create_node_with_props(labels, p.iter().map(|(k, v)| (*k, v.clone()))),
        };
        s0.add_node(uid, labels, &p);
        node_id.insert(uid, id);
    };
    mk(1, &["P"], vec![("v", i(10)), ("iv", i(10))]);
    mk(2, &["P"], vec![("v", i(20)), ("iv", i(20))]);
    mk(3, &["P", "Q"], vec![("v", i(30)), ("iv", i(30))]);
    mk(4, &["P"], vec![]);
    if regime == Regime::AfterCommit {
        s0.add_node(0, &["Dummy"], &[("d", i(1))]);
    }
    for (uid, a, b) in [(12u64, 1u64, 2u64), (23, 2, 3)] {
        let q = format!("MATCH (a:P {{uid:{a}}}), (b:P {{uid:{b}}}) CREATE (a)-[:R {{uid: {uid}}}]->(b)");
        match regime {
            Regime::Fresh => {
                let id = db.create_edge_with_props(node_id[&a], node_id[&b], "R", [("uid", i(uid as i64))]);
                edge_id.insert(uid, id);
            }
            Regime::AfterCommit => {
                s.execute(&q).expect("fixture edge");
                // learn its id
                for (dst, eid) in s.get_neighbors_outgoing(node_id[&a]) {
                    if dst == node_id[&b] {
                        edge_id.insert(uid, eid);
                    }
                }
            }
        }
        s0.add_edge(uid, a, b, "R", &[("uid", i(uid as i64))]);
    }
    db.create_property_index("iv");
    let _ = s.execute_sparql("INSERT DATA { <http://s1> <http://p> <http://o1> }");
    let mut triples0 = BTreeSet::new();
    triples0.insert(("http://s1".to_string(), "http://p".to_string(), "http://o1".to_string()));
    drop(s);
    Fixture { db, s0, triples0, node_id, edge_id }
}

// ------------------------------------------------------------------ writes

#[derive(Clone, Copy, PartialEq, Eq, Debug, PartialOrd, Ord)]
pub enum W {
    InsertNodeGql,
    CreateNodeApi,
    DeleteNode,
    DetachDelete,
    CreateEdgeGql,
    CreateEdgeApi,
    DeleteEdge,
    SetNodeProp,
    RemoveNodeProp,
    SetEdgeProp,
    AddLabel,
    RemoveLabel,
    MergeCreate,
    SetIndexedProp,
    CypherCreate,
    SparqlInsert,
    SparqlDelete,
    /// syntactic variants of the creations (other planner branches): named variables, Cypher
    CreateEdgeNamed,
    CreateEdgeCypher,
    InsertNodeNamed,
    CreateEdgeReturn,
}

pub const WRITES: &[W] = &[
    W::InsertNodeGql, W::CreateNodeApi, W::DeleteNode, W::DetachDelete, W::CreateEdgeGql, W::CreateEdgeApi,
    W::DeleteEdge, W::SetNodeProp, W::RemoveNodeProp, W::SetEdgeProp, W::AddLabel, W::RemoveLabel, W::MergeCreate,
    W::SetIndexedProp, W::CypherCreate, W::SparqlInsert, W::SparqlDelete, W::CreateEdgeNamed, W::CreateEdgeCypher,
    W::InsertNodeNamed, W::CreateEdgeReturn,
];

impl W {
    pub fn name(self) -> &'static str {
        match self {
            W::InsertNodeGql => "insert_node_gql",
            W::CreateNodeApi => "create_node_api",
            W::DeleteNode => "delete_node",
            W::DetachDelete => "detach_delete",
            W::CreateEdgeGql => "create_edge_gql",
            W::CreateEdgeApi => "create_edge_api",
            W::DeleteEdge => "delete_edge",
            W::SetNodeProp => "set_node_prop",
            W::RemoveNodeProp => "remove_node_prop",
            W::SetEdgeProp => "set_edge_prop",
            W::AddLabel => "add_label",
            W::RemoveLabel => "remove_label",
            W::MergeCreate => "merge_create",
            W::SetIndexedProp => "set_indexed_prop",
            W::CypherCreate => "cypher_create",
            W::SparqlInsert => "sparql_insert",
            W::SparqlDelete => "sparql_delete",
            W::CreateEdgeNamed => "create_edge_named",
            W::CreateEdgeCypher => "create_edge_cypher",
            W::InsertNodeNamed => "insert_node_named",
            W::CreateEdgeReturn => "create_edge_return",
        }
    }
    /// perform the write through session `s`; returns Err(text) if the engine refused it
    pub fn apply(self, s: &Session, fx: &mut Fixture) -> Result<(), String> {
        let r = catch(|| -> Result<(), String> {
            let e = |r: grafeo_common::utils::error::Result<grafeo_engine::database::QueryResult>| r.map(|_| ()).map_err(|e| e.to_string());
            match self {
                W::InsertNodeGql => e(s.execute("INSERT (:P {uid: 100, v: 50, iv: 50})")),
                W::CreateNodeApi => {
                    let id = s.create_node_with_props(&["P"], [("uid", i(101)), ("v", i(51)), ("iv", i(51))]);
                    fx.node_id.insert(101, id);
                    Ok(())
                }
                W::DeleteNode => e(s.execute("MATCH (n:P {uid: 4}) DELETE n")),
                W::DetachDelete => e(s.execute("MATCH (n:P {uid: 2}) DETACH DELETE n")),
                W::CreateEdgeGql => e(s.execute("MATCH (a:P {uid:1}), (b:P {uid:3}) CREATE (a)-[:R {uid: 13}]->(b)")),
                W::CreateEdgeApi => {
                    let id = s.create_edge(fx.node_id[&3], fx.node_id[&1], "R");
                    fx.edge_id.insert(UID_EDGE_API, id);
                    Ok(())
                }
                W::DeleteEdge => e(s.execute("MATCH (:P {uid:1})-[r:R]->(:P {uid:2}) DELETE r")),
                W::SetNodeProp => e(s.execute("MATCH (n:P {uid:1}) SET n.v = 777")),
                W::RemoveNodeProp => e(s.execute("MATCH (n:P {uid:2}) REMOVE n.v")),
                W::SetEdgeProp => e(s.execute("MATCH (:P {uid:1})-[r:R]->(:P {uid:2}) SET r.w = 5")),
                W::AddLabel => e(s.execute("MATCH (n:P {uid:1}) SET n:Q")),
                W::RemoveLabel => e(s.execute("MATCH (n:P {uid:3}) REMOVE n:Q")),
                W::MergeCreate => e(s.execute("MERGE (n:P {uid: 300})")),
                W::SetIndexedProp => e(s.execute("MATCH (n:P {uid:1}) SET n.iv = 777")),
                W::CypherCreate => e(s.execute_cypher("CREATE (:P {uid: 102, v: 52})")),
                W::SparqlInsert => e(s.execute_sparql("INSERT DATA { <http://s2> <http://p> <http://o2> }")),
                W::SparqlDelete => e(s.execute_sparql("DELETE DATA { <http://s1> <http://p> <http://o1> }")),
                W::CreateEdgeNamed => e(s.execute("MATCH (a:P {uid:1}), (b:P {uid:3}) CREATE (a)-[r:R {uid: 13}]->(b)")),
                W::CreateEdgeCypher => e(s.execute_cypher("MATCH (a:P {uid:1}), (b:P {uid:3}) CREATE (a)-[r:R {uid: 13}]->(b)")),
                W::InsertNodeNamed => e(s.execute("INSERT (x:P {uid: 100, v: 50, iv: 50})")),
                W::CreateEdgeReturn => e(s.execute("MATCH (a:P {uid:1}), (b:P {uid:3}) CREATE (a)-[r:R {uid: 13}]->(b) RETURN a.uid")),
            }
        });
        match r {
            Ok(x) => x,
            Err(p) => Err(format!("PANIC {}", p.site)),
        }
    }
    /// the same write on the reference model
    pub fn apply_model(self, m: &mut Model, t: &mut BTreeSet<(String, String, String)>) {
        match self {
            W::InsertNodeGql | W::InsertNodeNamed => m.add_node(100, &["P"], &[("uid", i(100)), ("v", i(50)), ("iv", i(50))]),
            W::CreateNodeApi => m.add_node(101, &["P"], &[("uid", i(101)), ("v", i(51)), ("iv", i(51))]),
            W::DeleteNode => {
                m.del_node(4, false);
            }
            W::DetachDelete => {
                m.del_node(2, true);
            }
            W::CreateEdgeGql | W::CreateEdgeNamed | W::CreateEdgeCypher | W::CreateEdgeReturn => m.add_edge(13, 1, 3, "R", &[("uid", i(13))]),
            W::CreateEdgeApi => m.add_edge(UID_EDGE_API, 3, 1, "R", &[]),
            W::DeleteEdge => {
                m.del_edge(12);
            }
            W::SetNodeProp => {
                m.nodes.get_mut(&1).unwrap().props.insert("v".into(), i(777));
            }
            W::RemoveNodeProp => {
                m.nodes.get_mut(&2).unwrap().props.remove("v");
            }
            W::SetEdgeProp => {
                m.edges.get_mut(&12).unwrap().props.insert("w".into(), i(5));
            }
            W::AddLabel => {
                m.nodes.get_mut(&1).unwrap().labels.insert("Q".into());
            }
            W::RemoveLabel => {
                m.nodes.get_mut(&3).unwrap().labels.remove("Q");
            }
            W::MergeCreate => m.add_node(300, &["P"], &[("uid", i(300))]),
            W::SetIndexedProp => {
                m.nodes.get_mut(&1).unwrap().props.insert("iv".into(), i(777));
            }
            W::CypherCreate => m.add_node(102, &["P"], &[("uid", i(102)), ("v", i(52))]),
            W::SparqlInsert => {
                t.insert(("http://s2".into(), "http://p".into(), "http://o2".into()));
            }
            W::SparqlDelete => {
                t.remove(&("http://s1".to_string(), "http://p".to_string(), "http://o1".to_string()));
            }
        }
    }
}

// ------------------------------------------------------------------ read paths

#[derive(Clone, Copy, PartialEq, Eq, Debug, PartialOrd, Ord)]
pub enum R {
    LabelScan,
    FullScan,
    LabelScanProps,
    Filter,
    LabelQ,
    ExpandUntyped,
    ExpandTyped,
    ExpandIn,
    TwoHop,
    VarLen,
    Count,
    EdgeProps,
    IndexEq,
    IndexEqOld,
    CypherLabel,
    GremlinLabel,
    GremlinOut,
    GraphqlLabel,
    Sparql,
    ApiGetNode,
    ApiGetProp,
    ApiGetEdge,
    ApiNeighbors,
    ApiBatch,
    DbCounts,
    DbIter,
}

pub const READS: &[R] = &[
    R::LabelScan, R::FullScan, R::LabelScanProps, R::Filter, R::LabelQ, R::ExpandUntyped, R::ExpandTyped, R::ExpandIn,
    R::TwoHop, R::VarLen, R::Count, R::EdgeProps, R::IndexEq, R::IndexEqOld, R::CypherLabel, R::GremlinLabel,
    R::GremlinOut, R::GraphqlLabel, R::Sparql, R::ApiGetNode, R::ApiGetProp, R::ApiGetEdge, R::ApiNeighbors,
    R::ApiBatch, R::DbCounts, R::DbIter,
];

fn v(x: &Value) -> String {
    vals::key(x)
}
fn opt(x: Option<&Value>) -> String {
    x.map_or_else(|| "N".to_string(), v)
}

fn rows_to_string(mut rows: Vec<String>) -> String {
    rows.sort();
    rows.join(";")
}

fn run_query(f: impl FnOnce() -> grafeo_common::utils::error::Result<grafeo_engine::database::QueryResult>) -> String {
    match catch(f) {
        Ok(Ok(r)) => rows_to_string(r.iter().map(|row| row.iter().map(v).collect::<Vec<_>>().join(",")).collect()),
        Ok(Err(e)) => format!("ERR:{}", e.to_string().lines().next().unwrap_or("")),
        Err(p) => format!("PANIC:{}", p.site),
    }
}

impl R {
    pub fn name(self) -> &'static str {
        match self {
            R::LabelScan => "label_scan",
            R::FullScan => "full_scan",
            R::LabelScanProps => "label_scan_props",
            R::Filter => "filter",
            R::LabelQ => "label_q_scan",
            R::ExpandUntyped => "expand_untyped",
            R::ExpandTyped => "expand_typed",
            R::ExpandIn => "expand_incoming",
            R::TwoHop => "two_hop",
            R::VarLen => "var_length",
            R::Count => "count",
            R::EdgeProps => "edge_props",
            R::IndexEq => "index_eq_new",
            R::IndexEqOld => "index_eq_old",
            R::CypherLabel => "cypher_label_scan",
            R::GremlinLabel => "gremlin_label_scan",
            R::GremlinOut => "gremlin_out",
            R::GraphqlLabel => "graphql_label",
            R::Sparql => "sparql_pattern",
            R::ApiGetNode => "api_get_node",
            R::ApiGetProp => "api_get_node_property",
            R::ApiGetEdge => "api_get_edge",
            R::ApiNeighbors => "api_neighbors_degree",
            R::ApiBatch => "api_batch_exists",
            R::DbCounts => "db_counts",
            R::DbIter => "db_iter_nodes",
        }
    }
    /// reads that are not made through the reader's session: they must show the committed state
    pub fn db_level(self) -> bool {
        matches!(self, R::DbCounts | R::DbIter)
    }

    pub fn run(self, s: &Session, fx: &Fixture) -> String {
        let uid_of_node: BTreeMap<NodeId, u64> = fx.node_id.iter().map(|(u, id)| (*id, *u)).collect();
        let uid_of_edge: BTreeMap<EdgeId, u64> = fx.edge_id.iter().map(|(u, id)| (*id, *u)).collect();
        let nu = |id: NodeId| uid_of_node.get(&id).map_or_else(|| "?".to_string(), |u| u.to_string());
        let eu = |id: EdgeId| uid_of_edge.get(&id).map_or_else(|| "?".to_string(), |u| u.to_string());
        match self {
            R::LabelScan => run_query(|| s.execute("MATCH (n:P) RETURN n.uid")),
            R::FullScan => run_query(|| s.execute("MATCH (n) RETURN n.uid")),
            R::LabelScanProps => run_query(|| s.execute("MATCH (n:P) RETURN n.uid, n.v")),
            R::Filter => run_query(|| s.execute("MATCH (n:P) WHERE n.v > 15 RETURN n.uid")),
            R::LabelQ => run_query(|| s.execute("MATCH (n:Q) RETURN n.uid")),
            R::ExpandUntyped => run_query(|| s.execute("MATCH (a:P)-[r]->(b) RETURN a.uid, b.uid")),
            R::ExpandTyped => run_query(|| s.execute("MATCH (a:P)-[r:R]->(b) RETURN a.uid, r.uid, b.uid")),
            R::ExpandIn => run_query(|| s.execute("MATCH (a:P)<-[r:R]-(b) RETURN a.uid, b.uid")),
            R::TwoHop => run_query(|| s.execute("MATCH (a:P)-[:R]->(m)-[:R]->(c) RETURN a.uid, m.uid, c.uid")),
            R::VarLen => run_query(|| s.execute("MATCH (a:P {uid:1})-[:R*1..3]->(b) RETURN b.uid")),
            R::Count => run_query(|| s.execute("MATCH (n:P) RETURN count(n)")),
            R::EdgeProps => run_query(|| s.execute("MATCH (a)-[r:R]->(b) RETURN r.uid, r.w")),
            R::IndexEq => run_query(|| s.execute("MATCH (n:P) WHERE n.iv = 777 RETURN n.uid")),
            R::IndexEqOld => run_query(|| s.execute("MATCH (n:P) WHERE n.iv = 10 RETURN n.uid")),
            R::CypherLabel => run_query(|| s.execute_cypher("MATCH (n:P) RETURN n.uid")),
            R::GremlinLabel => run_query(|| s.execute_gremlin("g.V().hasLabel('P').values('uid')")),
            R::GremlinOut => run_query(|| s.execute_gremlin("g.V().hasLabel('P').out('R').values('uid')")),
            R::GraphqlLabel => run_query(|| s.execute_graphql("{ P { uid v } }")),
            R::Sparql => run_query(|| s.execute_sparql("SELECT ?s ?p ?o WHERE { ?s ?p ?o }")),
            R::ApiGetNode => {
                let mut out = Vec::new();
                for (uid, id) in &fx.node_id {
                    let r = catch(|| s.get_node(*id));
                    out.push(match r {
                        Ok(Some(n)) => {
                            let mut labels: Vec<String> = n.labels.iter().map(|l| l.to_string()).collect();
                            labels.sort();
                            let props: Vec<String> = n.properties.iter().filter(|(_, x)| !matches!(x, Value::Null)).map(|(k, x)| format!("{}={}", k.as_str(), v(x))).collect();
                            format!("{uid}:{labels:?}:{props:?}")
                        }
                        Ok(None) => format!("{uid}:none"),
                        Err(p) => format!("{uid}:PANIC:{}", p.site),
                    });
                }
                out.join(";")
            }
            R::ApiGetProp => {
                let mut out = Vec::new();
                for (uid, id) in &fx.node_id {
                    out.push(format!("{uid}:v={}:iv={}", opt(s.get_node_property(*id, "v").as_ref()), opt(s.get_node_property(*id, "iv").as_ref())));
                }
                out.join(";")
            }
            R::ApiGetEdge => {
                let mut out = Vec::new();
                for (uid, id) in &fx.edge_id {
                    out.push(match s.get_edge(*id) {
                        Some(e) => {
                            let props: Vec<String> = e.properties.iter().filter(|(_, x)| !matches!(x, Value::Null)).map(|(k, x)| format!("{}={}", k.as_str(), v(x))).collect();
                            format!("{uid}:{}->{}:{}:{props:?}:exists={}", nu(e.src), nu(e.dst), e.edge_type, s.edge_exists(*id))
                        }
                        None => format!("{uid}:none:exists={}", s.edge_exists(*id)),
                    });
                }
                out.join(";")
            }
            R::ApiNeighbors => {
                let mut out = Vec::new();
                for uid in [1u64, 2, 3] {
                    let id = fx.node_id[&uid];
                    let mut o: Vec<String> = s.get_neighbors_outgoing(id).iter().map(|(n, e)| format!("{}/{}", nu(*n), eu(*e))).collect();
                    o.sort();
                    let mut inc: Vec<String> = s.get_neighbors_incoming(id).iter().map(|(n, e)| format!("{}/{}", nu(*n), eu(*e))).collect();
                    inc.sort();
                    let mut ty: Vec<String> = s.get_neighbors_outgoing_by_type(id, "R").iter().map(|(n, e)| format!("{}/{}", nu(*n), eu(*e))).collect();
                    ty.sort();
                    out.push(format!("{uid}:out={o:?}:in={inc:?}:outR={ty:?}:deg={:?}", s.get_degree(id)));
                }
                out.join(";")
            }
            R::ApiBatch => {
                let ids: Vec<NodeId> = fx.node_id.values().copied().collect();
                let b = s.get_nodes_batch(&ids);
                let mut out = Vec::new();
                for ((uid, id), n) in fx.node_id.iter().zip(b.iter()) {
                    out.push(format!("{uid}:{}:{}", n.is_some(), s.node_exists(*id)));
                }
                out.join(";")
            }
            R::DbCounts => format!("nodes={}:edges={}", fx.db.node_count(), fx.db.edge_count()),
            R::DbIter => {
                let rows: Vec<String> = fx.db.iter_nodes().map(|n| opt(n.properties.get(&"uid".into()))).collect();
                let erows: Vec<String> = fx.db.iter_edges().map(|e| opt(e.properties.get(&"uid".into()))).collect();
                format!("{}|{}", rows_to_string(rows), rows_to_string(erows))
            }
        }
    }

    /// the same question answered by the reference model (nodes keyed by uid)
    pub fn model(self, m: &Model, t: &BTreeSet<(String, String, String)>, known_nodes: &[u64], known_edges: &[u64]) -> String {
        let uid = |n: u64| opt(m.nodes.get(&n).and_then(|x| x.props.get("uid")));
        let has = |n: u64, l: &str| m.nodes.get(&n).is_some_and(|x| x.labels.contains(l));
        let r_edges = || m.edges.iter().filter(|(_, e)| e.ty == "R");
        match self {
            R::LabelScan | R::CypherLabel | R::GremlinLabel => rows_to_string(m.with_label("P").iter().map(|n| uid(*n)).collect()),
            R::FullScan => rows_to_string(m.nodes.keys().map(|n| uid(*n)).collect()),
            R::LabelScanProps | R::GraphqlLabel => rows_to_string(
                m.with_label("P").iter().map(|n| format!("{},{}", uid(*n), opt(m.nodes[n].props.get("v")))).collect(),
            ),
            R::Filter => rows_to_string(
                m.with_label("P").iter().filter(|n| matches!(m.nodes[*n].props.get("v"), Some(Value::Int64(x)) if *x > 15)).map(|n| uid(*n)).collect(),
            ),
            R::LabelQ => rows_to_string(m.with_label("Q").iter().map(|n| uid(*n)).collect()),
            R::ExpandUntyped => rows_to_string(
                m.edges.values().filter(|e| has(e.src, "P") && m.nodes.contains_key(&e.dst)).map(|e| format!("{},{}", uid(e.src), uid(e.dst))).collect(),
            ),
            R::ExpandTyped => rows_to_string(
                r_edges().filter(|(_, e)| has(e.src, "P") && m.nodes.contains_key(&e.dst)).map(|(_, e)| format!("{},{},{}", uid(e.src), opt(e.props.get("uid")), uid(e.dst))).collect(),
            ),
            R::ExpandIn => rows_to_string(
                r_edges().filter(|(_, e)| has(e.dst, "P") && m.nodes.contains_key(&e.src)).map(|(_, e)| format!("{},{}", uid(e.dst), uid(e.src))).collect(),
            ),
            R::TwoHop => {
                let mut rows = Vec::new();
                for (_, e1) in r_edges() {
                    if !has(e1.src, "P") || !m.nodes.contains_key(&e1.dst) {
                        continue;
                    }
                    for (_, e2) in r_edges() {
                        if e2.src == e1.dst && m.nodes.contains_key(&e2.dst) {
                            rows.push(format!("{},{},{}", uid(e1.src), uid(e1.dst), uid(e2.dst)));
                        }
                    }
                }
                rows_to_string(rows)
            }
            R::VarLen => {
                // all walks of length 1..=3 from uid 1 over R edges
                let mut rows = Vec::new();
                if has(1, "P") {
                    let mut frontier = vec![1u64];
                    for _ in 0..3 {
                        let mut next = Vec::new();
                        for n in &frontier {
                            for (_, e) in r_edges() {
                                if e.src == *n && m.nodes.contains_key(&e.dst) {
                                    next.push(e.dst);
                                    rows.push(uid(e.dst));
                                }
                            }
                        }
                        frontier = next;
                    }
                }
                rows_to_string(rows)
            }
            R::Count => v(&Value::Int64(m.with_label("P").len() as i64)),
            R::EdgeProps => rows_to_string(
                r_edges().filter(|(_, e)| m.nodes.contains_key(&e.src) && m.nodes.contains_key(&e.dst)).map(|(_, e)| format!("{},{}", opt(e.props.get("uid")), opt(e.props.get("w")))).collect(),
            ),
            R::IndexEq => rows_to_string(m.with_label("P").iter().filter(|n| m.nodes[*n].props.get("iv") == Some(&i(777))).map(|n| uid(*n)).collect()),
            R::IndexEqOld => rows_to_string(m.with_label("P").iter().filter(|n| m.nodes[*n].props.get("iv") == Some(&i(10))).map(|n| uid(*n)).collect()),
            R::GremlinOut => rows_to_string(
                r_edges().filter(|(_, e)| has(e.src, "P") && m.nodes.contains_key(&e.dst)).map(|(_, e)| uid(e.dst)).collect(),
            ),
            R::Sparql => rows_to_string(t.iter().map(|(s, p, o)| format!("{},{},{}", v(&vals::s(s)), v(&vals::s(p)), v(&vals::s(o)))).collect()),
            R::ApiGetNode => known_nodes
                .iter()
                .map(|u| match m.nodes.get(u) {
                    Some(n) => {
                        let labels: Vec<String> = n.labels.iter().cloned().collect();
                        let props: Vec<String> = n.props.iter().filter(|(_, x)| !matches!(x, Value::Null)).map(|(k, x)| format!("{k}={}", v(x))).collect();
                        format!("{u}:{labels:?}:{props:?}")
                    }
                    None => format!("{u}:none"),
                })
                .collect::<Vec<_>>()
                .join(";"),
            R::ApiGetProp => known_nodes
                .iter()
                .map(|u| {
                    let n = m.nodes.get(u);
                    format!("{u}:v={}:iv={}", opt(n.and_then(|n| n.props.get("v"))), opt(n.and_then(|n| n.props.get("iv"))))
                })
                .collect::<Vec<_>>()
                .join(";"),
            R::ApiGetEdge => known_edges
                .iter()
                .map(|u| match m.edges.get(u) {
                    Some(e) => {
                        let props: Vec<String> = e.props.iter().filter(|(_, x)| !matches!(x, Value::Null)).map(|(k, x)| format!("{k}={}", v(x))).collect();
                        format!("{u}:{}->{}:{}:{props:?}:exists=true", e.src, e.dst, e.ty)
                    }
                    None => format!("{u}:none:exists=false"),
                })
                .collect::<Vec<_>>()
                .join(";"),
            R::ApiNeighbors => {
                let mut out = Vec::new();
                // entities whose engine id the harness does not know print as "?" on both sides
                let kn = |n: u64| if known_nodes.contains(&n) { n.to_string() } else { "?".to_string() };
                let ke = |e: u64| if known_edges.contains(&e) { e.to_string() } else { "?".to_string() };
                for u in [1u64, 2, 3] {
                    let mut o: Vec<String> = m.out_edges(u).iter().map(|(n, e)| format!("{}/{}", kn(*n), ke(*e))).collect();
                    o.sort();
                    let mut inc: Vec<String> = m.in_edges(u).iter().map(|(n, e)| format!("{}/{}", kn(*n), ke(*e))).collect();
                    inc.sort();
                    out.push(format!("{u}:out={o:?}:in={inc:?}:outR={o:?}:deg={:?}", (o.len(), inc.len())));
                }
                out.join(";")
            }
            R::ApiBatch => known_nodes.iter().map(|u| format!("{u}:{}:{}", m.nodes.contains_key(u), m.nodes.contains_key(u))).collect::<Vec<_>>().join(";"),
            R::DbCounts => format!("nodes={}:edges={}", m.nodes.len(), m.edges.len()),
            R::DbIter => format!(
                "{}|{}",
                rows_to_string(m.nodes.values().map(|n| opt(n.props.get("uid"))).collect()),
                rows_to_string(m.edges.values().map(|e| opt(e.props.get("uid"))).collect())
            ),
        }
    }
}

// ------------------------------------------------------------------ classification

#[derive(Clone, Debug)]
pub struct CellResult {
    pub relevant: bool,
    pub outcome: String,
    pub got: String,
    pub expected: String,
}

/// `expect_s1`: is the reader entitled to see the write?
pub fn classify(r: R, got: &str, fx: &Fixture, w: W, expect_s1: bool, known_nodes: &[u64], known_edges: &[u64]) -> CellResult {
    let mut m1 = fx.s0.clone();
    let mut t1 = fx.triples0.clone();
    w.apply_model(&mut m1, &mut t1);
    let a0 = r.model(&fx.s0, &fx.triples0, known_nodes, known_edges);
    let a1 = r.model(&m1, &t1, known_nodes, known_edges);
    let (exp, other) = if expect_s1 { (&a1, &a0) } else { (&a0, &a1) };
    let relevant = a0 != a1;
    let outcome = if got == exp {
        "ok".to_string()
    } else if got == other {
        "wrong_snapshot".to_string()
    } else if got.starts_with("ERR:") {
        format!("error#{:08x}", hash_str(got) as u32)
    } else if got.starts_with("PANIC:") {
        format!("panic@{}", &got[6..])
    } else {
        format!("neither#{:08x}", hash_str(got) as u32)
    };
    CellResult { relevant, outcome, got: got.to_string(), expected: exp.clone() }
}

// ------------------------------------------------------------------ scenarios

#[derive(Clone, Copy, PartialEq, Eq, Debug, PartialOrd, Ord)]
pub enum Sc {
    // C01
    DirtyNonTx,
    DirtyTxBefore,
    DirtyTxAfter,
    Repeatable,
    CommittedBefore,
    OwnWrite,
    AutoCommit,
    UnrelatedCommit,
    /// reader began, then an unrelated commit advanced the epoch, then the writer began: the
    /// writer's versions carry a later epoch than the reader's snapshot
    SnapshotAcrossCommit,
    // C02
    Rollback,
    Drop,
    FailedCommit,
}

impl Sc {
    pub fn name(self) -> &'static str {
        match self {
            Sc::DirtyNonTx => "dirty_reader_no_tx",
            Sc::DirtyTxBefore => "dirty_reader_tx_begun_before_write",
            Sc::DirtyTxAfter => "dirty_reader_tx_begun_after_write",
            Sc::Repeatable => "repeatable",
            Sc::CommittedBefore => "committed_before_reader",
            Sc::OwnWrite => "own_write",
            Sc::AutoCommit => "autocommit",
            Sc::UnrelatedCommit => "after_unrelated_commit",
            Sc::SnapshotAcrossCommit => "snapshot_across_epoch_bump",
            Sc::Rollback => "rollback",
            Sc::Drop => "session_dropped",
            Sc::FailedCommit => "failed_commit",
        }
    }
}

/// One observation point: every read path evaluated by one reader.
pub struct Obs {
    pub name: String,
    /// may a read made through the reader's session see the write?
    pub expect_s1: bool,
    /// may a database-level (non-session) read see the write? (= is it committed?)
    pub expect_s1_db: bool,
    pub results: Vec<(R, String)>,
    /// entities whose engine ids were known when the observation was made
    pub known_nodes: Vec<u64>,
    pub known_edges: Vec<u64>,
}

fn observe(name: &str, s: &Session, fx: &Fixture, expect_s1: bool, expect_s1_db: bool) -> Obs {
    Obs {
        name: name.to_string(),
        expect_s1,
        expect_s1_db,
        results: READS.iter().map(|r| (*r, r.run(s, fx))).collect(),
        known_nodes: fx.node_id.keys().copied().collect(),
        known_edges: fx.edge_id.keys().copied().collect(),
    }
}

pub struct ScenarioRun {
    pub fx: Fixture,
    pub obs: Vec<Obs>,
    /// Some(text) if the engine refused the write itself
    pub write_error: Option<String>,
    /// result of commit()/rollback() calls that the scenario expected to succeed
    pub step_errors: Vec<String>,
}

/// `fail_commit`: arms/disarms the commit fail-point (hook); only used by Sc::FailedCommit.
pub fn run_scenario(sc: Sc, w: W, regime: Regime, fail_commit: &dyn Fn(bool)) -> ScenarioRun {
    let mut fx = fixture(regime);
    let mut obs = Vec::new();
    let step_errors: std::cell::RefCell<Vec<String>> = std::cell::RefCell::new(Vec::new());
    let mut write_error = None;
    let mut wr = fx.db.session();
    let mut rd = fx.db.session();
    let chk = |what: &str, r: grafeo_common::utils::error::Result<()>| {
        if let Err(e) = r {
            step_errors.borrow_mut().push(format!("{what}: {e}"));
        }
    };
    match sc {
        Sc::DirtyNonTx => {
            chk("begin", wr.begin_tx());
            write_error = w.apply(&wr, &mut fx).err();
            obs.push(observe("read", &rd, &fx, false, false));
        }
        Sc::DirtyTxBefore => {
            chk("begin reader", rd.begin_tx());
            chk("begin", wr.begin_tx());
            write_error = w.apply(&wr, &mut fx).err();
            obs.push(observe("read", &rd, &fx, false, false));
        }
        Sc::DirtyTxAfter => {
            chk("begin", wr.begin_tx());
            write_error = w.apply(&wr, &mut fx).err();
            chk("begin reader", rd.begin_tx());
            obs.push(observe("read", &rd, &fx, false, false));
        }
        Sc::Repeatable => {
            chk("begin reader", rd.begin_tx());
            obs.push(observe("first_read", &rd, &fx, false, false));
            chk("begin", wr.begin_tx());
            write_error = w.apply(&wr, &mut fx).err();
            chk("commit", wr.commit());
            obs.push(observe("read_after_foreign_commit", &rd, &fx, false, true));
            chk("commit reader", rd.commit());
            obs.push(observe("read_after_own_commit", &rd, &fx, true, true));
        }
        Sc::CommittedBefore => {
            chk("begin", wr.begin_tx());
            write_error = w.apply(&wr, &mut fx).err();
            chk("commit", wr.commit());
            obs.push(observe("read_no_tx", &rd, &fx, true, true));
            chk("begin reader", rd.begin_tx());
            obs.push(observe("read_in_tx", &rd, &fx, true, true));
        }
        Sc::OwnWrite => {
            chk("begin", wr.begin_tx());
            write_error = w.apply(&wr, &mut fx).err();
            obs.push(observe("read", &wr, &fx, true, false));
        }
        Sc::AutoCommit => {
            write_error = w.apply(&wr, &mut fx).err();
            obs.push(observe("same_session", &wr, &fx, true, true));
            obs.push(observe("other_session", &rd, &fx, true, true));
            chk("begin reader", rd.begin_tx());
            obs.push(observe("other_session_in_tx", &rd, &fx, true, true));
        }
        Sc::UnrelatedCommit => {
            chk("begin", wr.begin_tx());
            write_error = w.apply(&wr, &mut fx).err();
            chk("commit", wr.commit());
            let mut x = fx.db.session();
            chk("begin x", x.begin_tx());
            chk("commit x", x.commit());
            chk("begin reader", rd.begin_tx());
            obs.push(observe("read_in_tx", &rd, &fx, true, true));
        }
        Sc::SnapshotAcrossCommit => {
            chk("begin reader", rd.begin_tx());
            let mut x = fx.db.session();
            chk("begin x", x.begin_tx());
            chk("commit x", x.commit());
            chk("begin", wr.begin_tx());
            write_error = w.apply(&wr, &mut fx).err();
            obs.push(observe("read_while_foreign_open", &rd, &fx, false, false));
            chk("commit", wr.commit());
            obs.push(observe("read_after_foreign_commit", &rd, &fx, false, true));
        }
        Sc::Rollback => {
            chk("begin", wr.begin_tx());
            write_error = w.apply(&wr, &mut fx).err();
            chk("rollback", wr.rollback());
            obs.push(observe("same_session", &wr, &fx, false, false));
            obs.push(observe("other_session", &rd, &fx, false, false));
            chk("begin reader", rd.begin_tx());
            obs.push(observe("other_session_in_tx", &rd, &fx, false, false));
        }
        Sc::Drop => {
            chk("begin", wr.begin_tx());
            write_error = w.apply(&wr, &mut fx).err();
            drop(wr);
            obs.push(observe("other_session", &rd, &fx, false, false));
            chk("begin reader", rd.begin_tx());
            obs.push(observe("other_session_in_tx", &rd, &fx, false, false));
            wr = fx.db.session();
        }
        Sc::FailedCommit => {
            chk("begin", wr.begin_tx());
            write_error = w.apply(&wr, &mut fx).err();
            fail_commit(true);
            let r = wr.commit();
            fail_commit(false);
            if r.is_ok() {
                step_errors.borrow_mut().push("commit with armed fail-point returned Ok".into());
            }
            obs.push(observe("same_session", &wr, &fx, false, false));
            obs.push(observe("other_session", &rd, &fx, false, false));
            chk("begin reader", rd.begin_tx());
            obs.push(observe("other_session_in_tx", &rd, &fx, false, false));
        }
    }
    drop(wr);
    drop(rd);
    let step_errors = step_errors.into_inner();
    ScenarioRun { fx, obs, write_error, step_errors }
}

/// Run the full cell matrix for the given scenarios and report every non-ok cell.
pub fn run_matrix(rep: &mut crate::report::Report, scenarios: &[Sc], fail_commit: &dyn Fn(bool)) {
    use serde_json::json;
    let mut outcome_counts: BTreeMap<String, u64> = BTreeMap::new();
    let mut cells = 0u64;
    for &regime in &[Regime::Fresh, Regime::AfterCommit] {
        for &sc in scenarios {
            for &w in WRITES {
                let run = run_scenario(sc, w, regime, fail_commit);
                rep.count("scenario_runs", 1);
                for e in &run.step_errors {
                    rep.deviation(&format!("step:{}|{}|{}={}", w.name(), sc.name(), regime.name(), e.split(':').next().unwrap_or("")), json!({"error": e}));
                }
                if let Some(e) = &run.write_error {
                    rep.deviation(
                        &format!("write:{}|{}|{}=refused#{:08x}", w.name(), sc.name(), regime.name(), hash_str(e) as u32),
                        json!({"error": e}),
                    );
                    continue;
                }
                for o in &run.obs {
                    for (r, got) in &o.results {
                        let expect = if r.db_level() { o.expect_s1_db } else { o.expect_s1 };
                        let c = classify(*r, got, &run.fx, w, expect, &o.known_nodes, &o.known_edges);
                        cells += 1;
                        rep.eval();
                        *outcome_counts.entry(c.outcome.split('#').next().unwrap().split('@').next().unwrap().to_string()).or_default() += 1;
                        let cell = format!("{}|{}|{}.{}|{}", w.name(), r.name(), sc.name(), o.name, regime.name());
                        if c.relevant {
                            rep.nontrivial(hash_str(&cell));
                            rep.count(&format!("relevant_cells.read.{}", r.name()), 1);
                        }
                        if cells % 977 == 3 {
                            rep.sample(json!({"cell": cell, "expected_state": if expect { "with the write" } else { "without the write" }, "expected": c.expected, "got": c.got, "outcome": c.outcome}));
                        }
                        if c.outcome != "ok" {
                            rep.deviation(
                                &format!("cell:{cell}={}", c.outcome),
                                json!({"write": w.name(), "read": r.name(), "scenario": sc.name(), "observation": o.name, "regime": regime.name(),
                                       "reader_may_see_write": expect, "expected": c.expected, "got": c.got}),
                            );
                        }
                    }
                }
            }
        }
    }
    rep.count("cells", cells);
    for (k, n) in outcome_counts {
        rep.count(&format!("outcome.{k}"), n);
    }
}

// ------------------------------------------------------------------ serial random histories
//
// One session is active at a time (transactions never overlap), so none of the isolation
// defects can interfere; what is exercised is the *composition* of many writes on the same
// entities, in auto-commit and inside transactions, with every read path after every step.
// Rollback is modelled by the open finding C02-R1 (only entities created by the transaction
// are undone) when that finding is open, by the specification otherwise.

#[derive(Clone, Debug)]
pub enum PW {
    Insert { uid: u64, v: i64 },
    /// `INSERT (x:P {..})` (named variable) / Cypher `CREATE (x:P {..})`
    InsertStyled { uid: u64, v: i64, style: u8 },
    /// named edge variable (GQL) / Cypher
    CreateEdgeStyled { euid: u64, a: u64, b: u64, style: u8 },
    SetV { uid: u64, v: i64 },
    RemoveV { uid: u64 },
    AddLabel { uid: u64, l: &'static str },
    RemoveLabel { uid: u64, l: &'static str },
    DeleteIsolated { uid: u64 },
    DetachDelete { uid: u64 },
    CreateEdge { euid: u64, a: u64, b: u64 },
    Merge { uid: u64 },
    SparqlInsert { s: u64 },
    SparqlDelete { s: u64 },
}

impl PW {
    pub fn text(&self) -> String {
        match self {
            PW::Insert { uid, v } => format!("INSERT (:P {{uid: {uid}, v: {v}, iv: {v}}})"),
            PW::InsertStyled { uid, v, style } => match style {
                0 => format!("INSERT (x:P {{uid: {uid}, v: {v}, iv: {v}}})"),
                _ => format!("CREATE (x:P {{uid: {uid}, v: {v}, iv: {v}}})"),
            },
            PW::CreateEdgeStyled { euid, a, b, style } => match style {
                0 | 1 => format!("MATCH (a:P {{uid: {a}}}), (b:P {{uid: {b}}}) CREATE (a)-[r:R {{uid: {euid}}}]->(b)"),
                _ => format!("MATCH (a:P {{uid: {a}}}), (b:P {{uid: {b}}}) CREATE (a)-[r:R {{uid: {euid}}}]->(b) RETURN a.uid"),
            },
            PW::SetV { uid, v } => format!("MATCH (n:P {{uid: {uid}}}) SET n.v = {v}"),
            PW::RemoveV { uid } => format!("MATCH (n:P {{uid: {uid}}}) REMOVE n.v"),
            PW::AddLabel { uid, l } => format!("MATCH (n:P {{uid: {uid}}}) SET n:{l}"),
            PW::RemoveLabel { uid, l } => format!("MATCH (n:P {{uid: {uid}}}) REMOVE n:{l}"),
            PW::DeleteIsolated { uid } => format!("MATCH (n:P {{uid: {uid}}}) DELETE n"),
            PW::DetachDelete { uid } => format!("MATCH (n:P {{uid: {uid}}}) DETACH DELETE n"),
            PW::CreateEdge { euid, a, b } => format!("MATCH (a:P {{uid: {a}}}), (b:P {{uid: {b}}}) CREATE (a)-[:R {{uid: {euid}}}]->(b)"),
            PW::Merge { uid } => format!("MERGE (n:P {{uid: {uid}}})"),
            PW::SparqlInsert { s } => format!("INSERT DATA {{ <http://x{s}> <http://p> <http://o> }}"),
            PW::SparqlDelete { s } => format!("DELETE DATA {{ <http://x{s}> <http://p> <http://o> }}"),
        }
    }
    pub fn run(&self, s: &Session) -> Result<(), String> {
        let r = catch(|| match self {
            PW::SparqlInsert { .. } | PW::SparqlDelete { .. } => s.execute_sparql(&self.text()).map(|_| ()),
            PW::InsertStyled { style: 1.., .. } | PW::CreateEdgeStyled { style: 1, .. } => s.execute_cypher(&self.text()).map(|_| ()),
            _ => s.execute(&self.text()).map(|_| ()),
        });
        match r {
            Ok(Ok(())) => Ok(()),
            Ok(Err(e)) => Err(e.to_string()),
            Err(p) => Err(format!("PANIC {}", p.site)),
        }
    }
    /// returns the uids of nodes / edge-uids this write created (for the rollback rule)
    pub fn apply_model(&self, m: &mut Model, t: &mut BTreeSet<(String, String, String)>) -> (Vec<u64>, Vec<u64>) {
        match self {
            PW::Insert { uid, v } | PW::InsertStyled { uid, v, .. } => {
                m.add_node(*uid, &["P"], &[("uid", i(*uid as i64)), ("v", i(*v)), ("iv", i(*v))]);
                return (vec![*uid], vec![]);
            }
            PW::SetV { uid, v } => {
                if let Some(n) = m.nodes.get_mut(uid) {
                    n.props.insert("v".into(), i(*v));
                }
            }
            PW::RemoveV { uid } => {
                if let Some(n) = m.nodes.get_mut(uid) {
                    n.props.remove("v");
                }
            }
            PW::AddLabel { uid, l } => {
                if let Some(n) = m.nodes.get_mut(uid) {
                    n.labels.insert((*l).to_string());
                }
            }
            PW::RemoveLabel { uid, l } => {
                if let Some(n) = m.nodes.get_mut(uid) {
                    n.labels.remove(*l);
                }
            }
            PW::DeleteIsolated { uid } | PW::DetachDelete { uid } => {
                m.del_node(*uid, true);
            }
            PW::CreateEdge { euid, a, b } | PW::CreateEdgeStyled { euid, a, b, .. } => {
                if m.nodes.contains_key(a) && m.nodes.contains_key(b) {
                    m.add_edge(*euid, *a, *b, "R", &[("uid", i(*euid as i64))]);
                    return (vec![], vec![*euid]);
                }
            }
            PW::Merge { uid } => {
                if !m.nodes.values().any(|n| n.labels.contains("P") && n.props.get("uid") == Some(&i(*uid as i64))) {
                    m.add_node(*uid, &["P"], &[("uid", i(*uid as i64))]);
                    // MERGE writes outside the transaction (finding C02-R1): not listed as created
                }
            }
            PW::SparqlInsert { s } => {
                t.insert((format!("http://x{s}"), "http://p".into(), "http://o".into()));
            }
            PW::SparqlDelete { s } => {
                t.remove(&(format!("http://x{s}"), "http://p".to_string(), "http://o".to_string()));
            }
        }
        (vec![], vec![])
    }
}

/// Read paths usable on arbitrary graphs (no dependence on engine ids of query-created entities).
pub const SERIAL_READS: &[R] = &[
    R::LabelScan, R::FullScan, R::LabelScanProps, R::Filter, R::LabelQ, R::ExpandUntyped, R::ExpandTyped, R::ExpandIn,
    R::TwoHop, R::VarLen, R::Count, R::EdgeProps, R::IndexEqOld, R::CypherLabel, R::GremlinLabel, R::GremlinOut,
    R::GraphqlLabel, R::Sparql, R::ApiGetNode, R::ApiGetProp, R::ApiBatch,
];

pub fn serial_history(rep: &mut crate::report::Report, seed: u64, case: u64, rollback_rule: bool) {
    use serde_json::json;
    let mut r = crate::rng::Rng::new(seed, "C01.serial", case);
    let regime = if r.chance(0.5) { Regime::Fresh } else { Regime::AfterCommit };
    let fx = fixture(regime);
    let mut m = fx.s0.clone();
    let mut t = fx.triples0.clone();
    let mut hist: Vec<String> = vec![format!("regime={}", regime.name())];
    let mut next_uid = 500u64;
    let mut sess = fx.db.session();
    let mut in_tx = false;
    // state at begin + entities created inside the transaction (for rollback)
    let mut snap: Option<(Model, BTreeSet<(String, String, String)>)> = None;
    let mut created: (Vec<u64>, Vec<u64>) = (vec![], vec![]);
    let mut sparql_written_in_tx = false;
    let mut kinds: BTreeSet<&'static str> = BTreeSet::new();
    let steps = 8 + r.below(30);
    let known_nodes: Vec<u64> = fx.node_id.keys().copied().collect();
    let known_edges: Vec<u64> = fx.edge_id.keys().copied().collect();
    for _step in 0..steps {
        let uids: Vec<u64> = m.nodes.iter().filter(|(_, n)| n.labels.contains("P")).map(|(u, _)| *u).collect();
        let roll = r.below(100);
        if roll < 8 && !in_tx {
            if r.chance(0.5) {
                sess = fx.db.session();
            }
            if sess.begin_tx().is_ok() {
                in_tx = true;
                snap = Some((m.clone(), t.clone()));
                created = (vec![], vec![]);
                sparql_written_in_tx = false;
                hist.push("begin".into());
            }
            continue;
        }
        if roll < 16 && in_tx {
            if r.chance(0.7) {
                let _ = sess.commit();
                hist.push("commit".into());
            } else {
                let _ = sess.rollback();
                hist.push("rollback".into());
                let (m0, t0) = snap.take().unwrap();
                if rollback_rule {
                    // C02-R1: only entities created by the transaction are undone (and the RDF buffer)
                    for e in &created.1 {
                        m.del_edge(*e);
                    }
                    for n in &created.0 {
                        m.del_node(*n, false);
                    }
                    t = t0;
                } else {
                    m = m0;
                    t = t0;
                }
            }
            in_tx = false;
            snap = None;
        } else {
            let pick_uid = |r: &mut crate::rng::Rng| if uids.is_empty() { 1 } else { *r.pick(&uids) };
            let w = match r.below(12) {
                0 | 1 => {
                    next_uid += 1;
                    if r.chance(0.3) { PW::InsertStyled { uid: next_uid, v: r.range(0, 40), style: r.below(2) as u8 } } else { PW::Insert { uid: next_uid, v: r.range(0, 40) } }
                }
                2 | 3 => PW::SetV { uid: pick_uid(&mut r), v: r.range(0, 40) },
                4 => PW::RemoveV { uid: pick_uid(&mut r) },
                5 => PW::AddLabel { uid: pick_uid(&mut r), l: *r.pick(&["Q", "X"]) },
                6 => PW::RemoveLabel { uid: pick_uid(&mut r), l: *r.pick(&["Q", "X"]) },
                7 => {
                    let u = pick_uid(&mut r);
                    if m.out_edges(u).is_empty() && m.in_edges(u).is_empty() { PW::DeleteIsolated { uid: u } } else { PW::DetachDelete { uid: u } }
                }
                8 | 9 => {
                    next_uid += 1;
                    if r.chance(0.4) { PW::CreateEdgeStyled { euid: next_uid, a: pick_uid(&mut r), b: pick_uid(&mut r), style: [0u8, 2][r.below(2)] } } else { PW::CreateEdge { euid: next_uid, a: pick_uid(&mut r), b: pick_uid(&mut r) } }
                }
                10 => {
                    next_uid += 1;
                    PW::Merge { uid: if r.chance(0.5) { pick_uid(&mut r) } else { next_uid } }
                }
                _ => {
                    if r.chance(0.6) { PW::SparqlInsert { s: r.below(4) as u64 } } else { PW::SparqlDelete { s: r.below(4) as u64 } }
                }
            };
            kinds.insert(match &w {
                PW::Insert { .. } | PW::InsertStyled { .. } => "insert",
                PW::CreateEdgeStyled { .. } => "create_edge",
                PW::SetV { .. } => "set",
                PW::RemoveV { .. } => "remove_prop",
                PW::AddLabel { .. } => "add_label",
                PW::RemoveLabel { .. } => "remove_label",
                PW::DeleteIsolated { .. } => "delete",
                PW::DetachDelete { .. } => "detach_delete",
                PW::CreateEdge { .. } => "create_edge",
                PW::Merge { .. } => "merge",
                PW::SparqlInsert { .. } | PW::SparqlDelete { .. } => "sparql",
            });
            hist.push(format!("{}{}", if in_tx { "  " } else { "" }, w.text()));
            match w.run(&sess) {
                Ok(()) => {
                    let (cn, ce) = w.apply_model(&mut m, &mut t);
                    if in_tx {
                        created.0.extend(cn);
                        created.1.extend(ce);
                        if matches!(w, PW::SparqlInsert { .. } | PW::SparqlDelete { .. }) {
                            sparql_written_in_tx = true;
                        }
                    }
                }
                Err(e) => {
                    let kind = if e.starts_with("PANIC") { e.clone() } else { "error".to_string() };
                    rep.deviation(&format!("serial:write_failed|{}|{kind}", w.text().split(' ').next().unwrap_or("")), json!({"error": e, "history": hist}));
                    return;
                }
            }
        }
        // every read path after every step (reader = the active session)
        rep.eval();
        for rd in SERIAL_READS {
            if in_tx && sparql_written_in_tx && *rd == R::Sparql {
                continue; // C01-D7: own triple writes are not visible inside the transaction
            }
            let got = rd.run(&sess, &fx);
            let exp = rd.model(&m, &t, &known_nodes, &known_edges);
            if got != exp {
                let kind = if got.starts_with("ERR:") { "error" } else if got.starts_with("PANIC:") { "panic" } else { "wrong_answer" };
                let after = hist.last().map_or("", |h| h.trim().split(' ').next().unwrap_or(""));
                let sig = if kind == "wrong_answer" { format!("serial:{}|{kind}|after:{after}", rd.name()) } else { format!("serial:{}|{kind}", rd.name()) };
                rep.deviation(
                    &sig,
                    json!({"read": rd.name(), "expected": exp, "got": got, "in_tx": in_tx, "history": hist}),
                );
                return;
            }
        }
    }
    if kinds.len() >= 4 {
        rep.nontrivial(hash_str(&hist.join(";")));
    }
    if case < 2 {
        rep.sample(json!({"serial_history": hist}));
    }
}
