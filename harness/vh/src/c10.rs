//! C10 — indexes, pruning, caching and execution strategy change speed only.
//!
//! Differential monitor: the same query text on equal graphs under different physical
//! configurations. Oracle configuration: no property index, zone-map / index / range planner
//! paths switched off by the `grafeo_verif` flags, factorized execution off, cold plan cache
//! (fresh database) — i.e. scan + generic filter.
//!
//! Three parts, all on every run:
//!  1. a directed matrix (predicate shape x literal type x target x path), enumerated
//!     exhaustively over fixed data sets — signatures `c10:cell|shape|literal|target|path=kind`;
//!  2. random graphs x random query texts x ~12 physical configurations; a failing case is
//!     reduced; if the reduced witness has the form of a matrix cell it is reported under the
//!     cell's signature, otherwise under its canonical skeleton;
//!  3. histories: one long-lived session (all optimisations on) re-running the same text after
//!     data changes (new labels, index creation / drop, property updates, deletes) versus a
//!     freshly built database holding the same data.

#[path = "c09_gen.rs"]
mod qgen;

use crate::hooks;
use crate::report::{Report, Tier};
use crate::rng::{Rng, hash_str};
use crate::util::catch;
use crate::vals;
use qgen::{Cmp, Expr, GraphSpec, Lang, Outcome, Pred, Profile, Query};
use grafeo_common::types::{EdgeId, NodeId, Value};
use grafeo_engine::GrafeoDB;
use serde_json::json;
use std::collections::{BTreeMap, BTreeSet};
use std::sync::atomic::Ordering;

// ------------------------------------------------------------------------------------------
// physical configurations
// ------------------------------------------------------------------------------------------

/// true = the optimisation is ENABLED
#[derive(Clone, Copy, Debug, PartialEq, Eq)]
struct Phys {
    zone: bool,
    index: bool,
    range: bool,
    factorized: bool,
}
const BASE: Phys = Phys { zone: false, index: false, range: false, factorized: false };

fn set_flags(p: Phys) {
    hooks::NO_ZONE_MAP.store(!p.zone, Ordering::SeqCst);
    hooks::NO_INDEX_PATH.store(!p.index, Ordering::SeqCst);
    hooks::NO_RANGE_PATH.store(!p.range, Ordering::SeqCst);
}

#[derive(Clone, Copy, Debug, PartialEq, Eq)]
enum IdxMode {
    None,
    /// index created on the empty database, data loaded afterwards
    Before,
    /// data loaded, then index created
    After,
    /// created, dropped, created again after the load
    Recreate,
}

#[derive(Clone, Copy, Debug)]
struct Variant {
    name: &'static str,
    class: &'static str,
    phys: Phys,
    idx: IdxMode,
}

const VARIANTS: &[Variant] = &[
    Variant { name: "zone_only", class: "zone", phys: Phys { zone: true, ..BASE }, idx: IdxMode::None },
    Variant { name: "index_before_load", class: "index", phys: Phys { index: true, ..BASE }, idx: IdxMode::Before },
    Variant { name: "index_after_load", class: "index", phys: Phys { index: true, ..BASE }, idx: IdxMode::After },
    Variant { name: "index_recreated", class: "index", phys: Phys { index: true, ..BASE }, idx: IdxMode::Recreate },
    Variant { name: "index_present_path_off", class: "index_unused", phys: BASE, idx: IdxMode::After },
    Variant { name: "range_only", class: "range", phys: Phys { range: true, ..BASE }, idx: IdxMode::None },
    Variant { name: "all_paths", class: "all", phys: Phys { zone: true, index: true, range: true, factorized: false }, idx: IdxMode::After },
    Variant { name: "factorized_only", class: "factorized", phys: Phys { factorized: true, ..BASE }, idx: IdxMode::None },
    Variant { name: "everything_on", class: "all+factorized", phys: Phys { zone: true, index: true, range: true, factorized: true }, idx: IdxMode::Before },
];

fn build_variant(g: &GraphSpec, factorized: bool, idx: IdxMode, keys: &[&str]) -> qgen::Built {
    let db = GrafeoDB::with_config(qgen::config(factorized)).expect("db");
    if idx == IdxMode::Before {
        for k in keys {
            db.create_property_index(k);
        }
    }
    let (nodes, edges) = qgen::build_into(&db, g);
    match idx {
        IdxMode::After => {
            for k in keys {
                db.create_property_index(k);
            }
        }
        IdxMode::Recreate => {
            for k in keys {
                db.create_property_index(k);
            }
            for k in keys {
                db.drop_property_index(k);
            }
            for k in keys {
                db.create_property_index(k);
            }
        }
        _ => {}
    }
    qgen::Built { db, nodes, edges }
}

fn run_text(db: &GrafeoDB, lang: Lang, text: &str, phys: Phys) -> Outcome {
    set_flags(phys);
    let s = db.session();
    qgen::outcome_of(catch(|| match lang {
        Lang::Gql => s.execute(text),
        Lang::Cypher => s.execute_cypher(text),
    }))
}

fn run_session(s: &grafeo_engine::Session, lang: Lang, text: &str, phys: Phys) -> Outcome {
    set_flags(phys);
    qgen::outcome_of(catch(|| match lang {
        Lang::Gql => s.execute(text),
        Lang::Cypher => s.execute_cypher(text),
    }))
}

/// components of a difference: rows comparisons are split into missing / extra
fn diff_kinds(base: &Outcome, got: &Outcome, ordered: bool) -> Vec<String> {
    match qgen::diff(base, got, ordered) {
        None => vec![],
        Some(k) if k == "wrong_value" => vec!["missing_rows".into(), "extra_rows".into()],
        Some(k) => vec![k],
    }
}

// ------------------------------------------------------------------------------------------
// part 1: directed matrix
// ------------------------------------------------------------------------------------------

const SHAPES: [&str; 15] =
    ["eq", "ne", "lt", "le", "gt", "ge", "range_conj", "eq_and", "eq_eq", "eq_or", "in", "is_null", "is_not_null", "not", "flipped"];
const LIT_TYPES: [&str; 5] = ["Int", "FloatIntegral", "Float", "String", "Bool"];
const PATHS: [(&str, Phys, bool); 4] = [
    ("zone_map", Phys { zone: true, index: false, range: false, factorized: false }, false),
    ("index", Phys { zone: false, index: true, range: false, factorized: false }, true),
    ("range", Phys { zone: false, index: false, range: true, factorized: false }, false),
    ("all", Phys { zone: true, index: true, range: true, factorized: false }, true),
];

fn lits_of(t: &str) -> [Value; 2] {
    match t {
        "Int" => [Value::Int64(1), Value::Int64(7)],
        "FloatIntegral" => [Value::Float64(1.0), Value::Float64(7.0)],
        "Float" => [Value::Float64(1.5), Value::Float64(7.5)],
        "String" => [vals::s("a"), vals::s("zz")],
        _ => [Value::Bool(true), Value::Bool(false)],
    }
}

/// a third literal for the plain comparison shapes: zero (signed zeros / Int 0 vs Float 0.0)
fn zero_lit(t: &str) -> Option<&'static str> {
    match t {
        "Int" => Some("0"),
        "FloatIntegral" => Some("0.0"),
        _ => None,
    }
}

/// predicate texts of one (shape, literal type) over `v.p` (extra conjuncts use `v.q`)
fn shape_preds(shape: &str, t: &str, v: &str) -> Vec<String> {
    let l = lits_of(t);
    let (a, b) = (qgen::lit_text(&l[0]), qgen::lit_text(&l[1]));
    let (lo, hi) = if t == "Bool" { (b.clone(), a.clone()) } else { (a.clone(), b.clone()) };
    if let (Some(z), Some(op)) = (zero_lit(t), match shape {
        "eq" => Some("="),
        "ne" => Some("<>"),
        "lt" => Some("<"),
        "le" => Some("<="),
        "gt" => Some(">"),
        "ge" => Some(">="),
        _ => None,
    }) {
        return vec![format!("{v}.p {op} {a}"), format!("{v}.p {op} {b}"), format!("{v}.p {op} {z}")];
    }
    match shape {
        "eq" => vec![format!("{v}.p = {a}"), format!("{v}.p = {b}")],
        "ne" => vec![format!("{v}.p <> {a}"), format!("{v}.p <> {b}")],
        "lt" => vec![format!("{v}.p < {a}"), format!("{v}.p < {b}")],
        "le" => vec![format!("{v}.p <= {a}"), format!("{v}.p <= {b}")],
        "gt" => vec![format!("{v}.p > {a}"), format!("{v}.p > {b}")],
        "ge" => vec![format!("{v}.p >= {a}"), format!("{v}.p >= {b}")],
        "range_conj" => vec![
            format!("{v}.p >= {lo} AND {v}.p <= {hi}"),
            format!("{v}.p > {lo} AND {v}.p < {hi}"),
            format!("{v}.p <= {hi} AND {v}.p > {lo}"),
            format!("{v}.p >= {hi} AND {v}.p <= {lo}"),
        ],
        "eq_and" => vec![
            format!("{v}.p = {a} AND {v}.q > 4"),
            format!("{v}.q <= 4 AND {v}.p = {b}"),
            format!("{v}.p = {a} AND {v}.q IS NULL"),
            format!("{v}.p = {a} AND NOT ({v}.q = 2)"),
            format!("{v}.p = {b} AND {v}.q <> 1"),
        ],
        "eq_eq" => {
            let mut p = vec![format!("{v}.p = {a} AND {v}.q = 2.0"), format!("{v}.p = {a} AND {v}.q = 3.0")];
            for q in [0, 2, 3, 5, 6, 8] {
                p.push(format!("{v}.p = {a} AND {v}.q = {q}"));
                p.push(format!("{v}.q = {q} AND {v}.p = {b}"));
            }
            p
        }
        "eq_or" => vec![format!("{v}.p = {a} OR {v}.q = 2"), format!("{v}.q > 7 OR {v}.p = {b}")],
        "in" => vec![format!("{v}.p IN [{a}]"), format!("{v}.p IN [{a}, {b}]")],
        "is_null" => vec![format!("{v}.p IS NULL")],
        "is_not_null" => vec![format!("{v}.p IS NOT NULL")],
        "not" => vec![format!("NOT ({v}.p = {a})"), format!("NOT ({v}.p > {b})"), format!("NOT ({v}.p <= {a})")],
        "flipped" => vec![format!("{a} < {v}.p"), format!("{b} >= {v}.p"), format!("{a} = {v}.p"), format!("{a} >= {v}.p"), format!("{b} <= {v}.p"), format!("{b} > {v}.p")],
        _ => unreachable!(),
    }
}

/// fixed data sets of the matrix: (name, node `p` values, edge `p` values); None = property absent
fn matrix_datasets() -> Vec<(&'static str, Vec<Option<Value>>, Vec<Option<Value>>)> {
    let i = |x: i64| Some(Value::Int64(x));
    let f = |x: f64| Some(Value::Float64(x));
    let s = |x: &str| Some(vals::s(x));
    let b = |x: bool| Some(Value::Bool(x));
    vec![
        ("ints", vec![i(0), i(1), i(1), i(2), i(3), None, i(7), i(8)], vec![i(7), i(8), i(9), i(1), None, i(1)]),
        ("mixed_numeric", vec![i(1), f(1.0), f(1.5), i(2), f(2.0), f(7.0), i(7), None, f(7.5)], vec![i(1), f(1.0), f(7.5), i(7), f(8.0), f(1.5)]),
        (
            "special",
            vec![f(f64::NAN), f(0.0), f(-0.0), i(0), Some(Value::Null), s("a"), b(true), i(1)],
            vec![s("a"), s("zz"), b(true), b(false), f(f64::NAN), i(1)],
        ),
        ("strings_bools", vec![s("a"), s("a"), s("b"), s("zz"), b(true), b(false), None], vec![s("a"), b(true), s("b"), s("zz"), b(false)]),
        ("nodes_low_edges_high", vec![i(0), i(1), i(2), i(3), f(1.5)], vec![i(7), i(8), i(9), f(7.5), i(7)]),
        ("nodes_high_edges_low", vec![i(7), i(8), i(9), f(7.5)], vec![i(0), i(1), i(2), f(1.5), i(1)]),
        ("nodes_strings_edges_numbers", vec![s("a"), s("zz"), s("b")], vec![i(1), i(7), f(1.5), f(7.0)]),
        ("nodes_numbers_edges_strings_bools", vec![i(1), i(7), f(1.5), f(7.0)], vec![s("a"), s("zz"), b(true), b(false)]),
        ("single_value_plus_other_kind", vec![i(1), i(1), s("a")], vec![i(7), i(7), b(true)]),
        ("only_true", vec![b(true), b(true)], vec![b(true)]),
        ("bool_plus_other_kind", vec![b(true), b(true), i(1)], vec![b(false), b(false), s("a")]),
        ("string_plus_other_kind", vec![s("a"), s("a"), i(1)], vec![s("zz"), f(2.5)]),
        // the zone map keeps the first value as min/max when later ones are incomparable (NaN)
        ("numbers_then_nan", vec![i(1), f(1.5), f(f64::NAN)], vec![i(7), f(7.5), f(f64::NAN)]),
        ("nan_then_numbers", vec![f(f64::NAN), i(1), f(1.5)], vec![f(f64::NAN), i(7)]),
        ("zeros", vec![f(0.0), f(-0.0), i(0), i(1)], vec![f(-0.0), i(0), i(7)]),
        ("high_numbers_then_nan", vec![i(3), f(9.5), f(f64::NAN)], vec![i(3), f(f64::NAN)]),
    ]
}

fn matrix_graph(nodes_p: &[Option<Value>], edges_p: &[Option<Value>]) -> GraphSpec {
    let mut g = GraphSpec::default();
    let n = nodes_p.len().max(3);
    for i in 0..n {
        let mut props = vec![("uid".to_string(), Value::Int64(i as i64))];
        if let Some(Some(v)) = nodes_p.get(i) {
            props.push(("p".to_string(), v.clone()));
        }
        // q: 0..9 cyclic, absent on every fourth node
        if i % 4 != 3 {
            props.push(("q".to_string(), Value::Int64(((i * 3) % 10) as i64)));
        }
        let labels = if i % 3 == 2 { vec!["L1".to_string()] } else { vec!["L0".to_string()] };
        g.nodes.push(qgen::NodeSpec { labels, props });
    }
    for (j, p) in edges_p.iter().enumerate() {
        let mut props = vec![("uid".to_string(), Value::Int64(100 + j as i64))];
        if let Some(v) = p {
            props.push(("p".to_string(), v.clone()));
        }
        if j % 3 != 2 {
            props.push(("q".to_string(), Value::Int64(((j * 7) % 10) as i64)));
        }
        g.edges.push(qgen::EdgeSpec { src: j % n, dst: (j * 2 + 1) % n, ty: "T0".to_string(), props });
    }
    g
}

fn matrix(rep: &mut Report) {
    let datasets = matrix_datasets();
    struct Ds {
        name: &'static str,
        graph: GraphSpec,
        base: qgen::Built,
        plain: qgen::Built,
        indexed: qgen::Built,
    }
    let dss: Vec<Ds> = datasets
        .iter()
        .map(|(name, np, ep)| {
            let graph = matrix_graph(np, ep);
            Ds {
                name,
                base: qgen::build(&graph, false),
                plain: qgen::build(&graph, false),
                indexed: build_variant(&graph, false, IdxMode::After, &["p"]),
                graph,
            }
        })
        .collect();
    let mut failing_cells = 0u64;
    let mut cells = 0u64;
    for shape in SHAPES {
        let lit_types: Vec<&str> = if shape == "is_null" || shape == "is_not_null" { vec!["-"] } else { LIT_TYPES.to_vec() };
        for lt in lit_types {
            for target in ["node", "edge"] {
                let var = if target == "node" { "n" } else { "r" };
                let preds = shape_preds(shape, if lt == "-" { "Int" } else { lt }, var);
                // GQL's WHERE has neither IN nor IS [NOT] NULL; everything else runs through both front ends
                let gql_ok = !matches!(shape, "in" | "is_null" | "is_not_null") && !preds.iter().any(|p| p.contains(" IS NULL"));
                let mut texts: Vec<(Lang, String)> = Vec::new();
                for p in &preds {
                    for lang in [Lang::Gql, Lang::Cypher] {
                        if lang == Lang::Gql && (!gql_ok || p.contains(" IS NULL")) {
                            continue;
                        }
                        if target == "node" {
                            texts.push((lang, format!("MATCH (n) WHERE {p} RETURN n.uid AS c1")));
                            texts.push((lang, format!("MATCH (n:L0) WHERE {p} RETURN n.uid AS c1")));
                        } else {
                            texts.push((lang, format!("MATCH (a)-[r]->(b) WHERE {p} RETURN r.uid AS c1")));
                        }
                    }
                }
                for (path, phys, use_index) in PATHS {
                    cells += 1;
                    let mut kinds: BTreeMap<String, serde_json::Value> = BTreeMap::new();
                    for ds in &dss {
                        for (lang, text) in &texts {
                            let base = run_text(&ds.base.db, *lang, text, BASE);
                            let vdb = if use_index { &ds.indexed.db } else { &ds.plain.db };
                            let got = run_text(vdb, *lang, text, phys);
                            rep.count("matrix.executions", 2);
                            if let Outcome::Rows(r) = &base {
                                if !r.is_empty() {
                                    rep.count("matrix.baseline_nonempty", 1);
                                }
                            } else {
                                rep.count("matrix.baseline_not_rows", 1);
                            }
                            for k in diff_kinds(&base, &got, false) {
                                kinds.entry(k).or_insert_with(|| {
                                    json!({"query": text, "lang": lang.name(), "dataset": ds.name, "graph": qgen::graph_json(&ds.graph), "index_on": if use_index { "p" } else { "-" },
                                           "expected_scan_and_generic_filter": base.brief(), "got": got.brief()})
                                });
                            }
                        }
                    }
                    if !kinds.is_empty() {
                        failing_cells += 1;
                    }
                    for (k, detail) in kinds {
                        rep.deviation(&format!("c10:cell|{shape}|{lt}|{target}|{path}={k}"), detail);
                    }
                }
            }
        }
    }
    rep.count("matrix.cells", cells);
    rep.count("matrix.cells_failing", failing_cells);
    rep.evals(cells);
}


// ------------------------------------------------------------------------------------------
// part 1b: directed factorized-vs-flat set (2–3-hop chains, filters and aggregates above)
// ------------------------------------------------------------------------------------------

fn fact_graphs() -> Vec<(&'static str, GraphSpec)> {
    let node = |i: usize, k: Option<i64>, label: &str| {
        let mut props = vec![("uid".to_string(), Value::Int64(i as i64))];
        if let Some(k) = k {
            props.push(("k".to_string(), Value::Int64(k)));
        }
        qgen::NodeSpec { labels: vec![label.to_string()], props }
    };
    let edge = |j: usize, s: usize, d: usize, ty: &str, w: Option<i64>| {
        let mut props = vec![("uid".to_string(), Value::Int64(100 + j as i64))];
        if let Some(w) = w {
            props.push(("w".to_string(), Value::Int64(w)));
        }
        qgen::EdgeSpec { src: s, dst: d, ty: ty.to_string(), props }
    };
    let nodes4 = || vec![node(0, Some(3), "L0"), node(1, Some(1), "L1"), node(2, None, "L0"), node(3, Some(2), "L1")];
    vec![
        ("no_edges", GraphSpec { nodes: nodes4(), edges: vec![] }),
        ("first_hop_only", GraphSpec { nodes: nodes4(), edges: vec![edge(0, 0, 1, "T0", Some(2)), edge(1, 0, 2, "T0", Some(5)), edge(2, 3, 2, "T1", None)] }),
        ("chain", GraphSpec { nodes: nodes4(), edges: vec![edge(0, 0, 1, "T0", Some(2)), edge(1, 1, 2, "T0", Some(5)), edge(2, 2, 3, "T1", None), edge(3, 3, 0, "T0", Some(1))] }),
        (
            "dense_loops_parallel",
            GraphSpec {
                nodes: nodes4(),
                edges: vec![
                    edge(0, 0, 1, "T0", Some(2)),
                    edge(1, 0, 1, "T0", Some(4)),
                    edge(2, 1, 1, "T1", Some(5)),
                    edge(3, 1, 2, "T0", None),
                    edge(4, 2, 0, "T1", Some(1)),
                    edge(5, 2, 3, "T0", Some(7)),
                    edge(6, 3, 3, "T0", Some(3)),
                    edge(7, 3, 1, "T1", Some(2)),
                ],
            },
        ),
    ]
}

const FACT_TEXTS: &[&str] = &[
    "MATCH (a)-[r]->(b)-[s]->(c) RETURN a.uid AS c1, r.uid AS c2, b.uid AS c3, s.uid AS c4, c.uid AS c5",
    "MATCH (a)-[r]->(b)-[s]->(c)-[t]->(d) RETURN a.uid AS c1, b.uid AS c2, c.uid AS c3, d.uid AS c4",
    "MATCH (a)-[]->(b)-[]->(c) RETURN a.uid AS c1, c.uid AS c2",
    "MATCH (a:L0)-[r:T0]->(b)<-[s]-(c) RETURN a.uid AS c1, b.uid AS c2, c.uid AS c3",
    "MATCH (a)-[r]-(b)-[s]-(c) RETURN a.uid AS c1, b.uid AS c2, c.uid AS c3",
    "MATCH (a)-[r]->(b)-[s]->(c) WHERE a.k > 1 RETURN a.uid AS c1, c.uid AS c2",
    "MATCH (a)-[r]->(b)-[s]->(c) WHERE c.k > 1 RETURN a.uid AS c1, c.uid AS c2",
    "MATCH (a)-[r]->(b)-[s]->(c) WHERE r.w > 2 RETURN a.uid AS c1, c.uid AS c2",
    "MATCH (a)-[r]->(b)-[s]->(c) WHERE b.k = 1 AND s.w > 1 RETURN a.uid AS c1, c.uid AS c2",
    "MATCH (a)-[r]->(b)-[s]->(c) RETURN count(c) AS c1",
    "MATCH (a)-[r]->(b)-[s]->(c) RETURN count(a) AS c1",
    "MATCH (a)-[r]->(b)-[s]->(c) RETURN count(b) AS c1, count(c) AS c2",
    "MATCH (a)-[r]->(b)-[s]->(c) RETURN sum(c.k) AS c1",
    "MATCH (a)-[r]->(b)-[s]->(c) RETURN min(a.k) AS c1, max(c.k) AS c2, avg(b.k) AS c3",
    "MATCH (a)-[r]->(b)-[s]->(c) RETURN min(c) AS c1",
    "MATCH (a)-[r]->(b)-[s]->(c) RETURN count(DISTINCT c) AS c1",
    "MATCH (a)-[r]->(b)-[s]->(c) RETURN a.uid AS c1, count(c) AS c2",
    "MATCH (a)-[r]->(b)-[s]->(c) WHERE a.k > 1 RETURN count(c) AS c1",
    "MATCH (a)-[r]->(b)-[s]->(c) WHERE c.k > 1 RETURN count(c) AS c1",
    "MATCH (a)-[r]->(b)-[s]->(c)-[t]->(d) RETURN count(d) AS c1",
    "MATCH (a:L0)-[r]->(b)-[s]->(c) RETURN count(c) AS c1",
    "MATCH (a)-[r:T0]->(b)-[s:T1]->(c) RETURN count(c) AS c1, count(a) AS c2",
    // a node variable mentioned twice in one path
    "MATCH (a)-[r]->(a)-[s]->(b) RETURN a.uid AS c1, b.uid AS c2",
    "MATCH (a)-[r]->(b)-[s]->(a) RETURN a.uid AS c1, b.uid AS c2",
    "MATCH (a)-[r]->(b)-[s]->(a) RETURN count(b) AS c1",
];

fn factorized_set(rep: &mut Report) {
    for (gname, g) in fact_graphs() {
        let flat = qgen::build(&g, false);
        let fact = qgen::build(&g, true);
        for text in FACT_TEXTS {
            for lang in [Lang::Gql, Lang::Cypher] {
                let base = run_text(&flat.db, lang, text, BASE);
                if matches!(base, Outcome::Error(_)) {
                    rep.count("factorized_set.rejected", 1);
                    continue;
                }
                let got = run_text(&fact.db, lang, text, Phys { factorized: true, ..BASE });
                rep.eval();
                rep.count("factorized_set.pairs", 1);
                if let Outcome::Rows(r) = &base {
                    if !r.is_empty() {
                        rep.count("factorized_set.baseline_nonempty", 1);
                    }
                }
                for k in diff_kinds(&base, &got, false) {
                    rep.deviation(
                        &format!("c10:fact|{}|{text}|{gname}={k}", lang.name()),
                        json!({"query": text, "lang": lang.name(), "graph": qgen::graph_json(&g), "expected_flat": base.brief(), "got_factorized": got.brief()}),
                    );
                }
            }
        }
    }
}

// ------------------------------------------------------------------------------------------
// cell form of a reduced random witness
// ------------------------------------------------------------------------------------------

fn first_lit(p: &Pred) -> Option<Value> {
    match p {
        Pred::Cmp(a, _, b) => match (a, b) {
            (Expr::Lit(v), _) | (_, Expr::Lit(v)) => Some(v.clone()),
            _ => None,
        },
        Pred::And(a, b) | Pred::Or(a, b) => first_lit(a).or_else(|| first_lit(b)),
        Pred::Not(a) => first_lit(a),
        Pred::In(_, l) => l.first().cloned(),
        Pred::IsNull(..) => None,
    }
}

/// `v.k op literal`, also written the other way round (the operator is mirrored)
fn is_prop_cmp_lit(p: &Pred) -> Option<(&String, &String, Cmp, &Value)> {
    match p {
        Pred::Cmp(Expr::Prop(v, k), op, Expr::Lit(l)) => Some((v, k, *op, l)),
        Pred::Cmp(Expr::Lit(l), op, Expr::Prop(v, k)) => {
            let m = match op {
                Cmp::Lt => Cmp::Gt,
                Cmp::Le => Cmp::Ge,
                Cmp::Gt => Cmp::Lt,
                Cmp::Ge => Cmp::Le,
                o => *o,
            };
            Some((v, k, m, l))
        }
        _ => None,
    }
}

fn lit_cell_type(v: &Value) -> Option<&'static str> {
    match qgen::lit_type(v) {
        t @ ("Int" | "FloatIntegral" | "Float" | "String" | "Bool") => Some(t),
        _ => None,
    }
}

/// (shape, literal type, target) when the reduced query has the form of a matrix cell
fn cell_of(q: &Query) -> Option<(String, String, &'static str)> {
    if q.matches.len() != 1 || q.matches[0].paths.len() != 1 || q.unwind.is_some() || q.with.is_some() || q.mutation.is_some() {
        return None;
    }
    if !q.order.is_empty() || q.has_agg() {
        return None;
    }
    let path = &q.matches[0].paths[0];
    if path.steps.len() > 1 || path.steps.iter().any(|(e, _)| e.hops.is_some()) {
        return None;
    }
    // inline property maps are equality conjuncts
    let mut pred: Option<Pred> = q.filter.clone();
    let mut add = |v: &str, props: &[(String, Value)]| {
        for (k, val) in props {
            let c = Pred::Cmp(Expr::Prop(v.to_string(), k.clone()), Cmp::Eq, Expr::Lit(val.clone()));
            pred = Some(match pred.take() {
                None => c,
                Some(p) => Pred::And(Box::new(c), Box::new(p)),
            });
        }
    };
    add(&path.start.var, &path.start.props);
    for (e, n) in &path.steps {
        if let Some(v) = &e.var {
            add(v, &e.props);
        }
        add(&n.var, &n.props);
    }
    let pred = pred?;
    let mut vars = BTreeSet::new();
    pred.vars(&mut vars);
    if vars.len() != 1 {
        return None;
    }
    let var = vars.into_iter().next().unwrap();
    let target = if path.steps.is_empty() && path.start.var == var {
        "node"
    } else if path.steps.len() == 1 && path.steps[0].0.var.as_deref() == Some(var.as_str()) {
        "edge"
    } else {
        return None;
    };
    let lit = first_lit(&pred);
    let lt = match &lit {
        Some(v) => lit_cell_type(v)?.to_string(),
        None => "-".to_string(),
    };
    let shape = match &pred {
        Pred::Cmp(Expr::Prop(..), op, Expr::Lit(_)) => op.name().to_string(),
        Pred::Cmp(Expr::Lit(_), _, Expr::Prop(..)) => "flipped".to_string(),
        Pred::And(a, b) => {
            let (ca, cb) = (is_prop_cmp_lit(a), is_prop_cmp_lit(b));
            match (ca, cb) {
                (Some((_, ka, oa, _)), Some((_, kb, ob, _))) if ka == kb && oa != Cmp::Eq && ob != Cmp::Eq && oa != Cmp::Ne && ob != Cmp::Ne => "range_conj".to_string(),
                (Some((_, ka, Cmp::Eq, _)), Some((_, kb, Cmp::Eq, _))) if ka != kb => "eq_eq".to_string(),
                (Some((_, _, Cmp::Eq, _)), _) | (_, Some((_, _, Cmp::Eq, _))) => "eq_and".to_string(),
                _ => return None,
            }
        }
        Pred::Or(a, b) => match (is_prop_cmp_lit(a), is_prop_cmp_lit(b)) {
            (Some((_, _, Cmp::Eq, _)), _) | (_, Some((_, _, Cmp::Eq, _))) => "eq_or".to_string(),
            _ => return None,
        },
        Pred::In(Expr::Prop(..), _) => "in".to_string(),
        Pred::IsNull(Expr::Prop(..), true) => "is_null".to_string(),
        Pred::IsNull(Expr::Prop(..), false) => "is_not_null".to_string(),
        Pred::Not(_) => "not".to_string(),
        _ => return None,
    };
    // for eq_and / eq_or the literal type is the equality's
    let lt = match &pred {
        Pred::And(a, b) | Pred::Or(a, b) if shape == "eq_and" || shape == "eq_or" => {
            let eq = [a, b].into_iter().find_map(|x| is_prop_cmp_lit(x).filter(|c| c.2 == Cmp::Eq));
            match eq {
                Some((_, _, _, l)) => lit_cell_type(l)?.to_string(),
                None => lt,
            }
        }
        _ => lt,
    };
    Some((shape, lt, target))
}


// ------------------------------------------------------------------------------------------
// part 1c: directed texts whose optimized plan stacks one filter on another
// ------------------------------------------------------------------------------------------

/// The generic FilterOperator loses the lower of two directly stacked filters (known defect of
/// the baseline strategy itself); every path that serves the lower filter through a node list
/// or prunes it then changes the answer. One text per path, enumerated on every run.
fn stacked_filter_set(rep: &mut Report) {
    let i = Value::Int64;
    let node = |uid: i64, k: Option<i64>, sv: Option<&str>| {
        let mut props = vec![("uid".to_string(), i(uid))];
        if let Some(k) = k {
            props.push(("k".to_string(), i(k)));
        }
        if let Some(x) = sv {
            props.push(("s".to_string(), vals::s(x)));
        }
        qgen::NodeSpec { labels: vec!["L0".to_string()], props }
    };
    let g = GraphSpec { nodes: vec![node(0, Some(1), Some("a")), node(1, Some(5), Some("a")), node(2, None, Some("a")), node(3, Some(1), Some("b")), node(4, Some(7), None)], edges: vec![] };
    let texts: [(Lang, &str); 3] = [
        (Lang::Gql, "MATCH (n {k: 1}) WHERE n.s = 'a' RETURN n.uid AS c1"),
        (Lang::Gql, "MATCH (n) WHERE n.k < 3 WITH n WHERE n.s = 'a' RETURN n.uid AS c1"),
        (Lang::Cypher, "MATCH (n) WHERE n.k >= 1 AND n.k <= 5 WITH n WHERE n.s = 'a' RETURN n.uid AS c1"),
    ];
    let base = qgen::build(&g, false);
    for (lang, text) in texts {
        let expected = run_text(&base.db, lang, text, BASE);
        for v in SINGLES {
            if v.class == "factorized" || v.class == "all" {
                continue;
            }
            let b = build_variant(&g, false, v.idx, &["k"]);
            let got = run_text(&b.db, lang, text, v.phys);
            rep.eval();
            rep.count("stacked_filter_set.pairs", 1);
            if std::env::var("C10_DEBUG").is_ok() {
                eprintln!("{text} [{}] expected {} / got {}", v.class, expected.brief().replace('\n', ";"), got.brief().replace('\n', ";"));
            }
            for _k in diff_kinds(&expected, &got, false).into_iter().take(1) {
                rep.deviation(
                    &format!("c10:rand|stacked_filters|cfg={}|differs", v.class),
                    json!({"query": text, "lang": lang.name(), "graph": qgen::graph_json(&g), "indexed": ["k"], "configuration": v.class,
                           "expected_scan_and_generic_filter": expected.brief(), "got": got.brief(),
                           "note": "the baseline applies only the upper of the two stacked filters; the variant applies both"}),
                );
            }
        }
    }
}

// ------------------------------------------------------------------------------------------
// part 2: random graphs x random queries x configurations
// ------------------------------------------------------------------------------------------

fn idx_subset(r: &mut Rng, case: u64) -> Vec<&'static str> {
    // cycle through the 7 non-empty subsets so that every one is covered, order randomised
    let mask = 1 + ((case + r.below(7) as u64) % 7) as usize;
    qgen::IDX_KEYS.iter().enumerate().filter(|(i, _)| mask & (1 << i) != 0).map(|(_, k)| *k).collect()
}

fn variant_outcome(g: &GraphSpec, q: &Query, text: &str, v: &Variant, keys: &[&str]) -> Outcome {
    let b = build_variant(g, v.phys.factorized, v.idx, keys);
    let _ = q;
    run_text(&b.db, q.lang, text, v.phys)
}

fn baseline_outcome(g: &GraphSpec, q: &Query, text: &str) -> Outcome {
    let b = qgen::build(g, false);
    run_text(&b.db, q.lang, text, BASE)
}

fn fails_under(g: &GraphSpec, q: &Query, v: &Variant, keys: &[&str]) -> Vec<String> {
    let text = q.text();
    let base = baseline_outcome(g, q, &text);
    if matches!(base, Outcome::Error(_)) {
        // a reduction step must not turn the witness into a rejected text
        let got = variant_outcome(g, q, &text, v, keys);
        return diff_kinds(&base, &got, q.ordered()).into_iter().filter(|k| k.starts_with("error_only")).collect();
    }
    let got = variant_outcome(g, q, &text, v, keys);
    diff_kinds(&base, &got, q.ordered())
}


/// Does the optimized logical plan of `q` (what the session plans) place a Filter directly on
/// another Filter? The generic FilterOperator then loses the lower filter (known defect), and
/// any path that serves the lower filter through a node list changes the answer.
fn has_stacked_filters(g: &GraphSpec, q: &Query) -> bool {
    use grafeo_engine::query::plan::LogicalOperator as LO;
    let text = q.text();
    let plan = match q.lang {
        Lang::Gql => grafeo_engine::query::translate_gql(&text),
        Lang::Cypher => grafeo_engine::query::translate_cypher(&text),
    };
    let Ok(plan) = plan else { return false };
    let b = qgen::build(g, false);
    let Ok(opt) = grafeo_engine::query::optimizer::Optimizer::from_store(b.db.store()).optimize(plan) else { return false };
    fn walk(op: &LO) -> bool {
        let kids: Vec<&LO> = match op {
            LO::Filter(f) => {
                if matches!(f.input.as_ref(), LO::Filter(_)) {
                    return true;
                }
                vec![f.input.as_ref()]
            }
            LO::Return(r) => vec![r.input.as_ref()],
            LO::Project(p) => vec![p.input.as_ref()],
            LO::Expand(e) => vec![e.input.as_ref()],
            LO::Join(j) => vec![j.left.as_ref(), j.right.as_ref()],
            LO::LeftJoin(j) => vec![j.left.as_ref(), j.right.as_ref()],
            LO::Aggregate(a) => vec![a.input.as_ref()],
            LO::Sort(a) => vec![a.input.as_ref()],
            LO::Limit(a) => vec![a.input.as_ref()],
            LO::Skip(a) => vec![a.input.as_ref()],
            LO::Distinct(a) => vec![a.input.as_ref()],
            LO::Unwind(a) => vec![a.input.as_ref()],
            LO::NodeScan(n) => n.input.iter().map(|b| b.as_ref()).collect(),
            _ => vec![],
        };
        kids.into_iter().any(walk)
    }
    walk(&opt.root)
}


/// the same graph loaded in another physical order (nodes and edges reversed)
fn reversed(g: &GraphSpec) -> GraphSpec {
    let n = g.nodes.len();
    let mut r = GraphSpec { nodes: g.nodes.iter().rev().cloned().collect(), edges: g.edges.iter().rev().cloned().collect() };
    for e in &mut r.edges {
        e.src = n - 1 - e.src;
        e.dst = n - 1 - e.dst;
    }
    r
}

/// Does the BASELINE's own answer change when the same graph is loaded in another order?
/// Then the text's result depends on physical ids / row order (executor defects outside C10:
/// a WITH projection that misaligns columns, an edge id read as a node id, ...), and any path
/// that enumerates nodes in another order than the scan (index node lists are hash ordered)
/// changes the answer for that reason alone.
fn baseline_depends_on_physical_order(g: &GraphSpec, q: &Query, text: &str) -> bool {
    let a = baseline_outcome(g, q, text);
    let b = baseline_outcome(&reversed(g), q, text);
    qgen::diff(&a, &b, q.ordered()).is_some()
}

const SINGLES: &[Variant] = &[
    Variant { name: "zone_only", class: "zone_map", phys: Phys { zone: true, ..BASE }, idx: IdxMode::None },
    Variant { name: "index_after_load", class: "index", phys: Phys { index: true, ..BASE }, idx: IdxMode::After },
    Variant { name: "range_only", class: "range", phys: Phys { range: true, ..BASE }, idx: IdxMode::None },
    Variant { name: "factorized_only", class: "factorized", phys: Phys { factorized: true, ..BASE }, idx: IdxMode::None },
    Variant { name: "all_paths", class: "all", phys: Phys { zone: true, index: true, range: true, factorized: false }, idx: IdxMode::After },
];

fn random_part(rep: &mut Report, tier: Tier, seed: u64) {
    let n_cases = tier.pick(1500u64, 40_000u64);
    let budget = tier.pick(220usize, 350usize);
    let mut reduced_cache: BTreeMap<String, Vec<String>> = BTreeMap::new();
    let mut rejected_examples: BTreeMap<String, String> = BTreeMap::new();
    for case in 0..n_cases {
        let mut r = Rng::new(seed, "c10", case);
        let g = qgen::gen_graph(&mut r, tier.pick(12, 14), tier.pick(20, 26));
        let lang = if r.chance(0.6) { Lang::Gql } else { Lang::Cypher };
        let q = qgen::gen_query(&mut r, Profile::Physical, lang, false);
        let keys = idx_subset(&mut r, case);
        let text = q.text();
        qgen::tick(&text);
        let base = baseline_outcome(&g, &q, &text);
        match &base {
            Outcome::Error(e) => {
                rep.count(&format!("random.rejected.{}", lang.name()), 1);
                let class: String = e.chars().take(60).collect();
                rejected_examples.entry(class).or_insert_with(|| text.clone());
                continue;
            }
            Outcome::Panic(site, _) => {
                rep.count("random.baseline_panic", 1);
                let _ = site;
                continue;
            }
            Outcome::Rows(rows) => {
                rep.eval();
                rep.count(&format!("random.queries.{}", lang.name()), 1);
                rep.count(&format!("random.index_subset.{}", keys.join("+")), 1);
                if !rows.is_empty() && (q.filter.is_some() || text.contains('{')) {
                    rep.nontrivial(hash_str(&q.skeleton()));
                    rep.count("random.baseline_nonempty_filtered", 1);
                }
                if rows.is_empty() {
                    rep.count("random.baseline_empty", 1);
                }
                rep.sample(json!({"lang": lang.name(), "query": text, "indexed": keys, "baseline_rows": rows.len()}));
            }
        }
        let ordered = q.ordered();
        let mut failing: Vec<(&Variant, Vec<String>)> = Vec::new();
        for v in VARIANTS {
            let got = variant_outcome(&g, &q, &text, v, &keys);
            rep.count(&format!("random.executed.{}", v.name), 1);
            let kinds = diff_kinds(&base, &got, ordered);
            if !kinds.is_empty() {
                rep.count(&format!("random.mismatch.{}", v.name), 1);
                failing.push((v, kinds));
            }
        }
        if failing.is_empty() {
            continue;
        }
        rep.count("random.cases_with_mismatch", 1);
        if baseline_depends_on_physical_order(&g, &q, &text) {
            rep.count("random.mismatch_with_order_dependent_baseline", 1);
            rep.deviation(
                "c10:rand|baseline_depends_on_physical_order|differs",
                json!({"query": text, "lang": lang.name(), "graph": qgen::graph_json(&g), "indexed": keys, "case": case,
                       "failing_variants": failing.iter().map(|(v, k)| format!("{}:{}", v.name, k.join("+"))).collect::<Vec<_>>(),
                       "baseline": base.brief(), "baseline_on_the_same_graph_loaded_in_reverse_order": baseline_outcome(&reversed(&g), &q, &text).brief()}),
            );
            continue;
        }
        // one reduction per failing class
        let mut seen_class: BTreeSet<&str> = BTreeSet::new();
        for (v, kinds0) in &failing {
            if !seen_class.insert(v.class) {
                continue;
            }
            // "all": only reduce when no single-path class already failed on this case
            if v.class.starts_with("all") && failing.iter().any(|(o, _)| !o.class.starts_with("all")) {
                continue;
            }
            let pre = format!("{}|{}|{}", q.skeleton(), v.class, kinds0.join(","));
            if let Some(sigs) = reduced_cache.get(&pre) {
                for s in sigs.clone() {
                    rep.deviation(&s, json!({"query": text, "case": case, "note": "same unreduced skeleton and configuration class as an earlier reduced case"}));
                }
                continue;
            }
            let vv: Variant = **v;
            let kk = keys.clone();
            let mut fails = |g2: &GraphSpec, q2: &Query| !fails_under(g2, q2, &vv, &kk).is_empty();
            let (g2, q2, used) = qgen::reduce(&g, &q, budget, &mut fails);
            rep.count("random.reducer_steps", used as u64);
            let text2 = q2.text();
            let base2 = baseline_outcome(&g2, &q2, &text2);
            // attribute to single paths where possible
            let mut attributions: Vec<(&'static str, Vec<String>, Outcome)> = Vec::new();
            for s in SINGLES {
                if s.class == "all" {
                    continue;
                }
                let got = variant_outcome(&g2, &q2, &text2, s, &kk);
                let k = diff_kinds(&base2, &got, q2.ordered());
                if !k.is_empty() {
                    attributions.push((s.class, k, got));
                }
            }
            if attributions.is_empty() {
                let got = variant_outcome(&g2, &q2, &text2, &vv, &kk);
                let k = diff_kinds(&base2, &got, q2.ordered());
                let class: &'static str = match vv.class {
                    "zone" => "zone_map",
                    c => c,
                };
                attributions.push((class, if k.is_empty() { kinds0.clone() } else { k }, got));
            }
            // index maintenance: does the way the index came into being matter?
            let mut idx_note = String::new();
            if attributions.iter().any(|(c, _, _)| *c == "index") {
                let modes: Vec<&str> = VARIANTS
                    .iter()
                    .filter(|x| x.class == "index")
                    .filter(|x| !diff_kinds(&base2, &variant_outcome(&g2, &q2, &text2, x, &kk), q2.ordered()).is_empty())
                    .map(|x| x.name)
                    .collect();
                if modes.len() != 3 {
                    idx_note = format!("[{}]", modes.join(","));
                }
            }
            let cell = cell_of(&q2);
            let stacked = has_stacked_filters(&g2, &q2);
            let mut sigs = Vec::new();
            for (class, kinds, got) in &attributions {
                for k in kinds {
                    let sig = match (&cell, *class) {
                        (Some((shape, lt, target)), "zone_map" | "index" | "range") if idx_note.is_empty() && !stacked => format!("c10:cell|{shape}|{lt}|{target}|{class}={k}"),
                        _ if stacked => format!("c10:rand|stacked_filters|cfg={class}|differs"),
                        _ => format!("c10:rand|{}|cfg={class}{idx_note}|{k}", q2.skeleton()),
                    };
                    rep.deviation(
                        &sig,
                        json!({
                            "reduced_query": text2, "lang": q2.lang.name(), "reduced_graph": qgen::graph_json(&g2), "indexed": kk, "configuration": class,
                            "optimized_plan_has_filter_directly_on_filter": stacked,
                            "expected_scan_and_generic_filter": base2.brief(), "got": got.brief(),
                            "original_query": text, "original_variant": vv.name, "case": case, "reducer_steps": used,
                        }),
                    );
                    sigs.push(sig);
                }
            }
            reduced_cache.insert(pre, sigs);
        }
    }
    rep.extra.insert("random.rejected_examples".into(), json!(rejected_examples));
}

// ------------------------------------------------------------------------------------------
// part 3: histories — one long-lived session vs. freshly built databases
// ------------------------------------------------------------------------------------------

#[derive(Clone, Debug)]
enum Op {
    AddNode(qgen::NodeSpec),
    AddEdge(qgen::EdgeSpec),
    SetNodeProp(usize, String, Value),
    RemoveNodeProp(usize, String),
    SetEdgeProp(usize, String, Value),
    DeleteEdge(usize),
    DeleteNode(usize),
    AddLabel(usize, String),
    RemoveLabel(usize, String),
    CreateIndex(String),
    DropIndex(String),
    /// write the value the node already has once more, through db.set_node_property
    RewriteSame(usize, String),
    /// the same through a statement: MATCH (n) WHERE n.uid = <uid> SET n.key = <current value>
    RewriteSameByQuery(usize, String),
    /// write another value, then the original one again (A -> B -> A)
    ThereAndBack(usize, String, Value),
}

impl Op {
    fn kind(&self) -> &'static str {
        match self {
            Op::AddNode(_) => "add_node",
            Op::AddEdge(_) => "add_edge",
            Op::SetNodeProp(..) => "set_node_prop",
            Op::RemoveNodeProp(..) => "remove_node_prop",
            Op::SetEdgeProp(..) => "set_edge_prop",
            Op::DeleteEdge(_) => "delete_edge",
            Op::DeleteNode(_) => "delete_node",
            Op::AddLabel(..) => "add_label",
            Op::RemoveLabel(..) => "remove_label",
            Op::CreateIndex(_) => "create_index",
            Op::DropIndex(_) => "drop_index",
            Op::RewriteSame(..) => "rewrite_same_value",
            Op::RewriteSameByQuery(..) => "rewrite_same_value_by_query",
            Op::ThereAndBack(..) => "write_other_then_original_value",
        }
    }
    fn show(&self) -> String {
        match self {
            Op::AddNode(n) => format!("add_node :{} {:?}", n.labels.join(":"), n.props.iter().map(|(k, v)| format!("{k}={}", qgen::lit_text(v))).collect::<Vec<_>>()),
            Op::AddEdge(e) => format!("add_edge #{}-[:{}]->#{} {:?}", e.src, e.ty, e.dst, e.props.iter().map(|(k, v)| format!("{k}={}", qgen::lit_text(v))).collect::<Vec<_>>()),
            Op::SetNodeProp(i, k, v) => format!("set node #{i}.{k} = {}", qgen::lit_text(v)),
            Op::RemoveNodeProp(i, k) => format!("remove node #{i}.{k}"),
            Op::SetEdgeProp(i, k, v) => format!("set edge #{i}.{k} = {}", qgen::lit_text(v)),
            Op::DeleteEdge(i) => format!("delete edge #{i}"),
            Op::DeleteNode(i) => format!("delete node #{i} (with its edges)"),
            Op::AddLabel(i, l) => format!("add label #{i}:{l}"),
            Op::RemoveLabel(i, l) => format!("remove label #{i}:{l}"),
            Op::CreateIndex(k) => format!("create index on {k}"),
            Op::DropIndex(k) => format!("drop index on {k}"),
            Op::RewriteSame(i, k) => format!("set node #{i}.{k} = <the value it already has> (db.set_node_property)"),
            Op::RewriteSameByQuery(i, k) => format!("MATCH (n) WHERE n.uid = <uid of #{i}> SET n.{k} = <the value it already has>"),
            Op::ThereAndBack(i, k, v) => format!("set node #{i}.{k} = {}, then back to its original value", qgen::lit_text(v)),
        }
    }
}

struct Live {
    b: qgen::Built,
    /// (src node slot, dst node slot) per edge slot
    ends: Vec<(usize, usize)>,
    node_alive: Vec<bool>,
    edge_alive: Vec<bool>,
}

impl Live {
    fn new(g: &GraphSpec, b: qgen::Built) -> Live {
        Live { ends: g.edges.iter().map(|e| (e.src, e.dst)).collect(), node_alive: vec![true; g.nodes.len()], edge_alive: vec![true; g.edges.len()], b }
    }
    /// Applies `op`; ops that refer to a missing entity are skipped (keeps reduced histories valid).
    fn apply(&mut self, op: &Op, with_indexes: bool) {
        let db = &self.b.db;
        let node = |s: &Live, i: usize| -> Option<NodeId> { if i < s.b.nodes.len() && s.node_alive[i] { Some(s.b.nodes[i]) } else { None } };
        let edge = |s: &Live, i: usize| -> Option<EdgeId> { if i < s.b.edges.len() && s.edge_alive[i] { Some(s.b.edges[i]) } else { None } };
        match op {
            Op::AddNode(n) => {
                let labels: Vec<&str> = n.labels.iter().map(|s| s.as_str()).collect();
                let id = db.create_node_with_props(&labels, n.props.iter().map(|(k, v)| (k.as_str(), v.clone())));
                self.b.nodes.push(id);
                self.node_alive.push(true);
            }
            Op::AddEdge(e) => {
                if let (Some(s), Some(d)) = (node(self, e.src), node(self, e.dst)) {
                    let id = db.create_edge_with_props(s, d, &e.ty, e.props.iter().map(|(k, v)| (k.as_str(), v.clone())));
                    self.b.edges.push(id);
                    self.edge_alive.push(true);
                    self.ends.push((e.src, e.dst));
                }
            }
            Op::SetNodeProp(i, k, v) => {
                if let Some(id) = node(self, *i) {
                    db.set_node_property(id, k, v.clone());
                }
            }
            Op::RemoveNodeProp(i, k) => {
                if let Some(id) = node(self, *i) {
                    db.remove_node_property(id, k);
                }
            }
            Op::SetEdgeProp(i, k, v) => {
                if let Some(id) = edge(self, *i) {
                    db.set_edge_property(id, k, v.clone());
                }
            }
            Op::DeleteEdge(i) => {
                if let Some(id) = edge(self, *i) {
                    db.delete_edge(id);
                    self.edge_alive[*i] = false;
                }
            }
            Op::DeleteNode(i) => {
                if let Some(id) = node(self, *i) {
                    for j in 0..self.ends.len() {
                        if self.edge_alive[j] && (self.ends[j].0 == *i || self.ends[j].1 == *i) {
                            db.delete_edge(self.b.edges[j]);
                            self.edge_alive[j] = false;
                        }
                    }
                    db.delete_node(id);
                    self.node_alive[*i] = false;
                }
            }
            Op::AddLabel(i, l) => {
                if let Some(id) = node(self, *i) {
                    db.add_node_label(id, l);
                }
            }
            Op::RemoveLabel(i, l) => {
                if let Some(id) = node(self, *i) {
                    db.remove_node_label(id, l);
                }
            }
            Op::CreateIndex(k) => {
                if with_indexes {
                    db.create_property_index(k);
                }
            }
            Op::DropIndex(k) => {
                if with_indexes {
                    db.drop_property_index(k);
                }
            }
            Op::RewriteSame(i, k) => {
                if let Some(id) = node(self, *i) {
                    if let Some(v) = current_prop(db, id, k) {
                        db.set_node_property(id, k, v);
                    }
                }
            }
            Op::RewriteSameByQuery(i, k) => {
                if let Some(id) = node(self, *i) {
                    if let Some(v) = current_prop(db, id, k) {
                        // a statement when the value and the node's uid can be written as literals,
                        // the direct API otherwise; planned with every optimisation off so that the
                        // statement itself does the same in every database
                        let uid = current_prop(db, id, "uid");
                        let writable = matches!(&v, Value::Int64(_) | Value::Bool(_) | Value::String(_)) || matches!(&v, Value::Float64(f) if f.is_finite());
                        match (uid, writable) {
                            (Some(Value::Int64(u)), true) => {
                                set_flags(BASE);
                                let text = format!("MATCH (n) WHERE n.uid = {u} SET n.{k} = {} RETURN n.uid AS c1", qgen::lit_text(&v));
                                let session = db.session();
                                let _ = catch(|| session.execute(&text));
                            }
                            _ => db.set_node_property(id, k, v),
                        }
                    }
                }
            }
            Op::ThereAndBack(i, k, other) => {
                if let Some(id) = node(self, *i) {
                    if let Some(v) = current_prop(db, id, k) {
                        db.set_node_property(id, k, other.clone());
                        db.set_node_property(id, k, v);
                    }
                }
            }
        }
    }
}

fn current_prop(db: &GrafeoDB, id: NodeId, key: &str) -> Option<Value> {
    db.get_node(id).and_then(|n| n.properties.iter().find(|(k, _)| k.as_str() == key).map(|(_, v)| v.clone()))
}

fn gen_op(r: &mut Rng, n_nodes: usize, n_edges: usize, uid: &mut i64) -> Op {
    match r.below(25) {
        20 | 21 => Op::RewriteSame(r.below(n_nodes.max(1)), (*r.pick(&qgen::IDX_KEYS)).to_string()),
        22 => Op::RewriteSameByQuery(r.below(n_nodes.max(1)), (*r.pick(&qgen::IDX_KEYS)).to_string()),
        23 | 24 => {
            let key = (*r.pick(&qgen::IDX_KEYS)).to_string();
            let other = if r.chance(0.5) { Value::Int64(r.range(10, 15)) } else { qgen::node_prop_value(r, &key) };
            Op::ThereAndBack(r.below(n_nodes.max(1)), key, other)
        }
        0 | 1 => {
            *uid += 1;
            let mut n = qgen::gen_node(r, *uid);
            if r.chance(0.5) {
                // a label the database has never seen
                n.labels.push("L9".to_string());
            }
            Op::AddNode(n)
        }
        2 | 3 => {
            *uid += 1;
            let mut e = qgen::gen_edge(r, n_nodes.max(1), 100 + *uid);
            if r.chance(0.3) {
                e.ty = "T9".to_string();
            }
            Op::AddEdge(e)
        }
        4..=8 => {
            let key = (*r.pick(&["k", "w", "z", "k", "w"])).to_string();
            let v = if r.chance(0.3) { Value::Int64(r.range(10, 15)) } else { qgen::node_prop_value(r, &key) };
            Op::SetNodeProp(r.below(n_nodes.max(1)), key, v)
        }
        9 | 10 => Op::RemoveNodeProp(r.below(n_nodes.max(1)), (*r.pick(&["k", "w", "z"])).to_string()),
        11 => {
            let v = if r.chance(0.4) { Value::Int64(r.range(13, 20)) } else { qgen::edge_prop_value(r, "w") };
            Op::SetEdgeProp(r.below(n_edges.max(1)), "w".to_string(), v)
        }
        12 => Op::DeleteEdge(r.below(n_edges.max(1))),
        13 | 14 => Op::DeleteNode(r.below(n_nodes.max(1))),
        15 => Op::AddLabel(r.below(n_nodes.max(1)), (*r.pick(&["L0", "L1", "L9"])).to_string()),
        16 => Op::RemoveLabel(r.below(n_nodes.max(1)), (*r.pick(&["L0", "L1", "L2"])).to_string()),
        17 | 18 => Op::CreateIndex((*r.pick(&qgen::IDX_KEYS)).to_string()),
        _ => Op::DropIndex((*r.pick(&qgen::IDX_KEYS)).to_string()),
    }
}

const WARM: Phys = Phys { zone: true, index: true, range: true, factorized: true };

/// the graph a database currently holds, as a spec (nodes / edges in id order)
fn spec_of(db: &GrafeoDB) -> GraphSpec {
    let mut nodes: Vec<_> = db.iter_nodes().collect();
    nodes.sort_by_key(|n| n.id.as_u64());
    let idx: BTreeMap<u64, usize> = nodes.iter().enumerate().map(|(i, n)| (n.id.as_u64(), i)).collect();
    let mut g = GraphSpec::default();
    for n in &nodes {
        let mut props: Vec<(String, Value)> = n.properties.iter().map(|(k, v)| (k.as_str().to_string(), v.clone())).collect();
        props.sort_by(|a, b| a.0.cmp(&b.0));
        g.nodes.push(qgen::NodeSpec { labels: n.labels.iter().map(|l| l.to_string()).collect(), props });
    }
    let mut edges: Vec<_> = db.iter_edges().collect();
    edges.sort_by_key(|e| e.id.as_u64());
    for e in &edges {
        let (Some(s), Some(d)) = (idx.get(&e.src.as_u64()), idx.get(&e.dst.as_u64())) else { continue };
        let mut props: Vec<(String, Value)> = e.properties.iter().map(|(k, v)| (k.as_str().to_string(), v.clone())).collect();
        props.sort_by(|a, b| a.0.cmp(&b.0));
        g.edges.push(qgen::EdgeSpec { src: *s, dst: *d, ty: e.edge_type.to_string(), props });
    }
    g
}

/// long-lived configurations of the history part; single paths first so that a static path
/// defect cannot be mistaken for a maintenance defect through masking between paths
const HCFG: [(&str, Phys); 5] = [
    ("zone_map", Phys { zone: true, index: false, range: false, factorized: false }),
    ("index", Phys { zone: false, index: true, range: false, factorized: false }),
    ("range", Phys { zone: false, index: false, range: true, factorized: false }),
    ("factorized", Phys { zone: false, index: false, range: false, factorized: true }),
    ("everything_on", WARM),
];
const N_SINGLE: usize = 4;

struct CfgOut {
    /// the long-lived session on the long-lived database
    warm: Outcome,
    /// same configuration and same change history replayed on a new database (cold plan cache)
    replayed: Outcome,
    /// same configuration, database loaded directly with the final data (no change history)
    fresh_final: Outcome,
}

struct StepOut {
    /// cold baseline: data rebuilt + changes replayed, no index, all paths off, flat execution
    expected: Outcome,
    per_cfg: Vec<CfgOut>,
}

fn run_history(g: &GraphSpec, q: &Query, keys: &[&str], steps: &[Vec<Op>]) -> Vec<StepOut> {
    let text = q.text();
    let mut out = Vec::new();
    let mut warm: Vec<Live> = HCFG.iter().map(|(_, p)| Live::new(g, build_variant(g, p.factorized, IdxMode::After, keys))).collect();
    // sessions borrow the databases: keep the databases alive in `warm` and create sessions up front
    let sessions: Vec<grafeo_engine::Session> = warm.iter().map(|w| w.b.db.session()).collect();
    let mut indexed: BTreeSet<String> = keys.iter().map(|k| k.to_string()).collect();
    for upto in 0..=steps.len() {
        if upto > 0 {
            for op in &steps[upto - 1] {
                for w in warm.iter_mut() {
                    w.apply(op, true);
                }
                match op {
                    Op::CreateIndex(k) => {
                        indexed.insert(k.clone());
                    }
                    Op::DropIndex(k) => {
                        indexed.remove(k);
                    }
                    _ => {}
                }
            }
        }
        let mut cold = Live::new(g, qgen::build(g, false));
        for st in &steps[..upto] {
            for op in st {
                cold.apply(op, false);
            }
        }
        let expected = run_text(&cold.b.db, q.lang, &text, BASE);
        let final_spec = spec_of(&cold.b.db);
        let ik: Vec<&str> = indexed.iter().map(|s| s.as_str()).collect();
        let mut per_cfg = Vec::new();
        for (ci, (_, phys)) in HCFG.iter().enumerate() {
            let mut rep = Live::new(g, build_variant(g, phys.factorized, IdxMode::After, keys));
            for st in &steps[..upto] {
                for op in st {
                    rep.apply(op, true);
                }
            }
            let replayed = run_text(&rep.b.db, q.lang, &text, *phys);
            let ff = build_variant(&final_spec, phys.factorized, IdxMode::After, &ik);
            let fresh_final = run_text(&ff.db, q.lang, &text, *phys);
            let warm_out = run_session(&sessions[ci], q.lang, &text, *phys);
            per_cfg.push(CfgOut { warm: warm_out, replayed, fresh_final });
        }
        out.push(StepOut { expected, per_cfg });
    }
    out
}

/// First (step, configuration) at which the long-lived database is wrong although a database
/// freshly loaded with the same data under the same configuration is right. Where the fresh
/// database is wrong too, a static path defect is at work on the final data (matrix / random
/// part) and nothing can be said about maintenance. "everything_on" is judged only at steps
/// where no single configuration has a static defect (paths can mask each other's defects, e.g.
/// a clean zone map hides the index path's dropped conjunct until a removal marks it dirty).
fn history_failure(res: &[StepOut], ordered: bool) -> (Option<(usize, String, Vec<String>)>, u64) {
    let mut static_only = 0;
    for (i, st) in res.iter().enumerate() {
        let singles_clean = st.per_cfg[..N_SINGLE].iter().all(|c| diff_kinds(&st.expected, &c.fresh_final, ordered).is_empty());
        for (ci, c) in st.per_cfg.iter().enumerate() {
            let kw = diff_kinds(&st.expected, &c.warm, ordered);
            if kw.is_empty() {
                continue;
            }
            if !diff_kinds(&st.expected, &c.fresh_final, ordered).is_empty() || (ci >= N_SINGLE && !singles_clean) {
                static_only += 1;
                continue;
            }
            let class = if diff_kinds(&c.replayed, &c.warm, ordered).is_empty() { "maintenance" } else { "warm_cache" };
            return (Some((i, format!("cfg={}|{class}", HCFG[ci].0), kw)), static_only);
        }
    }
    (None, static_only)
}

/// Simple texts whose answer the data changes of a history are likely to move: one node (or
/// one hop) with one or two atomic predicates over the indexable keys.
fn history_query(r: &mut Rng, lang: Lang) -> Query {
    let mut q = Query::empty(lang);
    let label = match r.below(6) {
        0 | 1 => Some((*r.pick(&qgen::LABELS)).to_string()),
        2 => Some("L9".to_string()),
        _ => None,
    };
    let start = qgen::NodePat { var: "n1".into(), label, props: vec![] };
    let mut vars = vec![("n1".to_string(), false)];
    let mut steps = Vec::new();
    if r.chance(0.3) {
        let ty = if r.chance(0.3) { Some((*r.pick(&["T0", "T1", "T9"])).to_string()) } else { None };
        steps.push((qgen::EdgePat { var: Some("r1".into()), ty, dir: qgen::Dir::Out, props: vec![], hops: None }, qgen::NodePat { var: "n2".into(), label: None, props: vec![] }));
        vars.push(("r1".to_string(), true));
        vars.push(("n2".to_string(), false));
    }
    q.matches.push(qgen::MatchClause { optional: false, paths: vec![qgen::PathPat { start, steps }] });
    let atom = |r: &mut Rng| {
        let (v, is_edge) = r.pick(&vars).clone();
        let key = if is_edge { "w".to_string() } else { (*r.pick(&["k", "w", "z"])).to_string() };
        let lit = if r.chance(0.25) { Value::Int64(r.range(9, 15)) } else { qgen::lit_for_key(r, &key) };
        let op = *r.pick(&[Cmp::Eq, Cmp::Eq, Cmp::Eq, Cmp::Gt, Cmp::Ge, Cmp::Lt, Cmp::Le, Cmp::Ne]);
        Pred::Cmp(Expr::Prop(v, key), op, Expr::Lit(lit))
    };
    let p = atom(r);
    q.filter = Some(match r.below(5) {
        0 => Pred::And(Box::new(p), Box::new(atom(r))),
        1 => Pred::Or(Box::new(p), Box::new(atom(r))),
        _ => p,
    });
    for (i, (v, _)) in vars.iter().enumerate() {
        q.ret.push(qgen::RetItem { agg: None, expr: Expr::Prop(v.clone(), "uid".into()), alias: format!("c{}", i + 1) });
    }
    q
}

/// fixed histories, one per kind of maintenance the paths depend on; enumerated on every run
fn directed_histories() -> Vec<(GraphSpec, Query, Vec<&'static str>, Vec<Vec<Op>>)> {
    let i = Value::Int64;
    let node = |uid: i64, props: &[(&str, Value)], label: &str| {
        let mut p = vec![("uid".to_string(), i(uid))];
        p.extend(props.iter().map(|(k, v)| (k.to_string(), v.clone())));
        qgen::NodeSpec { labels: vec![label.to_string()], props: p }
    };
    let edge = |uid: i64, s: usize, d: usize, w: i64| qgen::EdgeSpec { src: s, dst: d, ty: "T0".into(), props: vec![("uid".into(), i(uid)), ("w".into(), i(w))] };
    let q_node = |label: Option<&str>, pred: Pred| {
        let mut q = Query::empty(Lang::Gql);
        q.matches.push(qgen::MatchClause { optional: false, paths: vec![qgen::PathPat { start: qgen::NodePat { var: "n1".into(), label: label.map(String::from), props: vec![] }, steps: vec![] }] });
        q.filter = Some(pred);
        q.ret.push(qgen::RetItem { agg: None, expr: Expr::Prop("n1".into(), "uid".into()), alias: "c1".into() });
        q
    };
    let cmp = |v: &str, k: &str, op: Cmp, lit: Value| Pred::Cmp(Expr::Prop(v.into(), k.into()), op, Expr::Lit(lit));
    let mut q_edge = Query::empty(Lang::Gql);
    q_edge.matches.push(qgen::MatchClause {
        optional: false,
        paths: vec![qgen::PathPat {
            start: qgen::NodePat { var: "n1".into(), label: None, props: vec![] },
            steps: vec![(qgen::EdgePat { var: Some("r1".into()), ty: None, dir: qgen::Dir::Out, props: vec![], hops: None }, qgen::NodePat { var: "n2".into(), label: None, props: vec![] })],
        }],
    });
    q_edge.filter = Some(cmp("r1", "w", Cmp::Gt, i(5)));
    q_edge.ret.push(qgen::RetItem { agg: None, expr: Expr::Prop("r1".into(), "uid".into()), alias: "c1".into() });
    let three = || GraphSpec { nodes: vec![node(0, &[("k", i(1)), ("w", i(1)), ("z", i(0))], "L0"), node(1, &[("k", i(2)), ("w", i(2))], "L0"), node(2, &[("k", i(2))], "L1")], edges: vec![edge(100, 0, 1, 3), edge(101, 1, 2, 7)] };
    let set = |n: usize, k: &str, v: Value| Op::SetNodeProp(n, k.into(), v);
    vec![
        // overwrite with a value of another kind, then ask `<>`
        (GraphSpec { nodes: vec![node(0, &[("z", i(0))], "L0")], edges: vec![] }, q_node(None, cmp("n1", "z", Cmp::Ne, i(0))), vec!["k"], vec![vec![set(0, "z", vals::s("a"))]]),
        // index maintenance on update / removal / deletion / re-insertion
        (three(), q_node(None, cmp("n1", "k", Cmp::Eq, i(2))), vec!["k"], vec![vec![set(0, "k", i(2))], vec![Op::RemoveNodeProp(1, "k".into())], vec![Op::DeleteNode(2)], vec![set(1, "k", i(2))], vec![set(0, "k", i(5))]]),
        // range / zone map after updates that widen, narrow and empty the column
        (three(), q_node(None, cmp("n1", "k", Cmp::Gt, i(5))), vec!["w"], vec![vec![set(0, "k", i(9))], vec![set(0, "k", i(1))], vec![Op::RemoveNodeProp(0, "k".into()), Op::RemoveNodeProp(1, "k".into())], vec![set(2, "k", i(6))]]),
        // a label the database has never seen, added to a new and to an old node, removed again
        (
            three(),
            q_node(Some("L9"), cmp("n1", "k", Cmp::Ge, i(0))),
            vec!["k"],
            vec![vec![Op::AddNode(node(50, &[("k", i(1))], "L9"))], vec![Op::AddLabel(0, "L9".into())], vec![Op::RemoveLabel(0, "L9".into())], vec![Op::DeleteNode(3)]],
        ),
        // index created, dropped and re-created between executions
        (three(), q_node(None, cmp("n1", "w", Cmp::Eq, i(3))), vec!["k"], vec![vec![Op::CreateIndex("w".into())], vec![set(0, "w", i(3))], vec![Op::DropIndex("w".into())], vec![set(1, "w", i(3))], vec![Op::CreateIndex("w".into())], vec![set(0, "w", i(4))]]),
        // an unchanged value written again on an indexed key (API, statement), another value and
        // back, then the index dropped and re-created: the equality must keep finding the node
        (
            three(),
            q_node(None, cmp("n1", "k", Cmp::Eq, i(1))),
            vec!["k"],
            vec![
                vec![Op::RewriteSame(0, "k".into())],
                vec![Op::RewriteSameByQuery(0, "k".into())],
                vec![Op::ThereAndBack(0, "k".into(), i(7))],
                vec![set(0, "k", i(1))],
                vec![Op::DropIndex("k".into()), Op::CreateIndex("k".into())],
                vec![Op::RewriteSame(0, "k".into()), Op::RewriteSame(1, "k".into())],
            ],
        ),
        // the same on a key whose values are of mixed kinds, index created during the history
        (
            GraphSpec { nodes: vec![node(0, &[("z", Value::Float64(1.5))], "L0"), node(1, &[("z", vals::s("a"))], "L0"), node(2, &[("z", Value::Bool(true))], "L1")], edges: vec![] },
            q_node(None, cmp("n1", "z", Cmp::Eq, vals::s("a"))),
            vec!["k"],
            vec![vec![Op::CreateIndex("z".into())], vec![Op::RewriteSame(1, "z".into())], vec![Op::RewriteSameByQuery(1, "z".into()), Op::RewriteSame(0, "z".into())], vec![Op::ThereAndBack(1, "z".into(), i(3))]],
        ),
        // edge property updates, new edges, deletions
        (three(), q_edge, vec!["w"], vec![vec![Op::SetEdgeProp(0, "w".into(), i(9))], vec![Op::AddEdge(edge(150, 2, 0, 8))], vec![Op::DeleteEdge(1)], vec![Op::DeleteNode(0)]]),
    ]
}

fn history_part(rep: &mut Report, tier: Tier, seed: u64) {
    let n_cases = tier.pick(400u64, 8_000u64);
    let budget = tier.pick(120usize, 250usize);
    let mut reduced_cache: BTreeMap<String, Vec<String>> = BTreeMap::new();
    let directed = directed_histories();
    let n_directed = directed.len() as u64;
    let mut directed = directed.into_iter();
    for case in 0..n_cases + n_directed {
        let (g, q, keys, steps) = if case < n_directed {
            rep.count("history.directed", 1);
            directed.next().unwrap()
        } else {
        let case = case - n_directed;
        let mut r = Rng::new(seed, "c10-history", case);
        let g = qgen::gen_graph(&mut r, 10, 16);
        let lang = if r.chance(0.6) { Lang::Gql } else { Lang::Cypher };
        let q = if r.chance(0.75) { history_query(&mut r, lang) } else { qgen::gen_query(&mut r, Profile::Physical, lang, false) };
        let keys = idx_subset(&mut r, case);
        // a third of the histories aim at index maintenance: an equality on an indexed key with a
        // value some node really has, and in every step a write to exactly that node and key
        // (the same value again, by API or by statement; another value and back; the value anew)
        let mut q = q;
        let mut target: Option<(usize, String, Value)> = None;
        if r.chance(0.35) {
            let key = (*r.pick(&keys)).to_string();
            let holders: Vec<(usize, Value)> = g
                .nodes
                .iter()
                .enumerate()
                .filter_map(|(i, n)| n.props.iter().find(|(k, _)| *k == key).map(|(_, v)| (i, v.clone())))
                .filter(|(_, v)| matches!(v, Value::Int64(_) | Value::Bool(_) | Value::String(_)) || matches!(v, Value::Float64(f) if f.is_finite()))
                .collect();
            if !holders.is_empty() {
                let (i, v) = r.pick(&holders).clone();
                let mut tq = Query::empty(lang);
                tq.matches.push(qgen::MatchClause { optional: false, paths: vec![qgen::PathPat { start: qgen::NodePat { var: "n1".into(), label: None, props: vec![] }, steps: vec![] }] });
                tq.filter = Some(Pred::Cmp(Expr::Prop("n1".into(), key.clone()), Cmp::Eq, Expr::Lit(v.clone())));
                tq.ret.push(qgen::RetItem { agg: None, expr: Expr::Prop("n1".into(), "uid".into()), alias: "c1".into() });
                q = tq;
                target = Some((i, key, v));
                rep.count("history.targeted_at_index_maintenance", 1);
            }
        }
        let n_steps = 2 + r.below(4);
        let mut uid = 50i64;
        let (mut nn, mut ne) = (g.nodes.len(), g.edges.len());
        let steps: Vec<Vec<Op>> = (0..n_steps)
            .map(|_| {
                let mut ops: Vec<Op> = (0..1 + r.below(4))
                    .map(|_| {
                        let op = gen_op(&mut r, nn, ne, &mut uid);
                        match &op {
                            Op::AddNode(_) => nn += 1,
                            Op::AddEdge(_) => ne += 1,
                            _ => {}
                        }
                        op
                    })
                    .collect();
                if let Some((i, key, v)) = &target {
                    let op = match r.below(5) {
                        0 | 1 => Op::RewriteSame(*i, key.clone()),
                        2 => Op::RewriteSameByQuery(*i, key.clone()),
                        3 => Op::ThereAndBack(*i, key.clone(), Value::Int64(r.range(10, 15))),
                        _ => Op::SetNodeProp(*i, key.clone(), v.clone()),
                    };
                    let at = r.below(ops.len() + 1);
                    ops.insert(at, op);
                }
                ops
            })
            .collect();
        (g, q, keys, steps)
        };
        qgen::tick(&q.text());
        let res = run_history(&g, &q, &keys, &steps);
        if matches!(res[0].expected, Outcome::Error(_)) {
            rep.count("history.rejected", 1);
            continue;
        }
        rep.eval();
        rep.count("history.cases", 1);
        rep.count("history.executions", res.len() as u64 * 16);
        for st in &steps {
            for op in st {
                rep.count(&format!("history.op.{}", op.kind()), 1);
            }
        }
        // did the data changes change the answer at all? (non-trivial history)
        let changed = res.windows(2).any(|w| qgen::diff(&w[0].expected, &w[1].expected, false).is_some());
        if changed {
            rep.count("history.answer_changed_by_data_changes", 1);
            rep.nontrivial(hash_str(&format!("hist|{}", q.skeleton())));
        }
        let ordered = q.ordered();
        let (failure, static_only) = history_failure(&res, ordered);
        rep.count("history.steps_with_static_path_mismatch_only", static_only);
        let Some((_, class, kinds0)) = failure else { continue };
        let class = class.as_str();
        rep.count(&format!("history.mismatch.{class}"), 1);
        let pre = format!("{}|{class}|{}", q.skeleton(), kinds0.join(","));
        if let Some(sigs) = reduced_cache.get(&pre) {
            for s in sigs.clone() {
                rep.deviation(&s, json!({"query": q.text(), "case": case, "note": "same unreduced skeleton and class as an earlier reduced history"}));
            }
            continue;
        }
        // reduce: ops first, then (graph, query)
        let mut steps2 = steps.clone();
        let still = |g2: &GraphSpec, q2: &Query, st: &[Vec<Op>]| -> bool {
            let res = run_history(g2, q2, &keys, st);
            if matches!(res[0].expected, Outcome::Error(_)) {
                return false;
            }
            history_failure(&res, q2.ordered()).0.is_some_and(|(_, c, _)| c == class)
        };
        let mut used = 0usize;
        'ops: loop {
            for si in 0..steps2.len() {
                for oi in 0..steps2[si].len() {
                    if used >= budget {
                        break 'ops;
                    }
                    let mut c = steps2.clone();
                    c[si].remove(oi);
                    used += 1;
                    if still(&g, &q, &c) {
                        steps2 = c;
                        continue 'ops;
                    }
                }
            }
            break;
        }
        steps2.retain(|s| !s.is_empty());
        let st_final = steps2.clone();
        let mut fails = |g2: &GraphSpec, q2: &Query| still(g2, q2, &st_final);
        let (g2, q2, used2) = qgen::reduce(&g, &q, budget, &mut fails);
        rep.count("history.reducer_steps", (used + used2) as u64);
        let res2 = run_history(&g2, &q2, &keys, &steps2);
        let (step, class2, kinds) = history_failure(&res2, q2.ordered()).0.unwrap_or((0, class.to_string(), kinds0.clone()));
        let ci = HCFG.iter().position(|(n, _)| class2.starts_with(&format!("cfg={n}|"))).unwrap_or(N_SINGLE);
        let mut op_kinds: Vec<&str> = steps2.iter().flatten().map(|o| o.kind()).collect();
        op_kinds.sort();
        op_kinds.dedup();
        let mut sigs = Vec::new();
        for k in &kinds {
            // the predicate shape and the target name the path's weak spot; the operations and
            // the literal's type are in the detail
            let shape = cell_of(&q2).map(|(s, _, t)| format!("{s}|{t}")).unwrap_or_else(|| q2.skeleton());
            // NaN in the reduced witness is its own class: the zone map ignores NaN (finding F7), so a
            // history that overwrites a number with NaN shows that root cause as a "maintenance" difference
            let nan = qgen::graph_json(&g2).to_string().contains("NaN") || steps2.iter().flatten().any(|o| o.show().contains("NaN"));
            let sig = if nan { format!("c10:hist|{class2}|{shape}|{k}|nan_involved") } else { format!("c10:hist|{class2}|{shape}|{k}") };
            rep.deviation(
                &sig,
                json!({
                    "reduced_query": q2.text(), "reduced_graph": qgen::graph_json(&g2), "indexed_from_start": keys,
                    "history": steps2.iter().map(|s| s.iter().map(|o| o.show()).collect::<Vec<_>>()).collect::<Vec<_>>(),
                    "operation_kinds": op_kinds,
                    "deviates_after_step": step,
                    "expected_cold_baseline": res2.get(step).map(|x| x.expected.brief()),
                    "got_long_lived_session": res2.get(step).map(|x| x.per_cfg[ci].warm.brief()),
                    "got_same_history_replayed_on_new_database": res2.get(step).map(|x| x.per_cfg[ci].replayed.brief()),
                    "got_database_freshly_loaded_with_final_data_same_configuration": res2.get(step).map(|x| x.per_cfg[ci].fresh_final.brief()),
                    "original_query": q.text(), "case": case,
                }),
            );
            sigs.push(sig);
        }
        reduced_cache.insert(pre, sigs);
    }
}

/// Developer aid / manual replay: `C10_PLAY='gql|MATCH ...' vh C10 --seed N` prints the outcome
/// of the text on the seed's first random graph under the baseline and every variant.
fn play(spec: &str, seed: u64) -> ! {
    let (lang, text) = spec.split_once('|').expect("C10_PLAY=lang|query");
    let lang = if lang == "cypher" { Lang::Cypher } else { Lang::Gql };
    let mut r = Rng::new(seed, "c10-play", 0);
    let g = qgen::gen_graph(&mut r, 8, 12);
    if std::env::var("C10_PLAY_GRAPH").is_ok() {
        println!("{}", serde_json::to_string_pretty(&qgen::graph_json(&g)).unwrap());
    }
    let keys = ["k", "w", "z"];
    let b = qgen::build(&g, false);
    let base = run_text(&b.db, lang, text, BASE);
    println!("baseline: {}", base.brief());
    for v in VARIANTS {
        let vb = build_variant(&g, v.phys.factorized, v.idx, &keys);
        let got = run_text(&vb.db, lang, text, v.phys);
        let d = diff_kinds(&base, &got, false);
        if d.is_empty() {
            println!("{}: same", v.name);
        } else {
            println!("{}: {:?}\n{}", v.name, d, got.brief());
        }
    }
    std::process::exit(0)
}

/// Developer aid / manual replay of one random case: `C10_CASE=<n> vh C10 --tier T --seed S`
/// re-generates case n and runs the baseline and every variant several times.
fn replay_case(tier: Tier, seed: u64, case: u64) -> ! {
    let mut r = Rng::new(seed, "c10", case);
    let g = qgen::gen_graph(&mut r, tier.pick(12, 14), tier.pick(20, 26));
    let lang = if r.chance(0.6) { Lang::Gql } else { Lang::Cypher };
    let q = qgen::gen_query(&mut r, Profile::Physical, lang, false);
    let keys = idx_subset(&mut r, case);
    let text = q.text();
    println!("{} [{}] indexed {:?}\n{}", text, lang.name(), keys, serde_json::to_string(&qgen::graph_json(&g)).unwrap());
    for round in 0..5 {
        let base = baseline_outcome(&g, &q, &text);
        println!("round {round} baseline: {}", base.brief().replace('\n', ";"));
        for v in VARIANTS {
            let got = variant_outcome(&g, &q, &text, v, &keys);
            let d = diff_kinds(&base, &got, q.ordered());
            if !d.is_empty() {
                println!("   {}: {:?} {}", v.name, d, got.brief().replace('\n', ";"));
            }
        }
    }
    std::process::exit(0)
}

pub fn run(tier: Tier, seed: u64) -> ! {
    if let Ok(spec) = std::env::var("C10_PLAY") {
        play(&spec, seed);
    }
    if let Some(case) = std::env::var("C10_CASE").ok().and_then(|c| c.parse().ok()) {
        replay_case(tier, seed, case);
    }
    let mut rep = Report::new("C10", tier, seed, "exploration");
    rep.rule = "matrix: every (shape, literal type, target, path) cell over 16 fixed data sets; random: one random graph + one random GQL/Cypher text per case under 9 physical configurations + histories of data changes against one long-lived session. Non-trivial = the baseline returns rows and the text filters (random), or the data changes changed the answer (history); distinct by canonical query skeleton".into();
    rep.assumptions = vec![
        "oracle = same text on an equal graph with no property index, planner.no_zone_map / no_index_path / no_range_path set, factorized execution off, fresh database (cold plan cache)".into(),
        "the three planner flags only remove an optimisation; the generic path's own semantics are not judged here (C08/C11)".into(),
        "epoch-0 data through the direct API; MVCC visibility of index / range node lists is not observable at epoch 0".into(),
        "the plan cache is shared by all sessions of one database, so a cold cache means a freshly built database with the same data".into(),
        "rows compared bit-exactly as multisets, as sequences when the ORDER BY keys identify every row".into(),
    ];
    hooks::COUNT_HITS.store(true, Ordering::SeqCst);
    qgen::watchdog("C10", 120);
    matrix(&mut rep);
    factorized_set(&mut rep);
    stacked_filter_set(&mut rep);
    random_part(&mut rep, tier, seed);
    history_part(&mut rep, tier, seed);
    set_flags(BASE);
    for (site, n) in hooks::hits() {
        if site.starts_with("planner.") {
            rep.count(&format!("hook_hits.{site}"), n);
        }
    }
    rep.finish()
}
