//! C19 checks, part A: shortest paths, traversals, components, spanning trees.

use super::model::{Built, G, Out, W};
use super::oracle::{INF, P, feq};
use crate::c19_eng;
use grafeo_adapters::plugins::algorithms as alg;
use grafeo_common::types::NodeId;
use serde_json::json;
use std::collections::HashSet;

fn nid(b: &Built, path: &[NodeId]) -> Vec<i64> {
    path.iter().map(|x| b.idx.get(x).map_or(-1, |i| *i as i64)).collect()
}

/// Walk a node path edge by edge: endpoints, every hop an existing edge (cheapest parallel one),
/// returns the summed weight.
fn walk(b: &Built, me: &[Vec<f64>], path: &[NodeId], s: usize, t: usize) -> Result<f64, String> {
    if path.is_empty() {
        return Err("empty path".into());
    }
    let mut ix = Vec::new();
    for x in path {
        match b.idx.get(x) {
            Some(i) => ix.push(*i),
            None => return Err(format!("unknown node {x:?}")),
        }
    }
    if ix[0] != s {
        return Err("does not start at source".into());
    }
    if *ix.last().unwrap() != t {
        return Err("does not end at target".into());
    }
    let mut sum = 0.0;
    for h in ix.windows(2) {
        if me[h[0]][h[1]] == INF {
            return Err(format!("no edge {}->{}", h[0], h[1]));
        }
        sum += me[h[0]][h[1]];
    }
    Ok(sum)
}

/// judge one (distance, path) answer for the pair (s,t) against the oracle distance
#[allow(clippy::too_many_arguments)]
fn judge(
    out: &mut Out,
    b: &Built,
    me: &[Vec<f64>],
    algo: &'static str,
    s: usize,
    t: usize,
    oracle: f64,
    dist: Option<f64>,
    path: Option<Option<Vec<NodeId>>>,
) {
    let ctx = |extra: serde_json::Value| json!({"source": s, "target": t, "oracle_distance": if oracle == INF { json!("unreachable") } else { json!(oracle) }, "got": extra});
    match (oracle == INF, dist) {
        (true, Some(d)) => out.fail(algo, "distance_to_unreachable_node", ctx(json!(d))),
        (false, None) => out.fail(algo, "reachable_node_reported_unreachable", ctx(json!(null))),
        (false, Some(d)) if !feq(d, oracle) => {
            out.fail(algo, if d > oracle { "distance_not_minimal" } else { "distance_below_any_real_path" }, ctx(json!(d)));
        }
        _ => {}
    }
    if let Some(p) = path {
        match (oracle == INF, p) {
            (true, Some(p)) => out.fail(algo, "path_to_unreachable_node", ctx(json!(nid(b, &p)))),
            (false, None) => out.fail(algo, "no_path_to_reachable_node", ctx(json!(null))),
            (false, Some(p)) => match walk(b, me, &p, s, t) {
                Err(why) => out.fail(algo, "path_not_real", ctx(json!({"path": nid(b, &p), "why": why}))),
                Ok(sum) => {
                    let claimed = dist.unwrap_or(oracle);
                    if !feq(sum, claimed) {
                        out.fail(algo, "path_weight_differs_from_distance", ctx(json!({"path": nid(b, &p), "walked": sum, "claimed": claimed})));
                    }
                }
            },
            _ => {}
        }
    }
}

pub fn check_sp(g: &G, b: &Built, p: &P, out: &mut Out) {
    let n = p.n;
    let wp = if g.use_w { Some(W) } else { None };
    let nonneg = p.w.iter().all(|w| *w >= 0.0);
    let (fwd, anyneg) = p.fw();
    let me = p.min_edge();
    let st = &b.store;
    let mut dj: Vec<Vec<Option<f64>>> = vec![vec![None; n]; n];
    let mut have_dj = false;

    if nonneg {
        have_dj = true;
        for s in 0..n {
            let (od, _) = p.sssp(s);
            for t in 0..n {
                assert!(feq(od[t], fwd[s][t]) || (od[t] == INF && fwd[s][t] == INF), "harness oracle self-check: DP {} vs FW {} on {g:?}", od[t], fwd[s][t]);
            }
            if let Some(r) = c19_eng!(out, "dijkstra", alg::dijkstra(st, b.ids[s], wp)) {
                let keys: HashSet<NodeId> = r.distances.keys().copied().collect();
                if keys.iter().any(|k| !b.idx.contains_key(k)) {
                    out.fail("dijkstra", "distance_for_unknown_node", json!({"source": s}));
                }
                for t in 0..n {
                    let d = r.distance_to(b.ids[t]);
                    dj[s][t] = d;
                    let path = c19_eng!(out, "dijkstra", r.path_to(b.ids[s], b.ids[t]));
                    judge(out, b, &me, "dijkstra", s, t, od[t], d, path);
                }
            }
            for t in 0..n {
                if let Some(r) = c19_eng!(out, "dijkstra_path", alg::dijkstra_path(st, b.ids[s], b.ids[t], wp)) {
                    let (d, pa) = match r {
                        Some((d, pa)) => (Some(d), Some(pa)),
                        None => (None, None),
                    };
                    judge(out, b, &me, "dijkstra_path", s, t, od[t], d, Some(pa));
                    if have_dj && !agree(d, dj[s][t]) {
                        out.fail("sp_agreement", "dijkstra_vs_dijkstra_path", json!({"s": s, "t": t, "dijkstra": dj[s][t], "dijkstra_path": d}));
                    }
                }
                // A* with the zero heuristic
                if let Some(r) = c19_eng!(out, "astar_zero_heuristic", alg::astar(st, b.ids[s], b.ids[t], wp, |_| 0.0)) {
                    let (d, pa) = match r {
                        Some((d, pa)) => (Some(d), Some(pa)),
                        None => (None, None),
                    };
                    judge(out, b, &me, "astar_zero_heuristic", s, t, od[t], d, Some(pa));
                    if !agree(d, dj[s][t]) {
                        out.fail("sp_agreement", "dijkstra_vs_astar", json!({"s": s, "t": t, "dijkstra": dj[s][t], "astar": d}));
                    }
                }
                // A* with an admissible (not necessarily consistent) heuristic: a per-node
                // fraction {0, 1/2, 1} of the true remaining distance
                let hv: Vec<f64> = (0..n)
                    .map(|v| {
                        if v == t {
                            0.0
                        } else if fwd[v][t] == INF {
                            1000.0
                        } else {
                            let k = (g.hash() >> ((v * 7 + t * 3) % 50)) % 3;
                            fwd[v][t] * (k as f64) * 0.5
                        }
                    })
                    .collect();
                let h = |x: NodeId| b.idx.get(&x).map_or(0.0, |i| hv[*i]);
                if let Some(r) = c19_eng!(out, "astar_admissible_heuristic", alg::astar(st, b.ids[s], b.ids[t], wp, h)) {
                    let (d, pa) = match r {
                        Some((d, pa)) => (Some(d), Some(pa)),
                        None => (None, None),
                    };
                    judge(out, b, &me, "astar_admissible_heuristic", s, t, od[t], d, Some(pa));
                    if !agree(d, dj[s][t]) {
                        out.fail("sp_agreement", "dijkstra_vs_astar", json!({"s": s, "t": t, "dijkstra": dj[s][t], "astar_h": d}));
                    }
                }
            }
        }
    } else {
        out.note("sp.negative_weights_dijkstra_astar_skipped");
    }

    // Bellman–Ford: every source
    for s in 0..n {
        let (od, neg) = p.sssp(s);
        if let Some(r) = c19_eng!(out, "bellman_ford", alg::bellman_ford(st, b.ids[s], wp)) {
            if r.has_negative_cycle != neg {
                out.fail(
                    "bellman_ford",
                    if neg { "negative_cycle_missed" } else { "negative_cycle_false_alarm" },
                    json!({"source": s, "oracle_reachable_negative_cycle": neg, "got": r.has_negative_cycle}),
                );
            }
            if !neg && !r.has_negative_cycle {
                if r.distances.keys().any(|k| !b.idx.contains_key(k)) {
                    out.fail("bellman_ford", "distance_for_unknown_node", json!({"source": s}));
                }
                for t in 0..n {
                    let d = r.distances.get(&b.ids[t]).copied();
                    let path = c19_eng!(out, "bellman_ford", r.path_to(b.ids[t]));
                    judge(out, b, &me, "bellman_ford", s, t, od[t], d, path);
                    if have_dj && !agree(d, dj[s][t]) {
                        out.fail("sp_agreement", "dijkstra_vs_bellman_ford", json!({"s": s, "t": t, "dijkstra": dj[s][t], "bellman_ford": d}));
                    }
                }
            } else {
                out.note("sp.bellman_ford_negative_cycle_cases");
            }
        }
    }

    // Floyd–Warshall: all pairs
    if let Some(r) = c19_eng!(out, "floyd_warshall", alg::floyd_warshall(st, wp)) {
        if r.has_negative_cycle() != anyneg {
            out.fail(
                "floyd_warshall",
                if anyneg { "negative_cycle_missed" } else { "negative_cycle_false_alarm" },
                json!({"oracle": anyneg, "got": r.has_negative_cycle()}),
            );
        }
        let mut nodes = r.nodes().to_vec();
        nodes.sort_unstable();
        if nodes != b.ids {
            out.fail("floyd_warshall", "node_list_mismatch", json!({"got": nid(b, &nodes)}));
        }
        if !anyneg && !r.has_negative_cycle() {
            for s in 0..n {
                for t in 0..n {
                    let d = r.distance(b.ids[s], b.ids[t]);
                    let path = c19_eng!(out, "floyd_warshall", r.path(b.ids[s], b.ids[t]));
                    judge(out, b, &me, "floyd_warshall", s, t, fwd[s][t], d, path);
                    if have_dj && !agree(d, dj[s][t]) {
                        out.fail("sp_agreement", "dijkstra_vs_floyd_warshall", json!({"s": s, "t": t, "dijkstra": dj[s][t], "floyd_warshall": d}));
                    }
                }
            }
        } else {
            out.note("sp.floyd_warshall_negative_cycle_cases");
        }
    }

    // a source / target that does not exist (documented: empty / None)
    let mut ghosts = vec![NodeId::new(10_000)];
    ghosts.extend(b.dead.iter().copied().take(1));
    for ghost in ghosts {
        if let Some(r) = c19_eng!(out, "dijkstra", alg::dijkstra(st, ghost, wp)) {
            if !r.distances.is_empty() {
                out.fail("dijkstra", "nonexistent_source_has_distances", json!({"n": r.distances.len()}));
            }
        }
        if let Some(r) = c19_eng!(out, "bellman_ford", alg::bellman_ford(st, ghost, wp)) {
            if !r.distances.is_empty() || r.has_negative_cycle {
                out.fail("bellman_ford", "nonexistent_source_has_result", json!({"n": r.distances.len()}));
            }
        }
        if n > 0 {
            if let Some(r) = c19_eng!(out, "dijkstra_path", alg::dijkstra_path(st, ghost, b.ids[0], wp)) {
                if r.is_some() {
                    out.fail("dijkstra_path", "nonexistent_source_has_path", json!({}));
                }
            }
            if let Some(r) = c19_eng!(out, "astar_zero_heuristic", alg::astar(st, b.ids[0], ghost, wp, |_| 0.0)) {
                if r.is_some() {
                    out.fail("astar_zero_heuristic", "nonexistent_target_has_path", json!({}));
                }
            }
        }
    }
}

fn agree(a: Option<f64>, b: Option<f64>) -> bool {
    match (a, b) {
        (None, None) => true,
        (Some(x), Some(y)) => feq(x, y),
        _ => false,
    }
}

// ------------------------------------------------------------------------------------------

pub fn check_trav(_g: &G, b: &Built, p: &P, out: &mut Out) {
    let n = p.n;
    let st = &b.store;
    let reach = p.reach();
    let hops = p.hops();
    let ix = |v: &[NodeId]| -> Vec<i64> { nid(b, v) };
    for s in 0..n {
        let want: HashSet<usize> = (0..n).filter(|t| reach[s][*t]).collect();
        // BFS
        if let Some(v) = c19_eng!(out, "bfs", alg::bfs(st, b.ids[s])) {
            let got = ix(&v);
            let set: HashSet<usize> = got.iter().filter(|x| **x >= 0).map(|x| *x as usize).collect();
            if got.iter().any(|x| *x < 0) {
                out.fail("bfs", "unknown_node_visited", json!({"start": s, "got": got}));
            }
            if set.len() != got.len() {
                out.fail("bfs", "node_visited_twice", json!({"start": s, "got": got}));
            }
            if set != want {
                out.fail("bfs", if want.is_subset(&set) { "unreachable_node_visited" } else { "reachable_node_not_visited" }, json!({"start": s, "got": got, "reachable": want.iter().collect::<Vec<_>>()}));
            } else {
                if got.first() != Some(&(s as i64)) {
                    out.fail("bfs", "start_not_first", json!({"start": s, "got": got}));
                }
                let ds: Vec<usize> = got.iter().map(|x| hops[s][*x as usize].unwrap()).collect();
                if ds.windows(2).any(|w| w[0] > w[1]) {
                    out.fail("bfs", "not_in_breadth_first_order", json!({"start": s, "got": got, "hop_distances": ds}));
                }
            }
        }
        // BFS layers
        if let Some(layers) = c19_eng!(out, "bfs_layers", alg::bfs_layers(st, b.ids[s])) {
            let maxd = want.iter().map(|t| hops[s][*t].unwrap()).max().unwrap_or(0);
            let mut ok = layers.len() == maxd + 1;
            for (i, l) in layers.iter().enumerate() {
                let got = ix(l);
                let set: HashSet<i64> = got.iter().copied().collect();
                let exp: HashSet<i64> = (0..n).filter(|t| hops[s][*t] == Some(i)).map(|t| t as i64).collect();
                if set.len() != got.len() || set != exp {
                    ok = false;
                }
            }
            if !ok {
                out.fail("bfs_layers", "layer_is_not_the_set_at_that_distance", json!({"start": s, "got": layers.iter().map(|l| ix(l)).collect::<Vec<_>>()}));
            }
        }
        // DFS (post-order)
        if let Some(v) = c19_eng!(out, "dfs", alg::dfs(st, b.ids[s])) {
            let got = ix(&v);
            let set: HashSet<usize> = got.iter().filter(|x| **x >= 0).map(|x| *x as usize).collect();
            if got.iter().any(|x| *x < 0) {
                out.fail("dfs", "unknown_node_visited", json!({"start": s, "got": got}));
            }
            if set.len() != got.len() {
                out.fail("dfs", "node_visited_twice", json!({"start": s, "got": got}));
            } else if set != want {
                out.fail("dfs", if want.is_subset(&set) { "unreachable_node_visited" } else { "reachable_node_not_visited" }, json!({"start": s, "got": got}));
            } else {
                if got.last() != Some(&(s as i64)) {
                    out.fail("dfs", "start_not_finished_last", json!({"start": s, "got": got}));
                }
                if let Some(bad) = postorder_violation(p, &reach, &got) {
                    out.fail("dfs", "not_a_depth_first_postorder", json!({"start": s, "got": got, "edge": bad}));
                }
            }
        }
    }
    // dfs_all
    if let Some(v) = c19_eng!(out, "dfs_all", alg::dfs_all(st)) {
        let got = ix(&v);
        let set: HashSet<i64> = got.iter().copied().collect();
        let all: HashSet<i64> = (0..n as i64).collect();
        if set != all {
            out.fail("dfs_all", "not_every_node_visited", json!({"got": got}));
        }
        if set.len() != got.len() {
            out.fail("dfs_all", "node_visited_twice", json!({"got": got, "nodes": n}));
        } else if set == all {
            // documented: "Returns nodes in reverse post-order (useful for topological sort)"
            let rev: Vec<i64> = got.iter().rev().copied().collect();
            if postorder_violation(p, &reach, &rev).is_some() {
                let is_post = postorder_violation(p, &reach, &got).is_none();
                out.fail(
                    "dfs_all",
                    if is_post { "postorder_returned_where_reverse_postorder_documented" } else { "neither_postorder_nor_reverse_postorder" },
                    json!({"got": got}),
                );
            }
        }
    }
    // nonexistent start
    let ghost = b.dead.first().copied().unwrap_or(NodeId::new(10_000));
    if let Some(v) = c19_eng!(out, "bfs", alg::bfs(st, ghost)) {
        if !v.is_empty() {
            out.fail("bfs", "nonexistent_start_visits_nodes", json!({"got": ix(&v)}));
        }
    }
    if let Some(v) = c19_eng!(out, "dfs", alg::dfs(st, ghost)) {
        if !v.is_empty() {
            out.fail("dfs", "nonexistent_start_visits_nodes", json!({"got": ix(&v)}));
        }
    }
    if let Some(v) = c19_eng!(out, "bfs_layers", alg::bfs_layers(st, ghost)) {
        if !v.is_empty() {
            out.fail("bfs_layers", "nonexistent_start_visits_nodes", json!({}));
        }
    }
}

/// In a depth-first finishing order, an edge u->v (u != v) may have v finish after u only when
/// v is an ancestor of u, hence v reaches u. Returns a violating edge.
fn postorder_violation(p: &P, reach: &[Vec<bool>], order: &[i64]) -> Option<(usize, usize)> {
    let mut pos = vec![usize::MAX; p.n];
    for (i, x) in order.iter().enumerate() {
        pos[*x as usize] = i;
    }
    for &(u, v) in &p.e {
        if u == v || pos[u] == usize::MAX {
            continue;
        }
        if pos[v] == usize::MAX {
            return Some((u, v));
        }
        if pos[v] > pos[u] && !reach[v][u] {
            return Some((u, v));
        }
    }
    None
}

// ------------------------------------------------------------------------------------------

pub fn check_comp(_g: &G, b: &Built, p: &P, out: &mut Out) {
    let n = p.n;
    let st = &b.store;
    let reach = p.reach();
    let weak = p.weak(None, None);
    let nweak = p.n_weak(None, None);

    let judge_partition = |out: &mut Out, algo: &'static str, m: &grafeo_common::utils::hash::FxHashMap<NodeId, u64>, same: &dyn Fn(usize, usize) -> bool| {
        let show: Vec<(i64, u64)> = {
            let mut v: Vec<(i64, u64)> = m.iter().map(|(k, c)| (b.idx.get(k).map_or(-1, |i| *i as i64), *c)).collect();
            v.sort_unstable();
            v
        };
        if m.len() != n || b.ids.iter().any(|i| !m.contains_key(i)) {
            out.fail(algo, "not_every_node_assigned", json!({"got": show}));
            return;
        }
        for x in 0..n {
            for y in x + 1..n {
                let got = m[&b.ids[x]] == m[&b.ids[y]];
                if got != same(x, y) {
                    out.fail(algo, if got { "distinct_components_merged" } else { "one_component_split" }, json!({"x": x, "y": y, "got": show}));
                    return;
                }
            }
        }
    };

    if let Some(m) = c19_eng!(out, "connected_components", alg::connected_components(st)) {
        judge_partition(out, "connected_components", &m, &|x, y| weak[x] == weak[y]);
    }
    if let Some(c) = c19_eng!(out, "connected_component_count", alg::connected_component_count(st)) {
        if c != nweak {
            out.fail("connected_component_count", "count_mismatch", json!({"got": c, "oracle": nweak}));
        }
    }
    let nscc = {
        let mut reps = 0;
        for x in 0..n {
            if !(0..x).any(|y| reach[x][y] && reach[y][x]) {
                reps += 1;
            }
        }
        reps
    };
    if let Some(m) = c19_eng!(out, "strongly_connected_components", alg::strongly_connected_components(st)) {
        judge_partition(out, "strongly_connected_components", &m, &|x, y| reach[x][y] && reach[y][x]);
    }
    if let Some(c) = c19_eng!(out, "strongly_connected_component_count", alg::strongly_connected_component_count(st)) {
        if c != nscc {
            out.fail("strongly_connected_component_count", "count_mismatch", json!({"got": c, "oracle": nscc}));
        }
    }
    let acyclic = !p.has_cycle();
    if let Some(r) = c19_eng!(out, "topological_sort", alg::topological_sort(st)) {
        match (acyclic, r) {
            (true, None) => out.fail("topological_sort", "no_order_for_acyclic_graph", json!({})),
            (false, Some(o)) => out.fail("topological_sort", "order_for_cyclic_graph", json!({"got": nid(b, &o)})),
            (true, Some(o)) => {
                let got = nid(b, &o);
                let set: HashSet<i64> = got.iter().copied().collect();
                if got.len() != n || set.len() != n || got.iter().any(|x| *x < 0) {
                    out.fail("topological_sort", "order_is_not_a_permutation", json!({"got": got}));
                } else {
                    let mut pos = vec![0; n];
                    for (i, x) in got.iter().enumerate() {
                        pos[*x as usize] = i;
                    }
                    if let Some(e) = p.e.iter().find(|(u, v)| pos[*u] >= pos[*v]) {
                        out.fail("topological_sort", "edge_points_backwards", json!({"got": got, "edge": e}));
                    }
                }
            }
            _ => {}
        }
    }
    if let Some(d) = c19_eng!(out, "is_dag", alg::is_dag(st)) {
        if d != acyclic {
            out.fail("is_dag", "wrong_answer", json!({"got": d, "oracle": acyclic}));
        }
    }
    // UnionFind driven by the edge list against naive relabelling
    if n > 0 {
        out.call("union_find");
        let r = crate::util::catch(|| {
            let mut uf = alg::UnionFind::new(n);
            let mut lab: Vec<usize> = (0..n).collect();
            for &(u, v) in &p.e {
                let exp = lab[u] != lab[v];
                let got = uf.union(u, v);
                if got != exp {
                    return Err(("union_return_value_wrong", json!({"u": u, "v": v, "got": got})));
                }
                let (a, c) = (lab[u], lab[v]);
                for l in lab.iter_mut() {
                    if *l == c {
                        *l = a;
                    }
                }
            }
            for x in 0..n {
                for y in 0..n {
                    if uf.connected(x, y) != (lab[x] == lab[y]) {
                        return Err(("connected_wrong", json!({"x": x, "y": y})));
                    }
                    if (uf.find(x) == uf.find(y)) != (lab[x] == lab[y]) {
                        return Err(("find_wrong", json!({"x": x, "y": y})));
                    }
                }
            }
            Ok(())
        });
        match r {
            Ok(Ok(())) => {}
            Ok(Err((c, d))) => out.fail("union_find", c, d),
            Err(pn) => out.fail("union_find", &format!("panic@{}", pn.site), json!({"at": pn.at, "msg": pn.msg})),
        }
    }
}

// ------------------------------------------------------------------------------------------

pub fn check_mst(g: &G, b: &Built, p: &P, out: &mut Out) {
    let n = p.n;
    let st = &b.store;
    let wp = if g.use_w { Some(W) } else { None };
    let weak = p.weak(None, None);
    let nweak = p.n_weak(None, None);

    let judge_tree = |out: &mut Out, algo: &'static str, r: &alg::MstResult, inside: &[bool], what: serde_json::Value| {
        let show: Vec<serde_json::Value> = r
            .edges
            .iter()
            .map(|(s, d, e, w)| json!([b.idx.get(s).map_or(-1, |i| *i as i64), b.idx.get(d).map_or(-1, |i| *i as i64), b.eidx.get(e).map_or(-1, |i| *i as i64), w]))
            .collect();
        let ctx = |x: serde_json::Value| json!({"call": what, "tree_edges[src,dst,edge#,w]": show, "total_weight": r.total_weight, "info": x});
        let mut uf: Vec<usize> = (0..n).collect();
        fn find(uf: &mut [usize], mut x: usize) -> usize {
            while uf[x] != x {
                x = uf[x];
            }
            x
        }
        let mut seen = HashSet::new();
        let mut sum = 0.0;
        for (s, d, e, w) in &r.edges {
            let Some(&k) = b.eidx.get(e) else {
                out.fail(algo, "tree_edge_is_not_a_graph_edge", ctx(json!(null)));
                return;
            };
            let (eu, ev) = p.e[k];
            let (Some(&si), Some(&di)) = (b.idx.get(s), b.idx.get(d)) else {
                out.fail(algo, "tree_edge_is_not_a_graph_edge", ctx(json!(null)));
                return;
            };
            if !((si == eu && di == ev) || (si == ev && di == eu)) {
                out.fail(algo, "tree_edge_endpoints_differ_from_edge_id", ctx(json!({"edge#": k})));
                return;
            }
            if !feq(*w, p.w[k]) {
                out.fail(algo, "tree_edge_weight_wrong", ctx(json!({"edge#": k, "real_weight": p.w[k]})));
            }
            if !seen.insert(k) {
                out.fail(algo, "edge_used_twice", ctx(json!({"edge#": k})));
                return;
            }
            if !inside[eu] || !inside[ev] {
                out.fail(algo, "edge_outside_component", ctx(json!({"edge#": k})));
                return;
            }
            let (ra, rb) = (find(&mut uf, eu), find(&mut uf, ev));
            if ra == rb {
                out.fail(algo, "contains_cycle", ctx(json!({"edge#": k})));
                return;
            }
            uf[ra] = rb;
            sum += p.w[k];
        }
        if !feq(sum, r.total_weight) {
            out.fail(algo, "total_weight_is_not_sum_of_edges", ctx(json!({"sum": sum})));
        }
        let (best, need, enumerated) = p.msf(inside);
        if r.edges.len() != need {
            out.fail(algo, "does_not_span_every_component", ctx(json!({"edges": r.edges.len(), "needed": need})));
            return;
        }
        if !feq(sum, best) {
            out.fail(algo, "weight_not_minimal", ctx(json!({"tree_weight": sum, "minimum": best, "minimum_by_enumeration": enumerated})));
        }
    };

    let all = vec![true; n];
    let mut kruskal_w = None;
    if let Some(r) = c19_eng!(out, "kruskal", alg::kruskal(st, wp)) {
        judge_tree(out, "kruskal", &r, &all, json!("kruskal"));
        kruskal_w = Some(r.total_weight);
        if p.msf(&all).2 {
            out.note("mst.minimum_by_enumeration");
        } else {
            out.note("mst.minimum_by_own_kruskal");
        }
    }
    let mut starts: Vec<Option<usize>> = vec![None];
    starts.extend((0..n).map(Some));
    for s in starts {
        let start = s.map(|i| b.ids[i]);
        if let Some(r) = c19_eng!(out, "prim", alg::prim(st, wp, start)) {
            if n == 0 {
                if !r.edges.is_empty() {
                    out.fail("prim", "edges_in_empty_graph", json!({}));
                }
                continue;
            }
            let s0 = s.unwrap_or(0);
            let inside: Vec<bool> = (0..n).map(|v| weak[v] == weak[s0]).collect();
            judge_tree(out, "prim", &r, &inside, json!({"prim_start": s}));
            if nweak == 1 {
                if let Some(kw) = kruskal_w {
                    out.note(if feq(kw, r.total_weight) { "mst.kruskal_eq_prim_on_connected" } else { "mst.kruskal_ne_prim_on_connected" });
                }
            }
        }
    }
    let ghost = b.dead.first().copied().unwrap_or(NodeId::new(10_000));
    if let Some(r) = c19_eng!(out, "prim", alg::prim(st, wp, Some(ghost))) {
        if !r.edges.is_empty() {
            out.fail("prim", "nonexistent_start_has_tree", json!({}));
        }
    }
}
