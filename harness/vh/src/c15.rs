//! C15 — every compression codec is lossless.
//! Round-trip / random-access / bytes round-trip monitors; the oracle is the input sequence.

use crate::report::{Report, Tier};
use crate::rng::{Rng, hash_str};
use crate::util::catch;
use grafeo_common::types::{EdgeId, NodeId, PropertyKey, Value};
use grafeo_core::ChunkedAdjacency;
use grafeo_core::graph::lpg::PropertyStorage;
use grafeo_core::storage::codec::{CodecSelector, TypeSpecificCompressor};
use grafeo_core::storage::{
    BitPackedInts, BitVector, DeltaBitPacked, DeltaEncoding, DictionaryBuilder, EliasFano, RunLengthEncoding,
    SignedRunLengthEncoding, SuccinctBitVector, WaveletTree,
};
use serde_json::json;

const LENS: &[usize] = &[0, 1, 2, 3, 31, 32, 33, 63, 64, 65, 127, 128, 129, 255, 256, 257, 511, 512, 513, 1023, 1024, 1025];

#[derive(Clone, Copy, Debug)]
enum Shape {
    Zeros,
    AllEqual,
    Increasing,
    StepBig,
    Alternating,
    Extremes,
    RandomSmall,
    RandomWide,
    Runs,
    RandomWidth(u8),
}

impl Shape {
    fn name(self) -> String {
        match self {
            Shape::RandomWidth(w) => format!("width{w}"),
            s => format!("{s:?}").to_lowercase(),
        }
    }
}

fn gen_u64(r: &mut Rng, shape: Shape, n: usize) -> Vec<u64> {
    match shape {
        Shape::Zeros => vec![0; n],
        Shape::AllEqual => {
            let v = *r.pick(&[1u64, 7, 255, 1 << 32, u64::MAX, u64::MAX - 1, 1 << 63]);
            vec![v; n]
        }
        Shape::Increasing => {
            let start = r.below(1000) as u64;
            (0..n as u64).map(|i| start + i).collect()
        }
        Shape::StepBig => {
            let step = u64::MAX / (n.max(1) as u64 + 1);
            (0..n as u64).map(|i| i * step).collect()
        }
        Shape::Alternating => (0..n).map(|i| if i % 2 == 0 { 0 } else { u64::MAX }).collect(),
        Shape::Extremes => (0..n).map(|_| *r.pick(&[0u64, 1, u64::MAX, u64::MAX - 1, 1 << 63, (1 << 63) - 1, i64::MAX as u64])).collect(),
        Shape::RandomSmall => (0..n).map(|_| r.below(16) as u64).collect(),
        Shape::RandomWide => (0..n).map(|_| r.next_u64()).collect(),
        Shape::Runs => {
            let mut v = Vec::with_capacity(n);
            while v.len() < n {
                let val = r.below(5) as u64 * 1000;
                let len = 1 + r.below(70);
                for _ in 0..len.min(n - v.len()) {
                    v.push(val);
                }
            }
            v
        }
        Shape::RandomWidth(w) => {
            let mask = if w >= 64 { u64::MAX } else if w == 0 { 0 } else { (1u64 << w) - 1 };
            let mut v: Vec<u64> = (0..n).map(|_| r.next_u64() & mask).collect();
            if n > 0 && w > 0 {
                v[0] = mask; // make sure the width is really reached
            }
            v
        }
    }
}

fn to_i64(v: &[u64], shape: Shape, r: &mut Rng) -> Vec<i64> {
    match shape {
        Shape::Alternating => (0..v.len()).map(|i| if i % 2 == 0 { i64::MIN } else { i64::MAX }).collect(),
        Shape::Extremes => (0..v.len()).map(|_| *r.pick(&[0i64, -1, 1, i64::MIN, i64::MAX, i64::MIN + 1, i64::MAX - 1])).collect(),
        _ => v.iter().map(|x| *x as i64).collect(),
    }
}

/// Input class of an unsigned sequence by the features codecs are sensitive to.
fn class_u64(v: &[u64]) -> String {
    let lc = match v.len() { 0 => "len0", 1 => "len1", _ => "lenN" };
    let m = v.iter().copied().max().unwrap_or(0);
    let mb = if v.is_empty() { "none" } else if m == 0 { "max=0" } else if m < (1 << 32) { "max<2^32" } else if m < (1 << 63) { "max<2^63" } else { "max>=2^63" };
    format!("{mb}|{lc}")
}
fn class_i64(v: &[i64]) -> String {
    let lc = match v.len() { 0 => "len0", 1 => "len1", _ => "lenN" };
    let ov = v.windows(2).any(|w| w[1].checked_sub(w[0]).is_none());
    let ext = v.iter().any(|x| *x == i64::MIN || *x == i64::MAX);
    format!("{}|{}|{lc}", if ov { "delta_overflows" } else { "delta_fits" }, if ext { "has_extreme" } else { "no_extreme" })
}

struct Ctx<'a> {
    rep: &'a mut Report,
    class: String,
}

impl Ctx<'_> {
    fn fail(&mut self, codec: &str, clause: &str, detail: serde_json::Value) {
        self.rep.deviation(&format!("codec:{codec}.{clause}|{}", self.class), detail);
    }
    /// run a codec check that returns Err(clause, detail) on mismatch; panics are caught
    fn run(&mut self, codec: &str, f: impl FnOnce() -> Result<(), (String, serde_json::Value)>) {
        self.rep.eval();
        self.rep.count(&format!("codec.{codec}"), 1);
        match catch(f) {
            Ok(Ok(())) => {}
            Ok(Err((clause, d))) => self.fail(codec, &clause, d),
            Err(p) => self.fail(codec, &format!("panic@{}", p.site), json!({"at": p.at, "msg": p.msg})),
        }
    }
}

fn mism<T: std::fmt::Debug + PartialEq>(clause: &str, exp: &[T], got: &[T]) -> Result<(), (String, serde_json::Value)> {
    if exp == got {
        return Ok(());
    }
    let idx = exp.iter().zip(got.iter()).position(|(a, b)| a != b).unwrap_or(exp.len().min(got.len()));
    Err((
        clause.to_string(),
        json!({"len_expected": exp.len(), "len_got": got.len(), "first_diff": idx,
               "expected": format!("{:?}", exp.get(idx)), "got": format!("{:?}", got.get(idx)),
               "input_head": format!("{:?}", &exp[..exp.len().min(8)])}),
    ))
}

fn check_u64_codecs(c: &mut Ctx, v: &[u64], profile_dev: bool) {
    let sorted = {
        let mut s = v.to_vec();
        s.sort_unstable();
        s
    };
    // delta (documented precondition: sorted ascending)
    c.run("delta", || {
        let e = DeltaEncoding::encode(&sorted);
        mism("decode", &sorted, &e.decode())?;
        if e.len() != sorted.len() {
            return Err(("len".into(), json!({"len": e.len()})));
        }
        let b = e.to_bytes();
        let e2 = DeltaEncoding::from_bytes(&b).map_err(|x| ("from_bytes_err".to_string(), json!({"err": x.to_string()})))?;
        mism("bytes_roundtrip", &sorted, &e2.decode())
    });
    // bit packing
    c.run("bitpack", || {
        let e = BitPackedInts::pack(v);
        mism("unpack", v, &e.unpack())?;
        for (i, x) in v.iter().enumerate() {
            if e.get(i) != Some(*x) {
                return Err(("get".into(), json!({"index": i, "expected": x, "got": e.get(i), "bits": e.bits_per_value()})));
            }
        }
        if e.get(v.len()).is_some() {
            return Err(("get_past_end".into(), json!({"len": v.len()})));
        }
        let e2 = BitPackedInts::from_bytes(&e.to_bytes()).map_err(|x| ("from_bytes_err".to_string(), json!({"err": x.to_string()})))?;
        mism("bytes_roundtrip", v, &e2.unpack())
    });
    // explicit widths >= needed
    let need = v.iter().copied().max().map_or(0, BitPackedInts::bits_needed);
    for w in [need, need.saturating_add(1).min(64), 64] {
        if w == 0 && v.iter().any(|x| *x != 0) {
            continue;
        }
        c.run("bitpack_with_bits", || {
            let e = BitPackedInts::pack_with_bits(v, w);
            mism("unpack", v, &e.unpack())?;
            for (i, x) in v.iter().enumerate() {
                if e.get(i) != Some(*x) {
                    return Err(("get".into(), json!({"index": i, "expected": x, "got": e.get(i), "bits": w})));
                }
            }
            let e2 = BitPackedInts::from_bytes(&e.to_bytes()).map_err(|x| ("from_bytes_err".to_string(), json!({"err": x.to_string()})))?;
            mism("bytes_roundtrip", v, &e2.unpack())
        });
    }
    // delta + bitpack (sorted)
    c.run("delta_bitpack", || {
        let e = DeltaBitPacked::encode(&sorted);
        mism("decode", &sorted, &e.decode())?;
        if e.len() != sorted.len() {
            return Err(("len".into(), json!({"len": e.len(), "expected": sorted.len()})));
        }
        let e2 = DeltaBitPacked::from_bytes(&e.to_bytes()).map_err(|x| ("from_bytes_err".to_string(), json!({"err": x.to_string()})))?;
        mism("bytes_roundtrip", &sorted, &e2.decode())
    });
    // run length
    c.run("rle", || {
        let e = RunLengthEncoding::encode(v);
        mism("decode", v, &e.decode())?;
        if e.total_count() != v.len() {
            return Err(("total_count".into(), json!({"got": e.total_count()})));
        }
        let it: Vec<u64> = e.iter().collect();
        mism("iter", v, &it)?;
        for (i, x) in v.iter().enumerate() {
            if e.get(i) != Some(*x) {
                return Err(("get".into(), json!({"index": i, "expected": x, "got": e.get(i)})));
            }
        }
        if e.get(v.len()).is_some() {
            return Err(("get_past_end".into(), json!({})));
        }
        let e2 = RunLengthEncoding::from_bytes(&e.to_bytes()).map_err(|x| ("from_bytes_err".to_string(), json!({"err": x.to_string()})))?;
        mism("bytes_roundtrip", v, &e2.decode())
    });
    // selector + type specific compressor
    c.run("selector_integers", || {
        let _codec = CodecSelector::select_for_integers(v);
        let d = TypeSpecificCompressor::compress_integers(v);
        let back = TypeSpecificCompressor::decompress_integers(&d).map_err(|x| (format!("decompress_err[{}]", d.codec.name()), json!({"err": x.to_string()})))?;
        mism(&format!("roundtrip[{}]", d.codec.name()), v, &back)
    });
    let _ = profile_dev;
    // Elias-Fano (strictly increasing)
    let mut strict = sorted.clone();
    strict.dedup();
    c.run("elias_fano", || {
        let e = EliasFano::new(&strict);
        if e.len() != strict.len() {
            return Err(("len".into(), json!({"len": e.len(), "expected": strict.len()})));
        }
        let it: Vec<u64> = e.iter().collect();
        mism("iter", &strict, &it)?;
        for (i, x) in strict.iter().enumerate() {
            if e.get(i) != *x {
                return Err(("get".into(), json!({"index": i, "expected": x, "got": e.get(i)})));
            }
            if !e.contains(*x) {
                return Err(("contains".into(), json!({"value": x})));
            }
        }
        Ok(())
    });
    // wavelet tree
    if v.len() <= 300 {
        c.run("wavelet", || {
            let w = WaveletTree::new(v);
            if w.len() != v.len() {
                return Err(("len".into(), json!({"len": w.len()})));
            }
            for (i, x) in v.iter().enumerate() {
                if w.access(i) != *x {
                    return Err(("access".into(), json!({"index": i, "expected": x, "got": w.access(i)})));
                }
            }
            // rank/select against prefix counts for up to 4 symbols
            let mut syms: Vec<u64> = v.to_vec();
            syms.sort_unstable();
            syms.dedup();
            for s in syms.iter().take(4) {
                let mut cnt = 0usize;
                for i in 0..=v.len() {
                    if w.rank(*s, i) != cnt {
                        return Err(("rank".into(), json!({"symbol": s, "i": i, "expected": cnt, "got": w.rank(*s, i)})));
                    }
                    if i < v.len() && v[i] == *s {
                        if w.select(*s, cnt) != Some(i) {
                            return Err(("select".into(), json!({"symbol": s, "k": cnt, "expected": i, "got": w.select(*s, cnt)})));
                        }
                        cnt += 1;
                    }
                }
                if w.count(*s) != cnt {
                    return Err(("count".into(), json!({"symbol": s, "expected": cnt, "got": w.count(*s)})));
                }
            }
            Ok(())
        });
    }
}

fn check_i64_codecs(c: &mut Ctx, v: &[i64]) {
    c.run("delta_signed", || {
        let e = DeltaEncoding::encode_signed(v);
        mism("decode", v, &e.decode_signed())?;
        let e2 = DeltaEncoding::from_bytes(&e.to_bytes()).map_err(|x| ("from_bytes_err".to_string(), json!({"err": x.to_string()})))?;
        mism("bytes_roundtrip", v, &e2.decode_signed())
    });
    c.run("rle_signed", || {
        let e = SignedRunLengthEncoding::encode(v);
        mism("decode", v, &e.decode())?;
        let e2 = SignedRunLengthEncoding::from_bytes(&e.to_bytes()).map_err(|x| ("from_bytes_err".to_string(), json!({"err": x.to_string()})))?;
        mism("bytes_roundtrip", v, &e2.decode())
    });
    c.run("selector_signed", || {
        let d = TypeSpecificCompressor::compress_signed_integers(v);
        // the public API offers decompress_integers for the zig-zagged stream
        let back = TypeSpecificCompressor::decompress_integers(&d).map_err(|x| (format!("decompress_err[{}]", d.codec.name()), json!({"err": x.to_string()})))?;
        let back: Vec<i64> = back.into_iter().map(grafeo_core::storage::zigzag_decode).collect();
        mism(&format!("roundtrip[{}]", d.codec.name()), v, &back)
    });
    c.run("zigzag", || {
        for x in v {
            let z = grafeo_core::storage::zigzag_encode(*x);
            if grafeo_core::storage::zigzag_decode(z) != *x {
                return Err(("roundtrip".into(), json!({"x": x})));
            }
            let z = grafeo_core::storage::runlength::zigzag_encode(*x);
            if grafeo_core::storage::runlength::zigzag_decode(z) != *x {
                return Err(("roundtrip_rle".into(), json!({"x": x})));
            }
        }
        Ok(())
    });
}

fn check_bools(c: &mut Ctx, a: &[bool], b: &[bool]) {
    c.run("bitvec", || {
        let v = BitVector::from_bools(a);
        mism("to_bools", a, &v.to_bools())?;
        if v.len() != a.len() {
            return Err(("len".into(), json!({"len": v.len()})));
        }
        for (i, x) in a.iter().enumerate() {
            if v.get(i) != Some(*x) {
                return Err(("get".into(), json!({"index": i})));
            }
        }
        let ones = a.iter().filter(|x| **x).count();
        if v.count_ones() != ones || v.count_zeros() != a.len() - ones {
            return Err(("count".into(), json!({"ones": v.count_ones(), "zeros": v.count_zeros(), "expected_ones": ones})));
        }
        let oi: Vec<usize> = v.ones_iter().collect();
        let eo: Vec<usize> = a.iter().enumerate().filter(|(_, x)| **x).map(|(i, _)| i).collect();
        mism("ones_iter", &eo, &oi)?;
        let zi: Vec<usize> = v.zeros_iter().collect();
        let ez: Vec<usize> = a.iter().enumerate().filter(|(_, x)| !**x).map(|(i, _)| i).collect();
        mism("zeros_iter", &ez, &zi)?;
        let it: Vec<bool> = v.iter().collect();
        mism("iter", a, &it)?;
        let v2 = BitVector::from_bytes(&v.to_bytes()).map_err(|x| ("from_bytes_err".to_string(), json!({"err": x.to_string()})))?;
        mism("bytes_roundtrip", a, &v2.to_bools())?;
        // push/set construction agrees
        let mut p = BitVector::new();
        for x in a {
            p.push(*x);
        }
        mism("push", a, &p.to_bools())?;
        let mut s = BitVector::zeros(a.len());
        for (i, x) in a.iter().enumerate() {
            s.set(i, *x);
        }
        mism("set", a, &s.to_bools())?;
        let not: Vec<bool> = a.iter().map(|x| !x).collect();
        mism("not", &not, &v.not().to_bools())?;
        if v.not().count_ones() != a.len() - ones {
            return Err(("not_count_ones".into(), json!({"got": v.not().count_ones(), "expected": a.len() - ones})));
        }
        // binary ops on equal lengths
        let n = a.len().min(b.len());
        let (a2, b2) = (&a[..n], &b[..n]);
        let (va, vb) = (BitVector::from_bools(a2), BitVector::from_bools(b2));
        let and: Vec<bool> = a2.iter().zip(b2).map(|(x, y)| *x && *y).collect();
        let or: Vec<bool> = a2.iter().zip(b2).map(|(x, y)| *x || *y).collect();
        let xor: Vec<bool> = a2.iter().zip(b2).map(|(x, y)| *x != *y).collect();
        mism("and", &and, &va.and(&vb).to_bools())?;
        mism("or", &or, &va.or(&vb).to_bools())?;
        mism("xor", &xor, &va.xor(&vb).to_bools())
    });
    c.run("selector_booleans", || {
        let d = TypeSpecificCompressor::compress_booleans(a);
        let back = TypeSpecificCompressor::decompress_booleans(&d).map_err(|x| ("decompress_err".to_string(), json!({"err": x.to_string()})))?;
        mism("roundtrip", a, &back)
    });
    c.run("rank_select", || {
        let s = SuccinctBitVector::from_bools(a);
        let mut ones = 0usize;
        let mut zeros = 0usize;
        for i in 0..=a.len() {
            if s.rank1(i) != ones {
                return Err(("rank1".into(), json!({"pos": i, "expected": ones, "got": s.rank1(i)})));
            }
            if s.rank0(i) != zeros {
                return Err(("rank0".into(), json!({"pos": i, "expected": zeros, "got": s.rank0(i)})));
            }
            if i < a.len() {
                if s.get(i) != Some(a[i]) {
                    return Err(("get".into(), json!({"pos": i})));
                }
                if a[i] {
                    if s.select1(ones) != Some(i) {
                        return Err(("select1".into(), json!({"k": ones, "expected": i, "got": s.select1(ones)})));
                    }
                    ones += 1;
                } else {
                    if s.select0(zeros) != Some(i) {
                        return Err(("select0".into(), json!({"k": zeros, "expected": i, "got": s.select0(zeros)})));
                    }
                    zeros += 1;
                }
            }
        }
        if s.select1(ones).is_some() || s.select0(zeros).is_some() {
            return Err(("select_past_end".into(), json!({})));
        }
        Ok(())
    });
}

fn check_dictionary(c: &mut Ctx, vals: &[Option<String>]) {
    c.run("dictionary", || {
        let mut b = DictionaryBuilder::new();
        for v in vals {
            b.add_optional(v.as_deref());
        }
        let d = b.build();
        if d.len() != vals.len() {
            return Err(("len".into(), json!({"len": d.len(), "expected": vals.len()})));
        }
        for (i, v) in vals.iter().enumerate() {
            if d.get(i) != v.as_deref() {
                return Err(("get".into(), json!({"index": i, "expected": v, "got": d.get(i)})));
            }
            if d.is_null(i) != v.is_none() {
                return Err(("is_null".into(), json!({"index": i})));
            }
        }
        let it: Vec<Option<String>> = d.iter().map(|x| x.map(String::from)).collect();
        mism("iter", vals, &it)?;
        // encode() finds every present string and its code decodes back
        for v in vals.iter().flatten() {
            match d.encode(v) {
                Some(code) => {
                    if d.dictionary().get(code as usize).map(|s| &**s) != Some(v.as_str()) {
                        return Err(("encode_code".into(), json!({"value": v})));
                    }
                }
                None => return Err(("encode_none".into(), json!({"value": v}))),
            }
        }
        Ok(())
    });
}

/// compressed adjacency chunks: freeze_all / compact must not change what neighbours() returns
fn check_adjacency(c: &mut Ctx, r: &mut Rng, n_edges: usize) {
    let seed_state = r.next_u64();
    c.run("adjacency", || {
        let mut r = Rng::new(seed_state, "adj", 0);
        let adj = ChunkedAdjacency::new();
        let nsrc = 1 + r.below(3) as u64;
        let mut model: Vec<Vec<(u64, u64)>> = vec![Vec::new(); nsrc as usize];
        let mut next_e = 0u64;
        let check = |adj: &ChunkedAdjacency, model: &Vec<Vec<(u64, u64)>>, when: &str| -> Result<(), (String, serde_json::Value)> {
            for (s, m) in model.iter().enumerate() {
                let mut got: Vec<(u64, u64)> = adj.edges_from(NodeId::new(s as u64)).into_iter().map(|(d, e)| (d.as_u64(), e.as_u64())).collect();
                got.sort_unstable();
                let mut exp = m.clone();
                exp.sort_unstable();
                mism(&format!("edges_from_after_{when}"), &exp, &got)?;
                if adj.out_degree(NodeId::new(s as u64)) != m.len() {
                    return Err((format!("out_degree_after_{when}"), json!({"src": s, "expected": m.len(), "got": adj.out_degree(NodeId::new(s as u64))})));
                }
                let mut nb: Vec<u64> = adj.neighbors(NodeId::new(s as u64)).into_iter().map(|d| d.as_u64()).collect();
                nb.sort_unstable();
                let mut en: Vec<u64> = m.iter().map(|x| x.0).collect();
                en.sort_unstable();
                mism(&format!("neighbors_after_{when}"), &en, &nb)?;
            }
            Ok(())
        };
        for step in 0..n_edges {
            let s = r.below(nsrc as usize);
            if !model[s].is_empty() && r.chance(0.15) {
                let k = r.below(model[s].len());
                let (_, e) = model[s].remove(k);
                adj.mark_deleted(NodeId::new(s as u64), EdgeId::new(e));
            } else {
                let d = match r.below(3) {
                    0 => r.below(8) as u64,
                    1 => r.next_u64() >> 1,
                    _ => step as u64 * 3,
                };
                adj.add_edge(NodeId::new(s as u64), NodeId::new(d), EdgeId::new(next_e));
                model[s].push((d, next_e));
                next_e += 1;
            }
            if r.chance(0.02) {
                match r.below(3) {
                    0 => adj.compact(),
                    1 => adj.compact_if_needed(),
                    _ => adj.freeze_all(),
                }
                check(&adj, &model, "maintenance")?;
            }
        }
        check(&adj, &model, "build")?;
        adj.compact();
        check(&adj, &model, "compact")?;
        adj.freeze_all();
        check(&adj, &model, "freeze_all")?;
        adj.add_edge(NodeId::new(0), NodeId::new(5), EdgeId::new(next_e));
        model[0].push((5, next_e));
        check(&adj, &model, "add_after_freeze")
    });
}

/// property columns: compress_all / force_compress_all must not change reads
fn check_property_columns(c: &mut Ctx, r: &mut Rng, n: usize, kind: usize) {
    let st = r.next_u64();
    c.run("property_column", || {
        let mut r = Rng::new(st, "prop", 0);
        let plain: PropertyStorage<NodeId> = PropertyStorage::new();
        let comp: PropertyStorage<NodeId> = PropertyStorage::new();
        let key = PropertyKey::new("k");
        let mk = |r: &mut Rng, i: usize| -> Value {
            match kind {
                0 => Value::Int64(i as i64 * 3),
                1 => Value::Int64(r.range(-5, 5)),
                2 => Value::String(["a", "b", "c"][r.below(3)].into()),
                3 => Value::Bool(r.chance(0.5)),
                4 => Value::Float64(r.f64()),
                _ => crate::vals::random(r, 1),
            }
        };
        let cmp = |plain: &PropertyStorage<NodeId>, comp: &PropertyStorage<NodeId>, n: usize, when: &str| -> Result<(), (String, serde_json::Value)> {
            for i in 0..n as u64 {
                let a = plain.get(NodeId::new(i), &key);
                let b = comp.get(NodeId::new(i), &key);
                let same = match (&a, &b) {
                    (None, None) => true,
                    (Some(x), Some(y)) => crate::vals::bit_eq(x, y),
                    _ => false,
                };
                if !same {
                    return Err((format!("get_after_{when}"), json!({"id": i, "uncompressed": a.as_ref().map(crate::vals::show), "compressed": b.as_ref().map(crate::vals::show)})));
                }
            }
            let ids: Vec<NodeId> = (0..n as u64).map(NodeId::new).collect();
            let ba = plain.get_batch(&ids, &key);
            let bb = comp.get_batch(&ids, &key);
            for (i, (x, y)) in ba.iter().zip(bb.iter()).enumerate() {
                let same = match (x, y) {
                    (None, None) => true,
                    (Some(x), Some(y)) => crate::vals::bit_eq(x, y),
                    _ => false,
                };
                if !same {
                    return Err((format!("get_batch_after_{when}"), json!({"id": i})));
                }
            }
            Ok(())
        };
        for i in 0..n {
            let v = mk(&mut r, i);
            plain.set(NodeId::new(i as u64), key.clone(), v.clone());
            comp.set(NodeId::new(i as u64), key.clone(), v);
        }
        comp.compress_all();
        cmp(&plain, &comp, n, "compress_all")?;
        comp.force_compress_all();
        cmp(&plain, &comp, n, "force_compress_all")?;
        // overwrite / remove after compression
        for _ in 0..n.min(20) {
            let i = r.below(n.max(1));
            if r.chance(0.5) {
                let v = mk(&mut r, i + 1000);
                plain.set(NodeId::new(i as u64), key.clone(), v.clone());
                comp.set(NodeId::new(i as u64), key.clone(), v);
            } else {
                plain.remove(NodeId::new(i as u64), &key);
                comp.remove(NodeId::new(i as u64), &key);
            }
        }
        cmp(&plain, &comp, n, "mutate_after_compress")?;
        comp.force_compress_all();
        cmp(&plain, &comp, n, "second_force_compress")
    });
}

pub fn run(tier: Tier, seed: u64) -> ! {
    let mut rep = Report::new("C15", tier, seed, "exploration");
    let profile = if cfg!(debug_assertions) { "dev" } else { "release" };
    rep.rule = format!("directed matrix codec x input shape x length (lengths {LENS:?}; shapes zeros/all-equal/increasing/big-step/alternating-extremes/extremes/random-small/random-wide/runs/every bit width 0..=64) plus random sequences; for each: decode(encode(x))==x, get(i)==x[i], iterator==x, from_bytes(to_bytes(e)) decodes to x; bit-vector algebra vs Vec<bool>; rank/select vs prefix counts; wavelet access/rank/select; adjacency compaction/freeze vs model; property columns compressed vs uncompressed twin. non-trivial = sequence of length>=2 that is not all-equal; distinct by (shape,len,content hash). profile={profile}");
    rep.extra.insert("profile".into(), json!(profile));
    let mut shapes = vec![
        Shape::Zeros, Shape::AllEqual, Shape::Increasing, Shape::StepBig, Shape::Alternating, Shape::Extremes,
        Shape::RandomSmall, Shape::RandomWide, Shape::Runs,
    ];
    for w in 0..=64u8 {
        shapes.push(Shape::RandomWidth(w));
    }
    let mut rng = Rng::new(seed, "C15", 0);
    let mut cells = 0u64;
    // directed matrix
    for &shape in &shapes {
        let lens: &[usize] = if matches!(shape, Shape::RandomWidth(_)) && tier == Tier::Quick { &[0, 1, 63, 64, 65, 129] } else { LENS };
        for &n in lens {
            let v = gen_u64(&mut rng, shape, n);
            let mut c = Ctx { rep: &mut rep, class: class_u64(&v) };
            check_u64_codecs(&mut c, &v, profile == "dev");
            let iv = to_i64(&v, shape, &mut rng);
            c.class = class_i64(&iv);
            check_i64_codecs(&mut c, &iv);
            cells += 1;
            if n >= 2 && v.iter().any(|x| *x != v[0]) {
                rep.nontrivial(hash_str(&format!("{}{n}{:?}", shape.name(), &v[..v.len().min(16)])));
            }
            if cells % 97 == 1 {
                rep.sample(json!({"shape": shape.name(), "len": n, "head": v.iter().take(6).collect::<Vec<_>>()}));
            }
        }
    }
    rep.count("matrix_cells", cells);
    // bools
    for &n in LENS {
        for mode in 0..4 {
            let a: Vec<bool> = (0..n).map(|i| match mode {
                0 => false,
                1 => true,
                2 => i % 2 == 0,
                _ => rng.chance(0.3),
            }).collect();
            let b: Vec<bool> = (0..n).map(|_| rng.chance(0.5)).collect();
            let lc = match n { 0 => "len0", 1 => "len1", _ => "lenN" };
            let mut c = Ctx { rep: &mut rep, class: format!("bools{mode}|{lc}") };
            check_bools(&mut c, &a, &b);
        }
    }
    // dictionary
    let words = ["", "a", "b", "ab", "é", "日本", "a\0", " "];
    for &n in &[0usize, 1, 2, 63, 64, 65, 300] {
        for nulls in [false, true] {
            let vals: Vec<Option<String>> = (0..n).map(|_| if nulls && rng.chance(0.3) { None } else { Some(words[rng.below(words.len())].to_string()) }).collect();
            let lc = match n { 0 => "len0", 1 => "len1", _ => "lenN" };
            let mut c = Ctx { rep: &mut rep, class: format!("dict|nulls={nulls}|{lc}") };
            check_dictionary(&mut c, &vals);
        }
    }
    // directed adjacency cells: a frozen (compressed) chunk holding exactly one entry, with
    // destination 0 / a large id, edge id 0 / large
    for (dst, eid) in [(0u64, 0u64), (0, 5), (7, 0), (u64::MAX >> 1, 3), (1, u64::MAX >> 1)] {
        let mut c = Ctx { rep: &mut rep, class: format!("adj|single_entry|dst{}|edge{}", if dst == 0 { "=0" } else { ">0" }, if eid == 0 { "=0" } else { ">0" }) };
        c.run("adjacency_single", || {
            let adj = ChunkedAdjacency::new();
            adj.add_edge(NodeId::new(3), NodeId::new(dst), EdgeId::new(eid));
            adj.compact();
            adj.freeze_all();
            let got: Vec<(u64, u64)> = adj.edges_from(NodeId::new(3)).into_iter().map(|(d, e)| (d.as_u64(), e.as_u64())).collect();
            mism("edges_from_after_freeze_all", &[(dst, eid)], &got)
        });
    }
    // adjacency and property columns
    let reps = tier.pick(30, 600);
    for k in 0..reps {
        let n = *rng.pick(&[0usize, 1, 63, 64, 65, 128, 129, 200, 257, 700]);
        let mut c = Ctx { rep: &mut rep, class: format!("adj|{}", if n <= 64 { "<=64" } else { ">64" }) };
        check_adjacency(&mut c, &mut rng, n);
        let kind = k % 6;
        let n = *rng.pick(&[0usize, 1, 10, 100, 1200]);
        let mut c = Ctx { rep: &mut rep, class: format!("prop|kind{kind}") };
        check_property_columns(&mut c, &mut rng, n, kind);
    }
    // random sequences
    let randoms = tier.pick(60_000, 1_500_000);
    for k in 0..randoms {
        let mut r = Rng::new(seed, "C15.random", k as u64);
        let shape = shapes[r.below(shapes.len())];
        let n = if r.chance(0.7) { r.below(70) } else { *r.pick(LENS) + r.below(3) };
        let v = gen_u64(&mut r, shape, n);
        let mut c = Ctx { rep: &mut rep, class: class_u64(&v) };
        check_u64_codecs(&mut c, &v, profile == "dev");
        let iv = to_i64(&v, shape, &mut r);
        c.class = class_i64(&iv);
        check_i64_codecs(&mut c, &iv);
        if n >= 2 && v.iter().any(|x| *x != v[0]) {
            rep.nontrivial(hash_str(&format!("r{}{n}{:?}", shape.name(), &v[..v.len().min(16)])));
        }
    }
    rep.assumptions = vec![
        "documented preconditions are respected: DeltaEncoding::encode / DeltaBitPacked / EliasFano get sorted (strictly increasing for EF) input; pack_with_bits gets widths >= needed".into(),
        format!("this run used the {profile} profile (debug assertions/overflow checks {}); VH_PROFILE=release runs the other", if profile == "dev" { "on" } else { "off" }),
    ];
    rep.finish()
}
