//! C17 — execution configurations: how one (table, chain) is driven through the crate.

use super::refm::*;
use crate::rng::{Rng, hash_str};
use crate::util::{Panic, catch, scratch_dir};
use grafeo_common::memory::buffer::PressureLevel;
use grafeo_common::types::{LogicalType, Value};
use grafeo_core::execution::adaptive::{CardinalityTrackingOperator, SharedAdaptiveContext, execute_adaptive};
use grafeo_core::execution::operators as pullops;
use grafeo_core::execution::operators::push as pushops;
use grafeo_core::execution::operators::{Operator, OperatorError, OperatorResult};
use grafeo_core::execution::parallel as par;
use grafeo_core::execution::spill::SpillManager;
use grafeo_core::execution::{ChunkSource, DataChunk, OperatorSource, Pipeline, PushOperator, Sink, Source, ValueVector, VectorSource};
use grafeo_core::graph::lpg::LpgStore;
use std::collections::HashMap;
use std::sync::{Arc, Mutex, OnceLock};

#[derive(Clone, Debug)]
pub enum PushSrc {
    /// the crate's VectorSource (chunk size chosen by the pipeline from operator hints)
    Vector,
    /// ChunkSource with chunks of this size
    Chunks(usize),
    /// ChunkSource with chunk sizes drawn from {0,1,2,7,100,1024,2048,3000}
    Ragged(u64),
}

#[derive(Clone, Debug)]
pub enum Cfg {
    Pull { typed: bool, chunk: usize, simple_agg: bool, adaptive: bool },
    Push { src: PushSrc, mat_distinct: bool, tracked: bool },
    /// first `split` operators pull-based, wrapped in OperatorSource, rest push-based
    Mixed { split: usize, chunk: usize },
    Par { workers: usize, pressure: u8, chunk: usize, chunk_src: Option<u64>, merge_rows: bool, reps: usize },
    SpillSort { threshold: usize, chunk: usize, with_manager: bool },
    SpillAgg { threshold: usize, chunk: usize, with_manager: bool },
}

pub struct Plan {
    pub len: usize,
    pub unordered_from: Option<usize>,
}

impl Cfg {
    /// Coarse variant name (used for counters and the shrink cache).
    pub fn variant(&self) -> &'static str {
        match self {
            Cfg::Pull { .. } => "pull",
            Cfg::Push { .. } => "push",
            Cfg::Mixed { .. } => "pull>push",
            Cfg::Par { .. } => "par",
            Cfg::SpillSort { .. } => "spill_sort",
            Cfg::SpillAgg { .. } => "spill_agg",
        }
    }
    /// Configuration class for signatures: variant plus every non-default setting. Meant to be taken
    /// from a *minimised* configuration (see `simpler`), so that a marker appears only when the
    /// failure needs it.
    pub fn class(&self) -> String {
        fn ch(c: usize) -> &'static str {
            if c < 2048 {
                ":chunk<2048"
            } else if c > 2048 {
                ":chunk>2048"
            } else {
                ""
            }
        }
        fn thr(t: usize) -> &'static str {
            match t {
                0 | 1 => ":spill_always",
                usize::MAX => ":spill_never",
                _ => ":spill_some",
            }
        }
        match self {
            Cfg::Pull { typed, chunk, simple_agg, adaptive } => format!(
                "pull{}{}{}{}",
                if *typed { ":typed" } else { "" },
                if *adaptive { ":adaptive" } else { "" },
                if *simple_agg { ":simple_agg" } else { "" },
                ch(*chunk)
            ),
            Cfg::Push { src, mat_distinct, tracked } => format!(
                "push{}{}{}",
                if *tracked { ":tracked" } else { "" },
                if *mat_distinct { ":materializing_distinct" } else { "" },
                match src {
                    PushSrc::Vector => "".to_string(),
                    PushSrc::Chunks(c) => format!(":chunk_source{}", ch(*c)),
                    PushSrc::Ragged(_) => ":ragged_chunk_source".to_string(),
                }
            ),
            Cfg::Mixed { chunk, .. } => format!("pull>push{}", ch(*chunk)),
            Cfg::Par { workers, pressure, chunk, chunk_src, merge_rows, .. } => format!(
                "par{}{}{}{}{}",
                if *workers > 1 { ":workers>1" } else { "" },
                if *pressure > 0 { ":small_morsels" } else { "" },
                ch(*chunk),
                if chunk_src.is_some() { ":chunk_source" } else { "" },
                if *merge_rows { ":merge_rows" } else { "" }
            ),
            Cfg::SpillSort { threshold, chunk, with_manager } => {
                format!("spill_sort{}{}{}", thr(*threshold), if *with_manager { "" } else { ":no_manager" }, ch(*chunk))
            }
            Cfg::SpillAgg { threshold, chunk, with_manager } => {
                format!("spill_agg{}{}{}", thr(*threshold), if *with_manager { "" } else { ":no_manager" }, ch(*chunk))
            }
        }
    }
    /// Simpler configurations to try while shrinking (most canonical first).
    pub fn simpler(&self) -> Vec<Cfg> {
        let push0 = Cfg::Push { src: PushSrc::Vector, mat_distinct: false, tracked: false };
        let pull0 = Cfg::Pull { typed: false, chunk: 2048, simple_agg: false, adaptive: false };
        let mut v = Vec::new();
        match self {
            Cfg::Pull { typed, chunk, simple_agg, adaptive } => {
                if *adaptive {
                    v.push(Cfg::Pull { typed: *typed, chunk: *chunk, simple_agg: *simple_agg, adaptive: false });
                }
                if *typed {
                    v.push(Cfg::Pull { typed: false, chunk: *chunk, simple_agg: *simple_agg, adaptive: *adaptive });
                }
                if *simple_agg {
                    v.push(Cfg::Pull { typed: *typed, chunk: *chunk, simple_agg: false, adaptive: *adaptive });
                }
                if *chunk != 2048 {
                    v.push(Cfg::Pull { typed: *typed, chunk: 2048, simple_agg: *simple_agg, adaptive: *adaptive });
                }
            }
            Cfg::Push { src, mat_distinct, tracked } => {
                if *tracked {
                    v.push(Cfg::Push { src: src.clone(), mat_distinct: *mat_distinct, tracked: false });
                }
                if *mat_distinct {
                    v.push(Cfg::Push { src: src.clone(), mat_distinct: false, tracked: *tracked });
                }
                match src {
                    PushSrc::Vector => {}
                    PushSrc::Chunks(2048) => v.push(Cfg::Push { src: PushSrc::Vector, mat_distinct: *mat_distinct, tracked: *tracked }),
                    _ => {
                        v.push(Cfg::Push { src: PushSrc::Vector, mat_distinct: *mat_distinct, tracked: *tracked });
                        v.push(Cfg::Push { src: PushSrc::Chunks(2048), mat_distinct: *mat_distinct, tracked: *tracked });
                        if !matches!(src, PushSrc::Chunks(7)) {
                            v.push(Cfg::Push { src: PushSrc::Chunks(7), mat_distinct: *mat_distinct, tracked: *tracked });
                        }
                    }
                }
            }
            Cfg::Mixed { split, chunk } => {
                v.push(push0);
                v.push(pull0);
                if *chunk != 2048 {
                    v.push(Cfg::Pull { typed: false, chunk: *chunk, simple_agg: false, adaptive: false });
                    v.push(Cfg::Push { src: PushSrc::Chunks(*chunk), mat_distinct: false, tracked: false });
                }
                if *chunk != 2048 {
                    v.push(Cfg::Mixed { split: *split, chunk: 2048 });
                }
            }
            Cfg::Par { workers, pressure, chunk, chunk_src, merge_rows, reps } => {
                v.push(push0);
                let base = |w: usize, p: u8, c: usize, cs: Option<u64>, m: bool| Cfg::Par { workers: w, pressure: p, chunk: c, chunk_src: cs, merge_rows: m, reps: *reps };
                if *workers > 1 {
                    v.push(base(1, *pressure, *chunk, *chunk_src, *merge_rows));
                }
                if *pressure > 0 {
                    v.push(base(*workers, 0, *chunk, *chunk_src, *merge_rows));
                }
                if chunk_src.is_some() {
                    v.push(base(*workers, *pressure, *chunk, None, *merge_rows));
                }
                if *chunk != 2048 {
                    v.push(base(*workers, *pressure, 2048, *chunk_src, *merge_rows));
                }
                if *merge_rows {
                    v.push(base(*workers, *pressure, *chunk, *chunk_src, false));
                }
            }
            Cfg::SpillSort { threshold, chunk, with_manager } => {
                v.push(push0);
                if !*with_manager {
                    v.push(Cfg::SpillSort { threshold: *threshold, chunk: *chunk, with_manager: true });
                }
                if *threshold != usize::MAX {
                    v.push(Cfg::SpillSort { threshold: usize::MAX, chunk: *chunk, with_manager: *with_manager });
                    if *threshold > 1 {
                        v.push(Cfg::SpillSort { threshold: 1, chunk: *chunk, with_manager: *with_manager });
                    }
                }
                if *chunk != 2048 {
                    v.push(Cfg::SpillSort { threshold: *threshold, chunk: 2048, with_manager: *with_manager });
                }
            }
            Cfg::SpillAgg { threshold, chunk, with_manager } => {
                v.push(push0);
                if !*with_manager {
                    v.push(Cfg::SpillAgg { threshold: *threshold, chunk: *chunk, with_manager: true });
                }
                if *threshold != usize::MAX {
                    v.push(Cfg::SpillAgg { threshold: usize::MAX, chunk: *chunk, with_manager: *with_manager });
                    if *threshold > 1 {
                        v.push(Cfg::SpillAgg { threshold: 1, chunk: *chunk, with_manager: *with_manager });
                    }
                }
                if *chunk != 2048 {
                    v.push(Cfg::SpillAgg { threshold: *threshold, chunk: 2048, with_manager: *with_manager });
                }
            }
        }
        v
    }
    pub fn reps(&self) -> usize {
        match self {
            Cfg::Par { reps, .. } => *reps,
            _ => 1,
        }
    }
    pub fn on_remove_op(&self, i: usize) -> Cfg {
        match self {
            Cfg::Mixed { split, chunk } if i < *split => Cfg::Mixed { split: split - 1, chunk: *chunk },
            other => other.clone(),
        }
    }
    pub fn plan(&self, chain: &[Op]) -> Option<Plan> {
        match self {
            Cfg::SpillSort { .. } if !chain.iter().any(|o| matches!(o, Op::Sort(_))) => None,
            Cfg::SpillAgg { .. } if !chain.iter().any(|o| matches!(o, Op::Agg { .. })) => None,
            Cfg::Par { .. } => {
                let p = chain.iter().take_while(|o| o.stateless()).count();
                Some(Plan { len: chain.len(), unordered_from: Some(p) })
            }
            _ => Some(Plan { len: chain.len(), unordered_from: None }),
        }
    }
}

pub enum Outcome {
    Rows { rows: Rows, order_hash: u64, leftover: Option<Vec<String>> },
    Error(String),
    Panic(Panic),
    Hang(String),
    #[allow(dead_code)]
    NotApplicable,
}

pub const MISSING_CELL: &str = "\u{0}<cell missing from chunk>";

pub fn chunk_rows(c: &DataChunk, out: &mut Rows) {
    let nc = c.column_count();
    for i in c.selected_indices() {
        let mut r = Vec::with_capacity(nc);
        for k in 0..nc {
            r.push(c.column(k).and_then(|col| col.get_value(i)).unwrap_or_else(|| Value::String(MISSING_CELL.into())));
        }
        out.push(r);
    }
}

pub fn chunks_rows(cs: &[DataChunk]) -> Rows {
    let mut out = Vec::new();
    for c in cs {
        chunk_rows(c, &mut out);
    }
    out
}

fn lt(k: Kind, typed: bool) -> LogicalType {
    if !typed {
        return LogicalType::Any;
    }
    match k {
        Kind::Int => LogicalType::Int64,
        Kind::Float => LogicalType::Float64,
        Kind::Str | Kind::NumStr => LogicalType::String,
        Kind::Bool => LogicalType::Bool,
        Kind::Any => LogicalType::Any,
    }
}

fn schema(kinds: &[Kind], typed: bool) -> Vec<LogicalType> {
    kinds.iter().map(|k| lt(*k, typed)).collect()
}

pub fn make_chunk(kinds: &[Kind], rows: &[Row], typed: bool) -> DataChunk {
    let mut cols: Vec<ValueVector> = kinds
        .iter()
        .map(|k| if typed && *k != Kind::Any { ValueVector::with_type(lt(*k, true)) } else { ValueVector::new() })
        .collect();
    for r in rows {
        for (c, v) in r.iter().enumerate() {
            cols[c].push_value(v.clone());
        }
    }
    DataChunk::new(cols)
}

pub fn make_chunks(t: &Table, sizes: &mut dyn FnMut() -> usize, typed: bool) -> Vec<DataChunk> {
    let mut out = Vec::new();
    let mut pos = 0;
    let n = t.rows.len();
    let mut guard = 0;
    while pos < n {
        let s = sizes();
        guard += 1;
        if s == 0 && guard > n + 64 {
            continue;
        }
        let end = (pos + s).min(n);
        out.push(make_chunk(&t.kinds, &t.rows[pos..end], typed));
        pos = end;
    }
    out
}

fn ragged_sizes(seed: u64) -> impl FnMut() -> usize {
    let mut r = Rng::new(seed, "c17.ragged", 0);
    move || *r.pick(&[0usize, 1, 2, 7, 100, 1024, 2048, 3000, 2048, 1024])
}

// ---------------------------------------------------------------------------------------------
// pull
// ---------------------------------------------------------------------------------------------

struct Scan {
    chunks: Vec<DataChunk>,
    pos: usize,
}

impl Operator for Scan {
    fn next(&mut self) -> OperatorResult {
        if self.pos >= self.chunks.len() {
            return Ok(None);
        }
        let c = self.chunks[self.pos].clone();
        self.pos += 1;
        Ok(Some(c))
    }
    fn reset(&mut self) {
        self.pos = 0;
    }
    fn name(&self) -> &'static str {
        "C17Scan"
    }
}

fn store() -> Arc<LpgStore> {
    static S: OnceLock<Arc<LpgStore>> = OnceLock::new();
    S.get_or_init(|| Arc::new(LpgStore::new())).clone()
}

fn build_pull(mut node: Box<dyn Operator>, kinds: &[Kind], chain: &[Op], typed: bool, simple_agg: bool) -> Box<dyn Operator> {
    let mut k = kinds.to_vec();
    for op in chain {
        let k2 = apply_schema(&k, op).unwrap_or_else(|| k.clone());
        node = match op {
            Op::Filter { col, cmp, val } => {
                let bop = match cmp {
                    Cmp::Eq => pullops::BinaryFilterOp::Eq,
                    Cmp::Ne => pullops::BinaryFilterOp::Ne,
                    Cmp::Lt => pullops::BinaryFilterOp::Lt,
                    Cmp::Le => pullops::BinaryFilterOp::Le,
                    Cmp::Gt => pullops::BinaryFilterOp::Gt,
                    Cmp::Ge => pullops::BinaryFilterOp::Ge,
                };
                let expr = pullops::FilterExpression::Binary {
                    left: Box::new(pullops::FilterExpression::Variable("c".into())),
                    op: bop,
                    right: Box::new(pullops::FilterExpression::Literal(val.clone())),
                };
                let mut vars = HashMap::new();
                vars.insert("c".to_string(), *col);
                Box::new(pullops::FilterOperator::new(node, Box::new(pullops::ExpressionPredicate::new(expr, vars, store()))))
            }
            Op::Project(items) => {
                let exprs = items
                    .iter()
                    .map(|it| match it {
                        PItem::Col(c) => pullops::ProjectExpr::Column(*c),
                        PItem::Const(v) => pullops::ProjectExpr::Constant(v.clone()),
                    })
                    .collect();
                Box::new(pullops::ProjectOperator::new(node, exprs, schema(&k2, typed)))
            }
            Op::Limit(l) => Box::new(pullops::LimitOperator::new(node, *l, schema(&k2, typed))),
            Op::Skip(s) => Box::new(pullops::SkipOperator::new(node, *s, schema(&k2, typed))),
            Op::SkipLimit(s, l) => Box::new(pullops::LimitSkipOperator::new(node, *s, *l, schema(&k2, typed))),
            Op::Distinct(None) => Box::new(pullops::DistinctOperator::new(node, schema(&k2, typed))),
            Op::Distinct(Some(cols)) => Box::new(pullops::DistinctOperator::on_columns(node, cols.clone(), schema(&k2, typed))),
            Op::Sort(keys) => {
                let ks = keys
                    .iter()
                    .map(|s| pullops::SortKey {
                        column: s.col,
                        direction: if s.desc { pullops::SortDirection::Descending } else { pullops::SortDirection::Ascending },
                        null_order: if s.nulls_first { pullops::NullOrder::NullsFirst } else { pullops::NullOrder::NullsLast },
                    })
                    .collect();
                Box::new(pullops::SortOperator::new(node, ks, schema(&k2, typed)))
            }
            Op::Agg { group, aggs } => {
                let ax: Vec<pullops::AggregateExpr> = aggs
                    .iter()
                    .map(|(f, c)| match (f, c) {
                        (AggF::Count, None) => pullops::AggregateExpr::count_star(),
                        (AggF::Count, Some(c)) => pullops::AggregateExpr::count(*c),
                        (AggF::Sum, Some(c)) => pullops::AggregateExpr::sum(*c),
                        (AggF::Avg, Some(c)) => pullops::AggregateExpr::avg(*c),
                        (AggF::Min, Some(c)) => pullops::AggregateExpr::min(*c),
                        (AggF::Max, Some(c)) => pullops::AggregateExpr::max(*c),
                        _ => pullops::AggregateExpr::count_star(),
                    })
                    .collect();
                if group.is_empty() && simple_agg {
                    Box::new(pullops::SimpleAggregateOperator::new(node, ax, schema(&k2, typed)))
                } else {
                    Box::new(pullops::HashAggregateOperator::new(node, group.clone(), ax, schema(&k2, typed)))
                }
            }
        };
        k = k2;
    }
    node
}

fn drain_pull(mut root: Box<dyn Operator>, max_calls: usize) -> Result<Vec<DataChunk>, Outcome> {
    let mut out = Vec::new();
    let mut calls = 0usize;
    loop {
        calls += 1;
        if calls > max_calls {
            return Err(Outcome::Hang(format!("pull root returned more than {max_calls} chunks")));
        }
        match root.next() {
            Ok(Some(c)) => out.push(c),
            Ok(None) => return Ok(out),
            Err(e) => return Err(Outcome::Error(e.to_string())),
        }
    }
}

// ---------------------------------------------------------------------------------------------
// push
// ---------------------------------------------------------------------------------------------

#[derive(Clone)]
struct SharedSink(Arc<Mutex<Vec<DataChunk>>>);

impl Sink for SharedSink {
    fn consume(&mut self, chunk: DataChunk) -> Result<bool, OperatorError> {
        self.0.lock().unwrap().push(chunk);
        Ok(true)
    }
    fn finalize(&mut self) -> Result<(), OperatorError> {
        Ok(())
    }
    fn name(&self) -> &'static str {
        "C17SharedSink"
    }
}

/// Wraps a source and turns an unbounded poll loop into an error the harness recognises.
struct GuardSource {
    inner: Box<dyn Source>,
    calls: usize,
    max: usize,
}

const HANG_MSG: &str = "c17-guard: source polled without end";

impl Source for GuardSource {
    fn next_chunk(&mut self, chunk_size: usize) -> Result<Option<DataChunk>, OperatorError> {
        self.calls += 1;
        if self.calls > self.max {
            return Err(OperatorError::Execution(HANG_MSG.into()));
        }
        self.inner.next_chunk(chunk_size)
    }
    fn reset(&mut self) {
        self.inner.reset()
    }
    fn name(&self) -> &'static str {
        "C17GuardSource"
    }
}

#[derive(Clone)]
pub enum SpillVariant {
    None,
    Sort { mgr: Option<Arc<SpillManager>>, threshold: usize },
    Agg { mgr: Option<Arc<SpillManager>>, threshold: usize },
}

fn push_cmp(c: Cmp) -> pushops::CompareOp {
    match c {
        Cmp::Eq => pushops::CompareOp::Eq,
        Cmp::Ne => pushops::CompareOp::Ne,
        Cmp::Lt => pushops::CompareOp::Lt,
        Cmp::Le => pushops::CompareOp::Le,
        Cmp::Gt => pushops::CompareOp::Gt,
        Cmp::Ge => pushops::CompareOp::Ge,
    }
}

fn push_sort_keys(keys: &[SKey]) -> Vec<pushops::SortKey> {
    keys.iter()
        .map(|s| pushops::SortKey {
            column: s.col,
            direction: if s.desc { pushops::SortDirection::Descending } else { pushops::SortDirection::Ascending },
            null_order: if s.nulls_first { pushops::NullOrder::First } else { pushops::NullOrder::Last },
        })
        .collect()
}

fn push_aggs(aggs: &[(AggF, Option<usize>)]) -> Vec<pushops::AggregateExpr> {
    aggs.iter()
        .map(|(f, c)| match (f, c) {
            (AggF::Count, None) => pushops::AggregateExpr::count_star(),
            (AggF::Count, Some(c)) => pushops::AggregateExpr::count(*c),
            (AggF::Sum, Some(c)) => pushops::AggregateExpr::sum(*c),
            (AggF::Avg, Some(c)) => pushops::AggregateExpr::avg(*c),
            (AggF::Min, Some(c)) => pushops::AggregateExpr::min(*c),
            (AggF::Max, Some(c)) => pushops::AggregateExpr::max(*c),
            _ => pushops::AggregateExpr::count_star(),
        })
        .collect()
}

pub fn make_push_op(op: &Op, mat_distinct: bool, spill: &SpillVariant) -> Box<dyn PushOperator> {
    match op {
        Op::Filter { col, cmp, val } => Box::new(pushops::FilterPushOperator::column_compare(*col, push_cmp(*cmp), val.clone())),
        Op::Project(items) => {
            let exprs: Vec<Box<dyn pushops::ProjectExpression>> = items
                .iter()
                .map(|it| match it {
                    PItem::Col(c) => Box::new(pushops::ColumnExpr::new(*c)) as Box<dyn pushops::ProjectExpression>,
                    PItem::Const(v) => Box::new(pushops::ConstantExpr::new(v.clone())) as Box<dyn pushops::ProjectExpression>,
                })
                .collect();
            Box::new(pushops::ProjectPushOperator::new(exprs))
        }
        Op::Limit(l) => Box::new(pushops::LimitPushOperator::new(*l)),
        Op::Skip(s) => Box::new(pushops::SkipPushOperator::new(*s)),
        Op::SkipLimit(s, l) => Box::new(pushops::SkipLimitPushOperator::new(*s, *l)),
        Op::Distinct(None) => {
            if mat_distinct {
                Box::new(pushops::DistinctMaterializingOperator::new())
            } else {
                Box::new(pushops::DistinctPushOperator::new())
            }
        }
        Op::Distinct(Some(cols)) => {
            if mat_distinct {
                Box::new(pushops::DistinctMaterializingOperator::on_columns(cols.clone()))
            } else {
                Box::new(pushops::DistinctPushOperator::on_columns(cols.clone()))
            }
        }
        Op::Sort(keys) => match spill {
            SpillVariant::Sort { mgr: Some(m), threshold } => {
                Box::new(pushops::SpillableSortPushOperator::with_spilling(push_sort_keys(keys), m.clone(), *threshold))
            }
            SpillVariant::Sort { mgr: None, threshold } => {
                Box::new(pushops::SpillableSortPushOperator::new(push_sort_keys(keys)).with_threshold(*threshold))
            }
            _ => Box::new(pushops::SortPushOperator::new(push_sort_keys(keys))),
        },
        Op::Agg { group, aggs } => match spill {
            SpillVariant::Agg { mgr: Some(m), threshold } => {
                Box::new(pushops::SpillableAggregatePushOperator::with_spilling(group.clone(), push_aggs(aggs), m.clone(), *threshold))
            }
            SpillVariant::Agg { mgr: None, threshold } => {
                Box::new(pushops::SpillableAggregatePushOperator::new(group.clone(), push_aggs(aggs)).with_threshold(*threshold))
            }
            _ => Box::new(pushops::AggregatePushOperator::new(group.clone(), push_aggs(aggs))),
        },
    }
}

/// Build the push operators of `chain`; only the first sort / aggregate takes the spill variant.
fn build_push(chain: &[Op], mat_distinct: bool, spill: &SpillVariant, tracked: bool) -> Vec<Box<dyn PushOperator>> {
    let mut used_spill = false;
    let ctx = SharedAdaptiveContext::new();
    chain
        .iter()
        .enumerate()
        .map(|(i, op)| {
            let applies = match (op, spill) {
                (Op::Sort(_), SpillVariant::Sort { .. }) | (Op::Agg { .. }, SpillVariant::Agg { .. }) => !used_spill,
                _ => false,
            };
            let o = if applies {
                used_spill = true;
                make_push_op(op, mat_distinct, spill)
            } else {
                make_push_op(op, mat_distinct, &SpillVariant::None)
            };
            if tracked { Box::new(CardinalityTrackingOperator::new(o, &format!("op{i}"), ctx.clone())) as Box<dyn PushOperator> } else { o }
        })
        .collect()
}

fn run_pipeline(src: Box<dyn Source>, ops: Vec<Box<dyn PushOperator>>, max_polls: usize) -> Result<Vec<DataChunk>, Outcome> {
    let sink = SharedSink(Arc::new(Mutex::new(Vec::new())));
    let guard = GuardSource { inner: src, calls: 0, max: max_polls };
    let mut p = Pipeline::new(Box::new(guard), ops, Box::new(sink.clone()));
    let r = p.execute();
    drop(p);
    match r {
        Ok(()) => Ok(std::mem::take(&mut *sink.0.lock().unwrap())),
        Err(e) => {
            let s = e.to_string();
            if s.contains(HANG_MSG) { Err(Outcome::Hang("push Pipeline::execute polls the source forever".into())) } else { Err(Outcome::Error(s)) }
        }
    }
}

fn push_source(t: &Table, src: &PushSrc) -> Box<dyn Source> {
    match src {
        PushSrc::Vector => Box::new(VectorSource::new(t.columns())),
        PushSrc::Chunks(c) => {
            let c = *c;
            Box::new(ChunkSource::new(make_chunks(t, &mut || c, false)))
        }
        PushSrc::Ragged(seed) => Box::new(ChunkSource::new(make_chunks(t, &mut ragged_sizes(*seed), false))),
    }
}

fn list_dir(d: &std::path::Path) -> Vec<String> {
    let mut v: Vec<String> = std::fs::read_dir(d)
        .map(|rd| rd.filter_map(|e| e.ok()).map(|e| e.file_name().to_string_lossy().to_string()).collect())
        .unwrap_or_default();
    v.sort();
    v
}

// ---------------------------------------------------------------------------------------------
// parallel
// ---------------------------------------------------------------------------------------------

type Partial = Vec<(String, Row, Vec<par::MergeableAccumulator>)>;

/// Per-worker partial aggregation built on the crate's MergeableAccumulator (grouping by the
/// harness' bit-exact key; the crate offers no grouped mergeable operator).
struct PartialAgg {
    group: Vec<usize>,
    aggs: Vec<(AggF, Option<usize>)>,
    idx: HashMap<String, usize>,
    state: Partial,
    out: Arc<Mutex<Vec<Partial>>>,
}

impl PushOperator for PartialAgg {
    fn push(&mut self, chunk: DataChunk, _sink: &mut dyn Sink) -> Result<bool, OperatorError> {
        let mut rows = Vec::new();
        chunk_rows(&chunk, &mut rows);
        for r in rows {
            let gv: Row = self.group.iter().map(|c| r[*c].clone()).collect();
            let k = rkey(&gv);
            let n_aggs = self.aggs.len();
            let i = match self.idx.get(&k) {
                Some(i) => *i,
                None => {
                    self.state.push((k.clone(), gv, (0..n_aggs).map(|_| par::MergeableAccumulator::new()).collect()));
                    self.idx.insert(k, self.state.len() - 1);
                    self.state.len() - 1
                }
            };
            for (a, (_, c)) in self.aggs.iter().enumerate() {
                match c {
                    Some(c) => self.state[i].2[a].add(&r[*c]),
                    None => self.state[i].2[a].add(&Value::Int64(1)),
                }
            }
        }
        Ok(true)
    }
    fn finalize(&mut self, _sink: &mut dyn Sink) -> Result<(), OperatorError> {
        self.out.lock().unwrap().push(std::mem::take(&mut self.state));
        self.idx.clear();
        Ok(())
    }
    fn name(&self) -> &'static str {
        "C17PartialAgg"
    }
}

fn merge_partials(parts: Vec<Partial>, group_empty: bool, aggs: &[(AggF, Option<usize>)]) -> Rows {
    let mut idx: HashMap<String, usize> = HashMap::new();
    let mut merged: Partial = Vec::new();
    for p in parts {
        for (k, gv, accs) in p {
            match idx.get(&k) {
                Some(i) => {
                    for (a, acc) in accs.iter().enumerate() {
                        merged[*i].2[a].merge(acc);
                    }
                }
                None => {
                    idx.insert(k.clone(), merged.len());
                    // start from an empty accumulator and merge into it, so that merge() is exercised for
                    // every partial
                    let mut fresh: Vec<par::MergeableAccumulator> = accs.iter().map(|_| par::MergeableAccumulator::new()).collect();
                    for (a, acc) in accs.iter().enumerate() {
                        fresh[a].merge(acc);
                    }
                    merged.push((k, gv, fresh));
                }
            }
        }
    }
    if group_empty && merged.is_empty() {
        merged.push((String::new(), Vec::new(), aggs.iter().map(|_| par::MergeableAccumulator::new()).collect()));
    }
    merged
        .into_iter()
        .map(|(_, gv, accs)| {
            let mut r = gv;
            for ((f, _), acc) in aggs.iter().zip(accs.iter()) {
                r.push(match f {
                    AggF::Count => acc.finalize_count(),
                    AggF::Sum => acc.finalize_sum(),
                    AggF::Min => acc.finalize_min(),
                    AggF::Max => acc.finalize_max(),
                    AggF::Avg => acc.finalize_avg(),
                });
            }
            r
        })
        .collect()
}

fn pressure_of(p: u8) -> PressureLevel {
    match p {
        0 => PressureLevel::Normal,
        1 => PressureLevel::Moderate,
        2 => PressureLevel::High,
        _ => PressureLevel::Critical,
    }
}

fn run_par(t: &Table, chain: &[Op], workers: usize, pressure: u8, chunk: usize, chunk_src: Option<u64>, merge_rows: bool) -> Result<(Rows, u64), Outcome> {
    let p = chain.iter().take_while(|o| o.stateless()).count();
    let breaker = chain.get(p).cloned();
    let source: Arc<dyn par::ParallelSource> = match chunk_src {
        None => Arc::new(par::ParallelVectorSource::new(t.columns())),
        Some(seed) => Arc::new(par::ParallelChunkSource::new(make_chunks(t, &mut ragged_sizes(seed), false))),
    };
    let mut factory = par::CloneableOperatorFactory::new();
    for op in &chain[..p] {
        let op = op.clone();
        factory = factory.with_operator(move || make_push_op(&op, false, &SpillVariant::None));
    }
    let partials: Arc<Mutex<Vec<Partial>>> = Arc::new(Mutex::new(Vec::new()));
    let mut tail_from = p;
    match &breaker {
        Some(op @ (Op::Sort(_) | Op::Distinct(None) | Op::Limit(_))) => {
            let op = op.clone();
            factory = factory.with_operator(move || make_push_op(&op, false, &SpillVariant::None)).with_pipeline_breakers();
            tail_from = p + 1;
        }
        Some(Op::Agg { group, aggs }) => {
            let (group, aggs, out) = (group.clone(), aggs.clone(), partials.clone());
            factory = factory
                .with_operator(move || {
                    Box::new(PartialAgg { group: group.clone(), aggs: aggs.clone(), idx: HashMap::new(), state: Vec::new(), out: out.clone() })
                        as Box<dyn PushOperator>
                })
                .with_pipeline_breakers();
            tail_from = p + 1;
        }
        _ => {}
    }
    let mut config = par::ParallelPipelineConfig::default().with_workers(workers).with_pressure(pressure_of(pressure));
    config.chunk_size = chunk;
    let pipeline = par::ParallelPipeline::new(source, Arc::new(factory), config);
    let result = pipeline.execute().map_err(|e| Outcome::Error(e.to_string()))?;
    // schedule proxy: order in which the workers' chunks arrived
    let mut oh = 0u64;
    for c in &result.chunks {
        let mut first = Vec::new();
        let one = c.slice(0, 1);
        chunk_rows(&one, &mut first);
        oh = oh.rotate_left(7) ^ hash_str(&first.first().map(|r| rkey(r)).unwrap_or_default()) ^ c.len() as u64;
    }
    let merged: Vec<DataChunk> = match &breaker {
        Some(Op::Sort(keys)) => {
            let pk: Vec<par::SortKey> = keys.iter().map(|s| par::SortKey { column: s.col, ascending: !s.desc, nulls_first: s.nulls_first }).collect();
            if merge_rows {
                let runs: Vec<Rows> = result.chunks.iter().map(|c| chunks_rows(std::slice::from_ref(c))).collect();
                let rows = par::merge_sorted_runs(runs, &pk).map_err(|e| Outcome::Error(e.to_string()))?;
                par::rows_to_chunks(rows, chunk.max(1)).map_err(|e| Outcome::Error(e.to_string()))?
            } else {
                let runs: Vec<Vec<DataChunk>> = result.chunks.into_iter().map(|c| vec![c]).collect();
                par::merge_sorted_chunks(runs, &pk, chunk.max(1)).map_err(|e| Outcome::Error(e.to_string()))?
            }
        }
        Some(Op::Distinct(None)) => {
            // one result set per worker chunk, as a caller collecting per-worker outputs would pass them
            let sets: Vec<Vec<DataChunk>> =
                if merge_rows { vec![result.chunks] } else { result.chunks.into_iter().map(|c| vec![c]).collect() };
            par::merge_distinct_results(sets).map_err(|e| Outcome::Error(e.to_string()))?
        }
        Some(Op::Limit(l)) => {
            // per-worker limits, then the global cut (the crate has no merge step for limits)
            let mut rows = chunks_rows(&par::concat_parallel_results(vec![result.chunks]));
            rows.truncate(*l);
            if rows.is_empty() { Vec::new() } else { par::rows_to_chunks(rows, chunk.max(1)).map_err(|e| Outcome::Error(e.to_string()))? }
        }
        Some(Op::Agg { group, aggs }) => {
            let parts = std::mem::take(&mut *partials.lock().unwrap());
            let rows = merge_partials(parts, group.is_empty(), aggs);
            if rows.is_empty() { Vec::new() } else { par::rows_to_chunks(rows, chunk.max(1)).map_err(|e| Outcome::Error(e.to_string()))? }
        }
        _ => par::concat_parallel_results(vec![result.chunks]),
    };
    let tail = &chain[tail_from.min(chain.len())..];
    if tail.is_empty() {
        return Ok((chunks_rows(&merged), oh));
    }
    let n = t.rows.len();
    let out = run_pipeline(Box::new(ChunkSource::new(merged)), build_push(tail, false, &SpillVariant::None, false), n + 10_000)?;
    Ok((chunks_rows(&out), oh))
}

// ---------------------------------------------------------------------------------------------
// dispatcher
// ---------------------------------------------------------------------------------------------

pub fn run_cfg(cfg: &Cfg, t: &Table, chain: &[Op]) -> Outcome {
    let n = t.rows.len();
    let r = catch(|| -> Result<(Rows, u64, Option<Vec<String>>), Outcome> {
        match cfg {
            Cfg::Pull { typed, chunk, simple_agg, adaptive } => {
                let c = *chunk;
                let chunks = make_chunks(t, &mut || c, *typed);
                let root = build_pull(Box::new(Scan { chunks, pos: 0 }), &t.kinds, chain, *typed, *simple_agg);
                let out = if *adaptive {
                    execute_adaptive(root, None, None).map_err(|e| Outcome::Error(e.to_string()))?.0
                } else {
                    drain_pull(root, 2 * n + 10_000)?
                };
                Ok((chunks_rows(&out), 0, None))
            }
            Cfg::Push { src, mat_distinct, tracked } => {
                let out = run_pipeline(push_source(t, src), build_push(chain, *mat_distinct, &SpillVariant::None, *tracked), n + 10_000)?;
                Ok((chunks_rows(&out), 0, None))
            }
            Cfg::Mixed { split, chunk } => {
                let s = (*split).min(chain.len());
                let c = *chunk;
                let chunks = make_chunks(t, &mut || c, false);
                let root = build_pull(Box::new(Scan { chunks, pos: 0 }), &t.kinds, &chain[..s], false, false);
                let out = run_pipeline(Box::new(OperatorSource::new(root)), build_push(&chain[s..], false, &SpillVariant::None, false), 2 * n + 10_000)?;
                Ok((chunks_rows(&out), 0, None))
            }
            Cfg::Par { workers, pressure, chunk, chunk_src, merge_rows, .. } => {
                let (rows, oh) = run_par(t, chain, *workers, *pressure, *chunk, *chunk_src, *merge_rows)?;
                Ok((rows, oh, None))
            }
            Cfg::SpillSort { threshold, chunk, with_manager } | Cfg::SpillAgg { threshold, chunk, with_manager } => {
                let dir = scratch_dir("c17spill");
                let mgr = if *with_manager { Some(Arc::new(SpillManager::new(dir.clone()).map_err(|e| Outcome::Error(e.to_string()))?)) } else { None };
                let variant = if matches!(cfg, Cfg::SpillSort { .. }) {
                    SpillVariant::Sort { mgr: mgr.clone(), threshold: *threshold }
                } else {
                    SpillVariant::Agg { mgr: mgr.clone(), threshold: *threshold }
                };
                let ops = build_push(chain, false, &variant, false);
                drop(variant);
                let res = run_pipeline(push_source(t, &PushSrc::Chunks(*chunk)), ops, n + 10_000);
                // pipeline and operators are gone; the manager is still alive
                let left_alive = list_dir(&dir);
                // active_file_count() is never decremented by SpillFile::delete, so it counts the files created
                let files_created = mgr.as_ref().map_or(0, |m| m.active_file_count()) as u64;
                drop(mgr);
                let left_after = list_dir(&dir);
                let _ = std::fs::remove_dir_all(&dir);
                let out = res?;
                let leftover = if !left_after.is_empty() {
                    Some(left_after.into_iter().map(|f| format!("after manager drop: {f}")).collect())
                } else if !left_alive.is_empty() {
                    Some(left_alive.into_iter().take(5).map(|f| format!("after operator drop: {f}")).collect())
                } else {
                    None
                };
                Ok((chunks_rows(&out), files_created, leftover))
            }
        }
    });
    match r {
        Ok(Ok((rows, order_hash, leftover))) => Outcome::Rows { rows, order_hash, leftover },
        Ok(Err(o)) => o,
        Err(p) => Outcome::Panic(p),
    }
}
