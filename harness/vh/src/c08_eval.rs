//! C08: independent reference evaluator over the Model. Enumerates all bindings of the path
//! pattern (homomorphism / walk semantics: entities may repeat), applies WHERE under Kleene
//! logic, then projection or grouping+aggregation and DISTINCT. ORDER BY / SKIP / LIMIT are
//! judged by the comparison code (they leave freedom: ties, null placement).
//!
//! The evaluator is the specification (`Rules::none()`) plus a list of *named deviation
//! rules*, one per open finding, each a precise operational description of what the engine
//! does at one place. A_spec = evaluation with no rule, A_dev = with all open rules.

use super::ast::*;
use super::render::{Lang, conjuncts};
use crate::model::{Model, cmp_values};
use crate::vals;
use grafeo_common::types::Value;
use std::cmp::Ordering;
use std::collections::{BTreeMap, HashMap};

pub type Row = Vec<Value>;

// ------------------------------------------------------------------ rules

#[derive(Clone, Copy, Debug, PartialEq, Eq, PartialOrd, Ord, Hash)]
#[repr(usize)]
pub enum Rule {
    DistinctIgnored = 0,
    FirstLabelOnly,
    FirstTypeOnly,
    SelfLoopTwice,
    AndOrNull,
    NullAsValue,
    AggIntTyped,
    StackedFilter,
    FactorizedEmptyLevel,
    GqlWindowFirst,
    CypherCountProp,
    Varlen0,
    UnboundedCap,
    GqlNotPrecedence,
    RangeScanStrict,
    EdgeColTypeLost,
    NullLostTyped,
    GqlUnboundedIsOne,
    ZoneMapPrecheck,
    // expected errors
    ErrGqlIsNull,
    ErrGqlIn,
    ErrCountStar,
    ErrGqlType2,
    ErrCypherOrderBy,
    ErrGraphqlOrderBy,
    ErrGremlinIdLabel,
    ErrGremlinFold,
}

pub const NRULES: usize = 27;

/// (rule, finding id)
pub const RULE_IDS: [(Rule, &str); NRULES] = [
    (Rule::DistinctIgnored, "C08-F1"),
    (Rule::FirstLabelOnly, "C08-F2"),
    (Rule::FirstTypeOnly, "C08-F3"),
    (Rule::SelfLoopTwice, "C08-F4"),
    (Rule::AndOrNull, "C08-F5"),
    (Rule::NullAsValue, "C08-F6"),
    (Rule::AggIntTyped, "C08-F7"),
    (Rule::StackedFilter, "C08-F8"),
    (Rule::FactorizedEmptyLevel, "C08-F9"),
    (Rule::GqlWindowFirst, "C08-F10"),
    (Rule::CypherCountProp, "C08-F11"),
    (Rule::Varlen0, "C08-F12"),
    (Rule::UnboundedCap, "C08-F13"),
    (Rule::GqlNotPrecedence, "C08-F14"),
    (Rule::RangeScanStrict, "C08-F15"),
    (Rule::EdgeColTypeLost, "C08-F16"),
    (Rule::NullLostTyped, "C08-F25"),
    (Rule::GqlUnboundedIsOne, "C08-F26"),
    (Rule::ZoneMapPrecheck, "C08-F27"),
    (Rule::ErrGqlIsNull, "C08-F17"),
    (Rule::ErrGqlIn, "C08-F18"),
    (Rule::ErrCountStar, "C08-F19"),
    (Rule::ErrGqlType2, "C08-F20"),
    (Rule::ErrCypherOrderBy, "C08-F21"),
    (Rule::ErrGraphqlOrderBy, "C08-F22"),
    (Rule::ErrGremlinIdLabel, "C08-F23"),
    (Rule::ErrGremlinFold, "C08-F24"),
];

#[derive(Clone, Debug, PartialEq, Eq)]
pub struct Rules(pub [bool; NRULES]);

impl Rules {
    pub fn none() -> Self {
        Rules([false; NRULES])
    }
    pub fn on(&self, r: Rule) -> bool {
        self.0[r as usize]
    }
    pub fn without(&self, r: Rule) -> Self {
        let mut x = self.clone();
        x.0[r as usize] = false;
        x
    }
    pub fn only(r: Rule) -> Self {
        let mut x = Rules::none();
        x.0[r as usize] = true;
        x
    }
    pub fn any(&self) -> bool {
        self.0.iter().any(|b| *b)
    }
    /// rules are switched on only by an open finding of their id
    pub fn from_open(open: impl Fn(&str) -> bool) -> Self {
        let mut x = Rules::none();
        for (r, id) in RULE_IDS {
            x.0[r as usize] = open(id);
        }
        x
    }
}

pub fn rule_id(r: Rule) -> &'static str {
    RULE_IDS.iter().find(|x| x.0 == r).map(|x| x.1).unwrap_or("?")
}

#[derive(Clone, Debug)]
pub struct Binding {
    pub nodes: Vec<u64>,
    pub edges: Vec<Option<u64>>,
}

#[derive(Debug, PartialEq)]
pub enum Undecided {
    /// more bindings than the cap
    TooMany,
    /// unbounded variable length over a cyclic graph: infinitely many walks
    Infinite,
    /// min/max over values of different kinds: no order defined
    MixedMinMax,
    /// a deviation rule applies that cannot be emulated exactly: the case is not judged under
    /// A_dev (the directed cells decide)
    Tainted(Rule),
}

// ------------------------------------------------------------------ effective query

#[derive(Clone, Debug, PartialEq)]
pub struct RangeSpec {
    pub key: String,
    pub min: Option<(Value, bool)>,
    pub max: Option<(Value, bool)>,
}

/// one filter operator of the physical plan, attached to the pattern position it follows
#[derive(Clone, Debug, PartialEq)]
pub enum NF {
    Labels(Vec<String>),
    Pred(Pred),
}

/// The query as the engine effectively evaluates it under a set of rules.
#[derive(Clone, Debug)]
pub struct Eff {
    /// labels served by the node scan itself (text languages, GraphQL root)
    pub scan_labels: Vec<String>,
    /// filter operators stacked directly above the scan (position 0) / above expand i
    pub stacks: Vec<Vec<NF>>,
    pub types: Vec<Vec<String>>,
    pub lens: Vec<Option<(u32, Option<u32>)>>,
    /// the part of WHERE evaluated on complete bindings
    pub pred: Option<Pred>,
    /// strict-typed range restriction on node 0 (range-scan path)
    pub range0: Option<RangeSpec>,
    /// the filter predicate the range path replaced (still subject to the zone-map pre-check)
    pub range_pred: Option<Pred>,
}

fn uses_pos(p: &Pred, i: usize) -> bool {
    let mut s = std::collections::BTreeSet::new();
    pred_vars(p, &mut s);
    s.contains(&Var::N(i)) || (i >= 1 && s.contains(&Var::E(i - 1)))
}

/// position where the optimizer's filter push-down leaves the WHERE filter: directly above
/// expand i (and above that expand's label filter, if any); 0 = directly above the node scan
pub fn sink_pos(q: &Query) -> usize {
    let Some(p) = &q.pred else { return 0 };
    (1..q.nodes.len()).rev().find(|i| !q.nodes[*i].labels.is_empty() || uses_pos(p, *i)).unwrap_or(0)
}

fn range_atom(p: &Pred, text: bool) -> Option<(String, CmpOp, Value)> {
    // property of n0 compared with a literal by < <= > >= (either side); in the text languages a
    // negative number is a unary minus applied to a literal, not a literal
    let lit_ok = |c: &Value| match c {
        Value::Int64(i) => !text || *i >= 0,
        Value::Float64(f) => !text || *f >= 0.0,
        Value::Null => false,
        _ => true,
    };
    match p {
        Pred::Cmp(op, Term::Prop(Var::N(0), k), Term::Const(c)) if !matches!(op, CmpOp::Eq | CmpOp::Ne) && lit_ok(c) => Some((k.clone(), *op, c.clone())),
        Pred::Cmp(op, Term::Const(c), Term::Prop(Var::N(0), k)) if lit_ok(c) => {
            let f = match op {
                CmpOp::Lt => CmpOp::Gt,
                CmpOp::Le => CmpOp::Ge,
                CmpOp::Gt => CmpOp::Lt,
                CmpOp::Ge => CmpOp::Le,
                _ => return None,
            };
            Some((k.clone(), f, c.clone()))
        }
        _ => None,
    }
}

/// planner.rs try_plan_filter_with_range_index: single range predicate or BETWEEN pattern
pub fn range_shape(p: &Pred, text: bool) -> Option<RangeSpec> {
    if let Pred::And(l, r) = p {
        if let (Some((k1, o1, v1)), Some((k2, o2, v2))) = (range_atom(l, text), range_atom(r, text)) {
            if k1 == k2 {
                let lower = |o: CmpOp| matches!(o, CmpOp::Gt | CmpOp::Ge);
                if lower(o1) && !lower(o2) {
                    return Some(RangeSpec { key: k1, min: Some((v1, o1 == CmpOp::Ge)), max: Some((v2, o2 == CmpOp::Le)) });
                }
                if !lower(o1) && lower(o2) {
                    return Some(RangeSpec { key: k1, min: Some((v2, o2 == CmpOp::Ge)), max: Some((v1, o1 == CmpOp::Le)) });
                }
            }
        }
        return None;
    }
    let (k, o, v) = range_atom(p, text)?;
    Some(match o {
        CmpOp::Lt => RangeSpec { key: k, min: None, max: Some((v, false)) },
        CmpOp::Le => RangeSpec { key: k, min: None, max: Some((v, true)) },
        CmpOp::Gt => RangeSpec { key: k, min: Some((v, false)), max: None },
        _ => RangeSpec { key: k, min: Some((v, true)), max: None },
    })
}

fn and_all(ps: Vec<Pred>) -> Option<Pred> {
    let mut it = ps.into_iter();
    let first = it.next()?;
    Some(it.fold(first, |a, b| Pred::And(Box::new(a), Box::new(b))))
}

/// node position a Gremlin/GraphQL conjunct is attached to
fn conjunct_pos(p: &Pred) -> usize {
    let mut s = std::collections::BTreeSet::new();
    pred_vars(p, &mut s);
    s.iter()
        .map(|v| match v {
            Var::N(i) => *i,
            Var::E(i) => *i + 1,
        })
        .max()
        .unwrap_or(0)
}

pub fn effective(q: &Query, lang: Lang, r: &Rules) -> Eff {
    let n = q.nodes.len();
    let mut e = Eff {
        scan_labels: Vec::new(),
        stacks: vec![Vec::new(); n],
        types: q.edges.iter().map(|x| x.types.clone()).collect(),
        lens: q.edges.iter().map(|x| x.len).collect(),
        pred: None,
        range0: None,
        range_pred: None,
    };
    let text = matches!(lang, Lang::Gql | Lang::Cypher);
    if text {
        let lab = |i: usize| -> Vec<String> {
            let mut l = q.nodes[i].labels.clone();
            if r.on(Rule::FirstLabelOnly) {
                l.truncate(1);
            }
            l
        };
        e.scan_labels = lab(0);
        for i in 1..n {
            if !q.nodes[i].labels.is_empty() {
                e.stacks[i].push(NF::Labels(lab(i)));
            }
        }
        if r.on(Rule::FirstTypeOnly) {
            e.types.iter_mut().for_each(|t| t.truncate(1));
        }
        for l in e.lens.iter_mut() {
            // translator level: GQL replaces a missing upper bound by 1 (the operator still walks
            // up to min hops)
            if let Some((lo, hi)) = l {
                if hi.is_none() && lang == Lang::Gql && r.on(Rule::GqlUnboundedIsOne) {
                    *hi = Some((*lo).max(1));
                }
            }
            // planner level: `*1` is an ordinary single-hop expand (is_variable_length is false)
            if *l == Some((1, Some(1))) {
                *l = None;
            }
            // operator level
            if let Some((lo, hi)) = l {
                let lo0 = *lo;
                if hi.is_none() && r.on(Rule::UnboundedCap) {
                    *hi = Some(lo0 + 10);
                }
                if r.on(Rule::Varlen0) && lo0 == 0 {
                    *lo = 1;
                }
            }
        }
        if let Some(p) = &q.pred {
            let s = sink_pos(q);
            if s == 0 && r.on(Rule::RangeScanStrict) && range_shape(p, true).is_some() {
                e.range0 = range_shape(p, true);
                e.range_pred = Some(p.clone());
            } else {
                // the WHERE filter is an operator of its own directly above position s (a fact of
                // the plan, whatever rules are on: it breaks an expand chain there and restricts
                // what flows into the expands above it; with conjunctive filter semantics the
                // result is the same as evaluating it on complete bindings)
                e.stacks[s].push(NF::Pred(p.clone()));
            }
        }
    } else {
        // Gremlin / GraphQL: filters stay at their node
        let mut cs = Vec::new();
        if let Some(p) = &q.pred {
            conjuncts(p, &mut cs);
        }
        for i in 0..n {
            let here: Vec<Pred> = cs.iter().copied().filter(|c| conjunct_pos(c) == i).cloned().collect();
            if lang == Lang::GraphQL {
                if i == 0 {
                    e.scan_labels = q.nodes[0].labels.clone();
                }
                // all arguments of one field form a single filter over the scan / expand
                if let Some(p) = and_all(here) {
                    if i == 0 && r.on(Rule::RangeScanStrict) && range_shape(&p, false).is_some() {
                        e.range0 = range_shape(&p, false);
                        e.range_pred = Some(p);
                    } else {
                        e.stacks[i].push(NF::Pred(p));
                    }
                }
                continue;
            }
            // Gremlin: steps in rendering order: hasLabel per label, then has per conjunct
            let mut steps: Vec<NF> = q.nodes[i].labels.iter().map(|l| NF::Labels(vec![l.clone()])).collect();
            steps.extend(here.into_iter().map(NF::Pred));
            if i == 0 && r.on(Rule::RangeScanStrict) {
                // a range-shaped filter directly over the scan is served by the range path: a
                // real restriction, not a selection vector
                if let Some(NF::Pred(p)) = steps.first() {
                    if let Some(rs) = range_shape(p, false) {
                        e.range0 = Some(rs);
                        e.range_pred = Some(p.clone());
                        steps.remove(0);
                    }
                }
            }
            e.stacks[i] = steps;
        }
    }
    e
}

// ------------------------------------------------------------------ zone-map pre-check

/// property.rs PropertyColumn::update_zone_map_on_insert: min/max over the values of one node
/// property key in insertion order; a value that is not comparable with the current bound
/// (another kind) is ignored
struct Zone {
    min: Option<Value>,
    max: Option<Value>,
    nulls: u64,
    rows: u64,
}

fn zcmp(a: &Value, b: &Value) -> Option<Ordering> {
    match (a, b) {
        (Value::Int64(_) | Value::Float64(_), Value::Int64(_) | Value::Float64(_)) => cmp_values(a, b),
        (Value::String(_), Value::String(_)) | (Value::Bool(_), Value::Bool(_)) => cmp_values(a, b),
        _ => None,
    }
}

fn zone_of(m: &Model, key: &str) -> Option<Zone> {
    let mut z = Zone { min: None, max: None, nulls: 0, rows: 0 };
    for n in m.nodes.values() {
        let Some(v) = n.props.get(key) else { continue };
        z.rows += 1;
        if matches!(v, Value::Null) {
            z.nulls += 1;
            continue;
        }
        match &z.min {
            None => z.min = Some(v.clone()),
            Some(c) => {
                if zcmp(v, c) == Some(Ordering::Less) {
                    z.min = Some(v.clone());
                }
            }
        }
        match &z.max {
            None => z.max = Some(v.clone()),
            Some(c) => {
                if zcmp(v, c) == Some(Ordering::Greater) {
                    z.max = Some(v.clone());
                }
            }
        }
    }
    if z.rows == 0 { None } else { Some(z) }
}

fn zone_might_match(z: &Zone, op: CmpOp, v: &Value) -> bool {
    match op {
        CmpOp::Eq => {
            if matches!(v, Value::Null) {
                return z.nulls > 0;
            }
            if z.rows > 0 && z.nulls == z.rows {
                return false;
            }
            match (&z.min, &z.max) {
                (Some(min), Some(max)) => !(zcmp(v, min) == Some(Ordering::Less) || zcmp(v, max) == Some(Ordering::Greater)),
                _ => z.rows > z.nulls,
            }
        }
        CmpOp::Ne => match (&z.min, &z.max) {
            (Some(min), Some(max)) => !(zcmp(min, v) == Some(Ordering::Equal) && zcmp(max, v) == Some(Ordering::Equal)),
            _ => true,
        },
        CmpOp::Lt | CmpOp::Le => match &z.min {
            Some(min) => match zcmp(min, v) {
                Some(Ordering::Less) | None => true,
                Some(Ordering::Equal) => op == CmpOp::Le,
                Some(Ordering::Greater) => false,
            },
            None => z.nulls > 0,
        },
        CmpOp::Gt | CmpOp::Ge => match &z.max {
            Some(max) => match zcmp(max, v) {
                Some(Ordering::Greater) | None => true,
                Some(Ordering::Equal) => op == CmpOp::Ge,
                Some(Ordering::Less) => false,
            },
            None => z.nulls > 0,
        },
    }
}

/// planner.rs check_zone_map_for_predicate: Some(false) = "no match possible", the filter is
/// replaced by an empty operator. The property name is looked up in the *node* zone map
/// whatever the variable is.
fn zone_precheck(m: &Model, p: &Pred, text: bool) -> Option<bool> {
    let lit_ok = |c: &Value| match c {
        Value::Int64(i) => !text || *i >= 0,
        Value::Float64(f) => !text || *f >= 0.0,
        _ => true,
    };
    match p {
        Pred::And(l, r) => match (zone_precheck(m, l, text), zone_precheck(m, r, text)) {
            (Some(false), _) | (_, Some(false)) => Some(false),
            (Some(true), Some(true)) => Some(true),
            _ => None,
        },
        Pred::Or(l, r) => match (zone_precheck(m, l, text), zone_precheck(m, r, text)) {
            (Some(false), Some(false)) => Some(false),
            (Some(true), _) | (_, Some(true)) => Some(true),
            _ => None,
        },
        Pred::Cmp(op, Term::Prop(_, k), Term::Const(c)) if lit_ok(c) => Some(zone_of(m, k).is_none_or(|z| zone_might_match(&z, *op, c))),
        Pred::Cmp(op, Term::Const(c), Term::Prop(_, k)) if lit_ok(c) => {
            let f = match op {
                CmpOp::Lt => CmpOp::Gt,
                CmpOp::Le => CmpOp::Ge,
                CmpOp::Gt => CmpOp::Lt,
                CmpOp::Ge => CmpOp::Le,
                o => *o,
            };
            Some(zone_of(m, k).is_none_or(|z| zone_might_match(&z, f, c)))
        }
        _ => None,
    }
}

/// does the zone-map pre-check empty one of the plan's filters?
fn zone_empties(m: &Model, e: &Eff, lang: Lang) -> bool {
    let text = matches!(lang, Lang::Gql | Lang::Cypher);
    let mut preds: Vec<&Pred> = Vec::new();
    for st in &e.stacks {
        for f in st {
            if let NF::Pred(p) = f {
                preds.push(p);
            }
        }
    }
    preds.extend(e.pred.iter());
    preds.extend(e.range_pred.iter());
    preds.iter().any(|p| zone_precheck(m, p, text) == Some(false))
}

// ------------------------------------------------------------------ bindings

struct Adj {
    out: HashMap<u64, Vec<(u64, u64)>>,
    inc: HashMap<u64, Vec<(u64, u64)>>,
}

fn adjacency(m: &Model) -> Adj {
    let mut a = Adj { out: HashMap::new(), inc: HashMap::new() };
    for (id, e) in &m.edges {
        a.out.entry(e.src).or_default().push((*id, e.dst));
        a.inc.entry(e.dst).or_default().push((*id, e.src));
    }
    a
}

fn type_ok(m: &Model, eid: u64, types: &[String]) -> bool {
    types.is_empty() || types.iter().any(|t| *t == m.edges[&eid].ty)
}

/// one step from `cur`: (edge, neighbour). Undirected: every incident edge once per way it
/// connects cur to a neighbour; a self-loop connects cur to cur in one way (rule
/// SelfLoopTwice: the engine lists it under outgoing and again under incoming).
fn steps(m: &Model, a: &Adj, cur: u64, dir: Dir, types: &[String], r: &Rules) -> Vec<(u64, u64)> {
    let mut v = Vec::new();
    if dir != Dir::In {
        for (eid, dst) in a.out.get(&cur).map(Vec::as_slice).unwrap_or(&[]) {
            if type_ok(m, *eid, types) {
                v.push((*eid, *dst));
            }
        }
    }
    if dir != Dir::Out {
        for (eid, src) in a.inc.get(&cur).map(Vec::as_slice).unwrap_or(&[]) {
            if type_ok(m, *eid, types) && !(dir == Dir::Both && *src == cur && !r.on(Rule::SelfLoopTwice)) {
                v.push((*eid, *src));
            }
        }
    }
    v
}

fn label_ok(m: &Model, id: u64, labels: &[String]) -> bool {
    labels.iter().all(|l| m.nodes[&id].labels.contains(l))
}

/// store.rs value_in_range / compare_values_for_range: same kind only (Int-Int, Float-Float,
/// String-String, Bool-Bool)
fn strict_in_range(v: &Value, rs: &RangeSpec) -> bool {
    fn c(a: &Value, b: &Value) -> Option<Ordering> {
        match (a, b) {
            (Value::Int64(a), Value::Int64(b)) => Some(a.cmp(b)),
            (Value::Float64(a), Value::Float64(b)) => a.partial_cmp(b),
            (Value::String(a), Value::String(b)) => Some(a.as_str().cmp(b.as_str())),
            (Value::Bool(a), Value::Bool(b)) => Some(a.cmp(b)),
            _ => None,
        }
    }
    if let Some((min, inc)) = &rs.min {
        match c(v, min) {
            Some(Ordering::Less) | None => return false,
            Some(Ordering::Equal) if !inc => return false,
            _ => {}
        }
    }
    if let Some((max, inc)) = &rs.max {
        match c(v, max) {
            Some(Ordering::Greater) | None => return false,
            Some(Ordering::Equal) if !inc => return false,
            _ => {}
        }
    }
    true
}

fn nf_pass(m: &Model, b: &Binding, f: &NF, lang: Lang, r: &Rules) -> bool {
    match f {
        NF::Labels(l) => label_ok(m, *b.nodes.last().unwrap(), l),
        NF::Pred(p) => eval_pred(m, b, p, lang, r) == Some(true),
    }
}

/// Apply the filter operators stacked above one chunk. Specification: a row survives when it
/// passes every filter. Rule StackedFilter (filter.rs FilterOperator::next): every filter
/// evaluates all physical rows of the chunk and overwrites the selection, so only the top
/// filter decides — provided each lower filter let at least one row through (a filter that
/// selects nothing drops the chunk).
fn apply_stack(m: &Model, chunk: Vec<Binding>, stack: &[NF], lang: Lang, r: &Rules) -> Result<Vec<Binding>, Undecided> {
    if stack.is_empty() {
        return Ok(chunk);
    }
    if !r.on(Rule::StackedFilter) || stack.len() == 1 {
        return Ok(chunk.into_iter().filter(|b| stack.iter().all(|f| nf_pass(m, b, f, lang, r))).collect());
    }
    if chunk.len() > 2048 {
        // several physical chunks: their boundaries are not modelled
        return Err(Undecided::Tainted(Rule::StackedFilter));
    }
    for f in &stack[..stack.len() - 1] {
        if !chunk.iter().any(|b| nf_pass(m, b, f, lang, r)) {
            return Ok(Vec::new());
        }
    }
    let top = &stack[stack.len() - 1];
    Ok(chunk.into_iter().filter(|b| nf_pass(m, b, top, lang, r)).collect())
}

pub fn bindings(m: &Model, q: &Query, e: &Eff, hops: usize, lang: Lang, r: &Rules, cap: usize) -> Result<Vec<Binding>, Undecided> {
    let a = adjacency(m);
    let scan: Vec<Binding> = m
        .nodes
        .keys()
        .filter(|id| label_ok(m, **id, &e.scan_labels))
        .filter(|id| e.range0.as_ref().is_none_or(|rs| m.nodes[*id].props.get(&rs.key).is_some_and(|v| strict_in_range(v, rs))))
        .map(|id| Binding { nodes: vec![*id], edges: vec![] })
        .collect();
    let mut cur = apply_stack(m, scan, &e.stacks[0], lang, r)?;
    for i in 0..hops {
        let dir = q.edges[i].dir;
        let stack = &e.stacks[i + 1];
        // fixed-length expand: one output chunk (up to 2048 rows); variable length: one chunk
        // per input row
        let mut level: Vec<Binding> = Vec::new();
        let mut next = Vec::new();
        for b in &cur {
            let start = *b.nodes.last().unwrap();
            match e.lens[i] {
                None => {
                    for (eid, nb) in steps(m, &a, start, dir, &e.types[i], r) {
                        let mut nb2 = b.clone();
                        nb2.nodes.push(nb);
                        nb2.edges.push(Some(eid));
                        level.push(nb2);
                    }
                }
                Some((lo, hi)) => {
                    // walks of length lo..=hi; unbounded: the graph must be acyclic along the
                    // pattern, walks are then shorter than the number of nodes
                    let bound = hi.map(|h| h as usize).unwrap_or(m.nodes.len());
                    let mut frontier = vec![start];
                    let mut chunk: Vec<Binding> = Vec::new();
                    let emit = |ends: &[u64], chunk: &mut Vec<Binding>| {
                        for nb in ends {
                            let mut nb2 = b.clone();
                            nb2.nodes.push(*nb);
                            nb2.edges.push(None);
                            chunk.push(nb2);
                        }
                    };
                    if lo == 0 {
                        emit(&frontier, &mut chunk);
                    }
                    for h in 1..=bound {
                        if (h as u32) > hi.unwrap_or(u32::MAX) {
                            break;
                        }
                        let mut nf = Vec::new();
                        for c in &frontier {
                            for (_, nb) in steps(m, &a, *c, dir, &e.types[i], r) {
                                nf.push(nb);
                            }
                        }
                        if nf.len() + chunk.len() + next.len() > cap {
                            return Err(Undecided::TooMany);
                        }
                        frontier = nf;
                        if frontier.is_empty() {
                            break;
                        }
                        if h as u32 >= lo {
                            emit(&frontier, &mut chunk);
                        }
                        if hi.is_none() && h == bound {
                            return Err(Undecided::Infinite);
                        }
                    }
                    next.extend(apply_stack(m, chunk, stack, lang, r)?);
                }
            }
            if next.len() + level.len() > cap {
                return Err(Undecided::TooMany);
            }
        }
        if e.lens[i].is_none() {
            next = apply_stack(m, level, stack, lang, r)?;
        }
        cur = next;
    }
    Ok(cur)
}

// ------------------------------------------------------------------ expressions

/// None = property missing; Some(Null) = stored null
fn prop_raw(m: &Model, b: &Binding, v: Var, k: &str) -> Option<Value> {
    match v {
        Var::N(i) => b.nodes.get(i).and_then(|id| m.nodes[id].props.get(k).cloned()),
        Var::E(i) => match b.edges.get(i).copied().flatten() {
            Some(e) => m.edges[&e].props.get(k).cloned(),
            None => None,
        },
    }
}

fn prop_of(m: &Model, b: &Binding, v: Var, k: &str) -> Value {
    prop_raw(m, b, v, k).unwrap_or(Value::Null)
}

/// None = missing / not computable; Some(Null) = a null value
pub fn eval_term(m: &Model, b: &Binding, t: &Term) -> Option<Value> {
    match t {
        Term::Prop(v, k) => prop_raw(m, b, *v, k),
        Term::Const(c) => Some(c.clone()),
        Term::Ar(op, x, y) => {
            let (x, y) = (eval_term(m, b, x)?, eval_term(m, b, y)?);
            match (x, y) {
                (Value::Int64(x), Value::Int64(y)) => match op {
                    ArOp::Add => x.checked_add(y),
                    ArOp::Sub => x.checked_sub(y),
                    ArOp::Mul => x.checked_mul(y),
                }
                .map(Value::Int64),
                (x @ (Value::Int64(_) | Value::Float64(_)), y @ (Value::Int64(_) | Value::Float64(_))) => {
                    let f = |v: &Value| match v {
                        Value::Int64(i) => *i as f64,
                        Value::Float64(f) => *f,
                        _ => unreachable!(),
                    };
                    let (x, y) = (f(&x), f(&y));
                    Some(Value::Float64(match op {
                        ArOp::Add => x + y,
                        ArOp::Sub => x - y,
                        ArOp::Mul => x * y,
                    }))
                }
                _ => None,
            }
        }
    }
}

pub fn class(v: &Value) -> u8 {
    match v {
        Value::Null => 0,
        Value::Bool(_) => 1,
        Value::Int64(_) | Value::Float64(_) => 2,
        Value::String(_) => 3,
        _ => 4,
    }
}

fn same(x: &Value, y: &Value) -> bool {
    class(x) == class(y) && cmp_values(x, y) == Some(Ordering::Equal)
}

fn compare(op: CmpOp, x: &Value, y: &Value) -> Option<bool> {
    // both non-null
    match op {
        CmpOp::Eq => Some(same(x, y)),
        CmpOp::Ne => Some(!same(x, y)),
        _ => {
            // values of different kinds, and booleans, are not ordered: unknown
            if class(x) != class(y) || class(x) == 1 || class(x) > 3 {
                return None;
            }
            let c = cmp_values(x, y)?;
            Some(match op {
                CmpOp::Lt => c == Ordering::Less,
                CmpOp::Le => c != Ordering::Greater,
                CmpOp::Gt => c == Ordering::Greater,
                _ => c != Ordering::Less,
            })
        }
    }
}

/// Three-valued evaluation: Some(true) / Some(false) / None (unknown)
pub fn eval_pred(m: &Model, b: &Binding, p: &Pred, lang: Lang, r: &Rules) -> Option<bool> {
    let is_null = |v: &Option<Value>| matches!(v, None | Some(Value::Null));
    match p {
        Pred::Cmp(op, x, y) => {
            let (x, y) = (eval_term(m, b, x), eval_term(m, b, y));
            if r.on(Rule::NullAsValue) {
                // filter.rs values_equal: a null *value* is an ordinary value for = and <>
                let (x, y) = (x?, y?);
                let xn = matches!(x, Value::Null);
                let yn = matches!(y, Value::Null);
                if xn || yn {
                    return match op {
                        CmpOp::Eq => Some(xn && yn),
                        CmpOp::Ne => Some(!(xn && yn)),
                        _ => None,
                    };
                }
                return compare(*op, &x, &y);
            }
            if is_null(&x) || is_null(&y) {
                return None;
            }
            compare(*op, &x.unwrap(), &y.unwrap())
        }
        Pred::And(x, y) => {
            let (x, y) = (eval_pred(m, b, x, lang, r), eval_pred(m, b, y, lang, r));
            if r.on(Rule::AndOrNull) {
                // both operands are evaluated first; either unknown makes the result unknown
                let (x, y) = (x?, y?);
                return Some(x && y);
            }
            match (x, y) {
                (Some(false), _) | (_, Some(false)) => Some(false),
                (Some(true), Some(true)) => Some(true),
                _ => None,
            }
        }
        Pred::Or(x, y) => {
            let (x, y) = (eval_pred(m, b, x, lang, r), eval_pred(m, b, y, lang, r));
            if r.on(Rule::AndOrNull) {
                let (x, y) = (x?, y?);
                return Some(x || y);
            }
            match (x, y) {
                (Some(true), _) | (_, Some(true)) => Some(true),
                (Some(false), Some(false)) => Some(false),
                _ => None,
            }
        }
        Pred::Not(x, bare) => {
            if *bare && lang == Lang::Gql && r.on(Rule::GqlNotPrecedence) {
                if let Pred::Cmp(op, l, rr) = &**x {
                    // parsed as (NOT l) op r: NOT of a non-boolean is unknown
                    let Some(Value::Bool(v)) = eval_term(m, b, l) else { return None };
                    let y = eval_term(m, b, rr)?;
                    if matches!(y, Value::Null) {
                        return match op {
                            CmpOp::Eq => Some(false),
                            CmpOp::Ne => Some(true),
                            _ => None,
                        };
                    }
                    return compare(*op, &Value::Bool(!v), &y);
                }
            }
            eval_pred(m, b, x, lang, r).map(|v| !v)
        }
        Pred::IsNull(t, neg) => Some(is_null(&eval_term(m, b, t)) != *neg),
        Pred::PredIsNull(x) => Some(eval_pred(m, b, x, lang, r).is_none()),
        Pred::In(t, l) => {
            let x = eval_term(m, b, t);
            if r.on(Rule::NullAsValue) {
                let x = x?;
                return Some(l.iter().any(|c| if matches!(x, Value::Null) { matches!(c, Value::Null) } else { same(c, &x) }));
            }
            if is_null(&x) {
                return None;
            }
            let x = x.unwrap();
            Some(l.iter().any(|c| same(c, &x)))
        }
        Pred::Str(op, t, s) => match eval_term(m, b, t) {
            Some(Value::String(x)) => Some(match op {
                StrOp::Starts => x.as_str().starts_with(s.as_str()),
                StrOp::Ends => x.as_str().ends_with(s.as_str()),
                StrOp::Contains => x.as_str().contains(s.as_str()),
            }),
            _ => None,
        },
    }
}

/// `as_node`: the edge column went through a sort/skip/limit/WITH that retyped it, so the
/// edge id is looked up as a node id (rule EdgeColTypeLost)
pub fn eval_proj(m: &Model, b: &Binding, p: &Proj, as_node: bool) -> Value {
    match p {
        Proj::Prop(Var::E(i), k) if as_node => match b.edges[*i] {
            Some(e) => m.nodes.get(&e).and_then(|n| n.props.get(k).cloned()).unwrap_or(Value::Null),
            None => Value::Null,
        },
        Proj::Type(_) if as_node => Value::Null,
        Proj::Prop(v, k) => prop_of(m, b, *v, k),
        Proj::Id(Var::N(i)) => Value::Int64(b.nodes[*i] as i64),
        Proj::Id(Var::E(i)) => b.edges[*i].map(|e| Value::Int64(e as i64)).unwrap_or(Value::Null),
        Proj::Type(i) => b.edges[*i].map(|e| vals::s(&m.edges[&e].ty)).unwrap_or(Value::Null),
        Proj::Labels(i) => vals::list(m.nodes[&b.nodes[*i]].labels.iter().map(|l| vals::s(l)).collect()),
    }
}

/// canonical key of one value: lists as multisets; `loose` identifies Int and Float of the
/// same numeric value (sum/avg columns)
pub fn vkey(v: &Value, loose: bool) -> String {
    match v {
        Value::List(l) => {
            let mut ks: Vec<String> = l.iter().map(|x| vkey(x, loose)).collect();
            ks.sort();
            format!("L[{}]", ks.join(","))
        }
        Value::Int64(i) if loose => format!("#{:016x}", (*i as f64).to_bits()),
        Value::Float64(f) if loose => format!("#{:016x}", if *f == 0.0 { 0f64.to_bits() } else { f.to_bits() }),
        Value::Float64(f) if *f == 0.0 => vals::key(&Value::Float64(0.0)),
        other => vals::key(other),
    }
}

pub fn loose_cols(q: &Query) -> Vec<bool> {
    match &q.ret {
        Ret::Plain { items, .. } => vec![false; items.len()],
        Ret::Agg { keys, aggs } => {
            let mut v = vec![false; keys.len()];
            v.extend(aggs.iter().map(|a| matches!(a.f, AggFn::Sum | AggFn::Avg)));
            v
        }
    }
}

pub fn rowkey(r: &Row, loose: &[bool]) -> String {
    r.iter().enumerate().map(|(i, v)| vkey(v, loose.get(i).copied().unwrap_or(false))).collect::<Vec<_>>().join("|")
}

fn as_f64(v: &Value) -> Option<f64> {
    match v {
        Value::Int64(i) => Some(*i as f64),
        Value::Float64(f) => Some(*f),
        _ => None,
    }
}

fn aggregate(a: &Agg, m: &Model, bs: &[&Binding], lang: Lang, r: &Rules) -> Result<Value, Undecided> {
    if matches!(a.arg, AggArg::Star | AggArg::Var(_)) {
        // variables are never null in the core (no OPTIONAL MATCH)
        return Ok(Value::Int64(bs.len() as i64));
    }
    let AggArg::Prop(v, k) = &a.arg else { unreachable!() };
    if a.f == AggFn::Count && !a.distinct && lang == Lang::Cypher && r.on(Rule::CypherCountProp) {
        // cypher_translator.rs: count(expr) is planned as count(*)
        return Ok(Value::Int64(bs.len() as i64));
    }
    let mut vals_: Vec<Value> = bs.iter().map(|b| prop_of(m, b, *v, k)).filter(|x| !matches!(x, Value::Null)).collect();
    if a.distinct {
        let mut seen = std::collections::BTreeSet::new();
        vals_.retain(|x| seen.insert(vkey(x, false)));
    }
    let out = match a.f {
        AggFn::Count => Value::Int64(vals_.len() as i64),
        AggFn::Collect => vals::list(vals_),
        AggFn::Sum => {
            // non-numeric values are ignored (assumption A-sum)
            let nums: Vec<&Value> = vals_.iter().filter(|x| class(x) == 2).collect();
            if nums.iter().all(|x| matches!(x, Value::Int64(_))) {
                Value::Int64(nums.iter().map(|x| if let Value::Int64(i) = x { *i } else { 0 }).sum())
            } else {
                Value::Float64(nums.iter().filter_map(|x| as_f64(x)).sum())
            }
        }
        AggFn::Avg => {
            let nums: Vec<f64> = vals_.iter().filter_map(as_f64).collect();
            if nums.is_empty() { Value::Null } else { Value::Float64(nums.iter().sum::<f64>() / nums.len() as f64) }
        }
        AggFn::Min | AggFn::Max => {
            if vals_.is_empty() {
                Value::Null
            } else {
                let c = class(&vals_[0]);
                if vals_.iter().any(|x| class(x) != c) {
                    return Err(Undecided::MixedMinMax);
                }
                let mut best = vals_[0].clone();
                for x in &vals_[1..] {
                    let o = cmp_values(x, &best).unwrap_or(Ordering::Equal);
                    if (a.f == AggFn::Min && o == Ordering::Less) || (a.f == AggFn::Max && o == Ordering::Greater) {
                        best = x.clone();
                    }
                }
                best
            }
        }
    };
    if r.on(Rule::AggIntTyped) && matches!(a.f, AggFn::Sum | AggFn::Min | AggFn::Max) && !matches!(out, Value::Int64(_) | Value::Null) {
        // planner.rs plan_aggregate types the sum/min/max output column Int64; a value of any
        // other kind is replaced by the column default
        return Ok(Value::Int64(0));
    }
    Ok(out)
}

fn projects_edge(q: &Query) -> bool {
    matches!(&q.ret, Ret::Plain { items, .. } if items.iter().any(|p| matches!(p, Proj::Prop(Var::E(_), _) | Proj::Type(_))))
}

/// Does rule EdgeColTypeLost hit the projections of this query? `n` = rows entering the tail.
/// GQL: Sort always rebuilds its columns; Skip/Limit rebuild only the chunk they cut
/// (limit.rs). Cypher: the WITH projection itself re-types.
pub fn edge_cols_retyped(q: &Query, lang: Lang, r: &Rules, n: usize) -> Result<bool, Undecided> {
    if !r.on(Rule::EdgeColTypeLost) || q.is_agg() || !projects_edge(q) {
        return Ok(false);
    }
    let out = edge_cols_retyped_inner(q, lang, n)?;
    // what type(e) reads from a re-typed column is not modelled
    if out && matches!(&q.ret, Ret::Plain { items, .. } if items.iter().any(|p| matches!(p, Proj::Type(_)))) {
        return Err(Undecided::Tainted(Rule::EdgeColTypeLost));
    }
    Ok(out)
}

fn edge_cols_retyped_inner(q: &Query, lang: Lang, n: usize) -> Result<bool, Undecided> {
    let tail = !q.order.is_empty() || q.skip.is_some() || q.limit.is_some();
    match lang {
        Lang::Gql => {
            if !tail {
                return Ok(false);
            }
            if !q.order.is_empty() {
                return Ok(true);
            }
            // skip/limit cut a chunk: boundaries are known only for a single chunk
            if n > 2048 || q.edges.iter().any(|e| e.len.is_some()) {
                return Err(Undecided::Tainted(Rule::EdgeColTypeLost));
            }
            let k = q.skip.unwrap_or(0) as usize;
            let cut_by_skip = k > 0 && k < n;
            let left = n.saturating_sub(k);
            let cut_by_limit = q.limit.is_some_and(|l| (l as usize) < left);
            Ok(cut_by_skip || cut_by_limit)
        }
        Lang::Cypher => Ok(tail && q.order_in_with && !matches!(q.ret, Ret::Plain { distinct: true, .. })),
        _ => Ok(false),
    }
}

/// consecutive single-hop expands with nothing in between are run by the factorized chain
/// operator; when some level of the chain has no edge at all (while its input has rows) the
/// level is not added and the flattened result is garbage
fn factorized_taint(m: &Model, q: &Query, lang: Lang, e: &Eff, r: &Rules, cap: usize) -> Result<bool, Undecided> {
    let h = q.edges.len();
    if h < 2 {
        return Ok(false);
    }
    // a filter operator after expand i breaks the chain
    let break_after = |i: usize| -> bool { !e.stacks[i].is_empty() };
    let mut segs = Vec::new();
    let mut start: Option<usize> = None;
    for i in 1..=h {
        if e.lens[i - 1].is_some() {
            if let Some(a) = start.take() {
                segs.push((a, i - 1));
            }
            continue;
        }
        if start.is_none() {
            start = Some(i);
        }
        if break_after(i) || i == h {
            segs.push((start.take().unwrap(), i));
        }
    }
    let a = adjacency(m);
    for (sa, sb) in segs {
        if sb < sa + 1 {
            continue;
        }
        let bs = bindings(m, q, e, sa - 1, lang, r, cap)?;
        let mut frontier: Vec<u64> = bs.iter().map(|b| *b.nodes.last().unwrap()).collect();
        for j in sa..=sb {
            if frontier.is_empty() {
                break;
            }
            let mut nf = Vec::new();
            for c in &frontier {
                for (_, nb) in steps(m, &a, *c, q.edges[j - 1].dir, &e.types[j - 1], r) {
                    nf.push(nb);
                }
            }
            if nf.len() > cap {
                return Err(Undecided::TooMany);
            }
            if nf.is_empty() {
                return Ok(true);
            }
            nf.sort_unstable();
            nf.dedup();
            frontier = nf;
        }
    }
    Ok(false)
}

/// Rows after MATCH, WHERE, projection / grouping+aggregation and DISTINCT (not yet ordered
/// or windowed), under the given rules.
pub fn eval_rows(m: &Model, q: &Query, lang: Lang, r: &Rules, cap: usize) -> Result<Vec<Row>, Undecided> {
    let e = effective(q, lang, r);
    if r.on(Rule::FactorizedEmptyLevel) && factorized_taint(m, q, lang, &e, r, cap)? {
        return Err(Undecided::Tainted(Rule::FactorizedEmptyLevel));
    }
    if r.on(Rule::GqlWindowFirst) && lang == Lang::Gql && q.is_agg() && (q.skip.is_some() || q.limit.is_some()) {
        return Err(Undecided::Tainted(Rule::GqlWindowFirst));
    }
    let mut bs = bindings(m, q, &e, q.edges.len(), lang, r, cap)?;
    if r.on(Rule::ZoneMapPrecheck) && zone_empties(m, &e, lang) {
        bs.clear();
    }
    let kept: Vec<&Binding> = bs.iter().filter(|b| e.pred.as_ref().is_none_or(|p| eval_pred(m, b, p, lang, r) == Some(true))).collect();
    let as_node = edge_cols_retyped(q, lang, r, kept.len())?;
    let rows = match &q.ret {
        Ret::Plain { items, distinct } => {
            let mut rows: Vec<Row> = kept.iter().map(|b| items.iter().map(|p| eval_proj(m, b, p, as_node)).collect()).collect();
            let ignored = r.on(Rule::DistinctIgnored) && matches!(lang, Lang::Gql | Lang::Cypher);
            if *distinct && !ignored {
                let mut seen = std::collections::BTreeSet::new();
                rows.retain(|r| seen.insert(rowkey(r, &[])));
            }
            rows
        }
        Ret::Agg { keys, aggs } => {
            let mut groups: BTreeMap<String, (Row, Vec<&Binding>)> = BTreeMap::new();
            for b in &kept {
                let kv: Row = keys.iter().map(|p| eval_proj(m, b, p, false)).collect();
                groups.entry(rowkey(&kv, &[])).or_insert_with(|| (kv, Vec::new())).1.push(b);
            }
            if keys.is_empty() && groups.is_empty() {
                groups.insert(String::new(), (vec![], vec![]));
            }
            let mut rows = Vec::new();
            for (_, (kv, gb)) in groups {
                let mut row = kv;
                for a in aggs {
                    row.push(aggregate(a, m, &gb, lang, r)?);
                }
                rows.push(row);
            }
            rows
        }
    };
    Ok(rows)
}

/// compare two sort-key values; None = not comparable here (null involved or different kinds)
pub fn sort_cmp(a: &Value, b: &Value) -> Option<Ordering> {
    if class(a) == 0 || class(b) == 0 || class(a) != class(b) || class(a) > 3 {
        return None;
    }
    cmp_values(a, b)
}

// ------------------------------------------------------------------ expected errors

fn pred_has(p: &Pred, f: &dyn Fn(&Pred) -> bool) -> bool {
    if f(p) {
        return true;
    }
    match p {
        Pred::And(a, b) | Pred::Or(a, b) => pred_has(a, f) || pred_has(b, f),
        Pred::Not(a, _) | Pred::PredIsNull(a) => pred_has(a, f),
        _ => false,
    }
}

/// (rule, substring the error class must contain) for every construct of the query that a
/// front end is known to refuse although another front end answers it
pub fn expected_errors(q: &Query, lang: Lang, r: &Rules) -> Vec<(Rule, &'static str)> {
    let mut v = Vec::new();
    let mut add = |rule: Rule, s: &'static str| {
        if r.on(rule) {
            v.push((rule, s));
        }
    };
    let has_tail_order = !q.order.is_empty();
    let count_star = matches!(&q.ret, Ret::Agg { aggs, .. } if aggs.iter().any(|a| a.arg == AggArg::Star));
    match lang {
        Lang::Gql => {
            if q.pred.as_ref().is_some_and(|p| pred_has(p, &|x| matches!(x, Pred::IsNull(..) | Pred::PredIsNull(..)))) {
                add(Rule::ErrGqlIsNull, "syntax error");
            }
            if q.pred.as_ref().is_some_and(|p| pred_has(p, &|x| matches!(x, Pred::In(..)))) {
                add(Rule::ErrGqlIn, "syntax error");
            }
            if count_star {
                add(Rule::ErrCountStar, "syntax error");
            }
            if q.edges.iter().any(|e| e.types.len() > 1) {
                add(Rule::ErrGqlType2, "syntax error");
            }
        }
        Lang::Cypher => {
            if count_star {
                add(Rule::ErrCountStar, "syntax error");
            }
            if let Ret::Plain { distinct, .. } = &q.ret {
                if has_tail_order && (!q.order_in_with || *distinct) {
                    add(Rule::ErrCypherOrderBy, "not found for ORDER BY");
                }
            }
        }
        Lang::GraphQL => {
            if has_tail_order {
                add(Rule::ErrGraphqlOrderBy, "not found for ORDER BY");
            }
        }
        Lang::Gremlin => match &q.ret {
            Ret::Plain { items, .. } => {
                if items.iter().any(|p| matches!(p, Proj::Id(_) | Proj::Labels(_))) {
                    add(Rule::ErrGremlinIdLabel, "Unsupported RETURN expression");
                }
            }
            Ret::Agg { aggs, .. } => {
                if aggs.iter().any(|a| a.f == AggFn::Collect) {
                    add(Rule::ErrGremlinFold, "not found in input");
                }
            }
        },
    }
    v
}
