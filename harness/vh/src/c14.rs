//! C14 — not built yet.
use crate::report::Tier;

pub fn run(_tier: Tier, _seed: u64) -> ! {
    println!("INCONCLUSIVE property=C14 reason=monitor not built yet");
    std::process::exit(2)
}
