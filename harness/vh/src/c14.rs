//! C14 — every access path to the property graph tells the same story.
//! After EVERY operation of a random mutation history (direct LpgStore API, epoch 0, one thread)
//! a cross-accessor invariant walker compares all accessors with the reference model.

use crate::model::{Model, cmp_values};
use crate::report::{Report, Tier};
use crate::rng::{Rng, hash_str};
use crate::util::catch;
use crate::vals::{self, bit_eq};
use grafeo_common::types::{EdgeId, NodeId, PropertyKey, Value};
use grafeo_core::graph::Direction;
use grafeo_core::graph::lpg::{CompareOp, LpgStore};
use serde_json::json;
use std::cmp::Ordering;
use std::collections::{BTreeMap, BTreeSet};

const LABELS: &[&str] = &["A", "B", "C"];
const TYPES: &[&str] = &["R", "S"];
const KEYS: &[&str] = &["k", "w", "z"];

fn prop_value(r: &mut Rng) -> Value {
    match r.below(12) {
        0..=3 => Value::Int64(r.range(-3, 6)),
        4 | 5 => Value::Float64(r.range(-4, 8) as f64 / 2.0),
        6 | 7 => vals::s(*r.pick(&["a", "b", "ab", ""])),
        8 => Value::Bool(r.chance(0.5)),
        9 => r.pick(&[Value::Float64(0.0), Value::Float64(-0.0), Value::Int64(i64::MAX), Value::Int64(0), Value::Float64(f64::NAN)]).clone(),
        10 => Value::Null,
        _ => vals::random(r, 1),
    }
}

struct Ctx<'a> {
    rep: &'a mut Report,
    store: LpgStore,
    model: Model,
    indexed: BTreeSet<String>,
    backward: bool,
    /// nodes deleted without detaching their edges (dangling endpoints are legal then)
    hist: Vec<String>,
    last_op: String,
    /// base signatures already reported in this history (state invariants persist once broken;
    /// each is attributed to the operation after which it first appeared)
    fired: BTreeSet<String>,
}

/// Class of a probe value for equality-based lookups: what matters is whether it contains a
/// float whose bit-identity and numeric equality differ (NaN, signed zero), at any depth.
fn vclass(v: &Value) -> &'static str {
    fn feat(v: &Value, nan: &mut bool, zero: &mut bool) {
        match v {
            Value::Float64(f) => {
                *nan |= f.is_nan();
                *zero |= *f == 0.0;
            }
            Value::Vector(x) => {
                for f in x.iter() {
                    *nan |= f.is_nan();
                    *zero |= *f == 0.0;
                }
            }
            Value::List(l) => l.iter().for_each(|x| feat(x, nan, zero)),
            Value::Map(m) => m.values().for_each(|x| feat(x, nan, zero)),
            _ => {}
        }
    }
    let (mut nan, mut zero) = (false, false);
    feat(v, &mut nan, &mut zero);
    if nan {
        "contains_nan"
    } else if zero {
        "contains_float_zero"
    } else {
        vals::class(v)
    }
}

impl Ctx<'_> {
    fn dev(&mut self, sig: &str, detail: serde_json::Value) {
        if !self.fired.insert(sig.to_string()) {
            return;
        }
        let tail: Vec<&String> = self.hist.iter().rev().take(12).collect();
        let sig = if sig.starts_with("adj.") { format!("{sig}|backward={}", self.backward) } else { sig.to_string() };
        self.rep.deviation(&sig, json!({"detail": detail, "first_appeared_after": self.last_op, "backward_adjacency": self.backward, "last_ops_newest_first": tail, "history_len": self.hist.len()}));
    }

    fn walk(&mut self, rng: &mut Rng) {
        let m = self.model.clone();
        let st = &self.store;
        let mut devs: Vec<(String, serde_json::Value)> = Vec::new();
        let mut d = |s: &str, j: serde_json::Value| devs.push((s.to_string(), j));

        // ---- nodes
        let mut ids: Vec<u64> = st.node_ids().iter().map(|n| n.as_u64()).collect();
        ids.sort_unstable();
        let mids: Vec<u64> = m.nodes.keys().copied().collect();
        if ids != mids {
            d("nodes.node_ids", json!({"got": ids, "expected": mids}));
        }
        if st.node_count() != mids.len() {
            d("nodes.node_count", json!({"got": st.node_count(), "expected": mids.len()}));
        }
        let mut all: BTreeMap<u64, (BTreeSet<String>, BTreeMap<String, Value>)> = BTreeMap::new();
        let mut dup = false;
        for n in st.all_nodes() {
            let e = (
                n.labels.iter().map(|l| l.to_string()).collect::<BTreeSet<_>>(),
                n.properties.iter().map(|(k, v)| (k.as_str().to_string(), v.clone())).collect::<BTreeMap<_, _>>(),
            );
            if all.insert(n.id.as_u64(), e).is_some() {
                dup = true;
            }
        }
        if dup {
            d("nodes.all_nodes_repeats", json!({}));
        }
        if all.keys().copied().collect::<Vec<_>>() != mids {
            d("nodes.all_nodes_ids", json!({"got": all.keys().collect::<Vec<_>>(), "expected": mids}));
        }
        for id in &m.ever_nodes {
            let got = st.get_node(NodeId::new(*id));
            match (m.nodes.get(id), got) {
                (None, None) => {}
                (None, Some(_)) => d("nodes.get_node_returns_deleted", json!({"id": id})),
                (Some(_), None) => d("nodes.get_node_misses_live", json!({"id": id})),
                (Some(mn), Some(n)) => {
                    let labels: BTreeSet<String> = n.labels.iter().map(|l| l.to_string()).collect();
                    if labels != mn.labels {
                        d("nodes.get_node_labels", json!({"id": id, "got": labels, "expected": mn.labels}));
                    }
                    let props: BTreeMap<String, Value> = n.properties.iter().map(|(k, v)| (k.as_str().to_string(), v.clone())).collect();
                    let same = props.len() == mn.props.len() && props.iter().all(|(k, v)| mn.props.get(k).is_some_and(|x| bit_eq(x, v)));
                    if !same {
                        d("nodes.get_node_props", json!({"id": id, "got": format!("{props:?}"), "expected": format!("{:?}", mn.props)}));
                    }
                    if let Some(a) = all.get(id) {
                        if a.0 != mn.labels {
                            d("nodes.all_nodes_labels", json!({"id": id}));
                        }
                    }
                    for k in KEYS {
                        let g = st.get_node_property(NodeId::new(*id), &PropertyKey::new(*k));
                        let e = mn.props.get(*k);
                        let ok = match (&g, e) {
                            (None, None) => true,
                            (Some(a), Some(b)) => bit_eq(a, b),
                            _ => false,
                        };
                        if !ok {
                            d("nodes.get_node_property", json!({"id": id, "key": k, "got": g.as_ref().map(vals::show), "expected": e.map(vals::show)}));
                        }
                    }
                }
            }
        }
        // batch getter agrees
        let live: Vec<NodeId> = mids.iter().map(|i| NodeId::new(*i)).collect();
        for k in KEYS {
            let key = PropertyKey::new(*k);
            let b = st.get_node_property_batch(&live, &key);
            for (i, id) in mids.iter().enumerate() {
                let e = m.nodes[id].props.get(*k);
                let ok = match (&b[i], e) {
                    (None, None) => true,
                    (Some(a), Some(b)) => bit_eq(a, b),
                    _ => false,
                };
                if !ok {
                    d("nodes.get_node_property_batch", json!({"id": id, "key": k}));
                }
            }
        }
        // ---- labels
        for l in LABELS {
            let mut got: Vec<u64> = st.nodes_by_label(l).iter().map(|n| n.as_u64()).collect();
            got.sort_unstable();
            let exp = m.with_label(l);
            if got != exp {
                let extra: Vec<&u64> = got.iter().filter(|x| !exp.contains(x)).collect();
                let kind = if extra.iter().any(|x| !m.nodes.contains_key(x)) {
                    "label.nodes_by_label_returns_deleted"
                } else if !extra.is_empty() {
                    "label.nodes_by_label_extra"
                } else {
                    "label.nodes_by_label_missing"
                };
                d(kind, json!({"label": l, "got": got, "expected": exp}));
            }
            let mut got2: Vec<u64> = st.nodes_with_label(l).map(|n| n.id.as_u64()).collect();
            got2.sort_unstable();
            if got2 != exp {
                d("label.nodes_with_label", json!({"label": l, "got": got2, "expected": exp}));
            }
        }
        // ---- edges
        let mut eall: BTreeMap<u64, (u64, u64, String)> = BTreeMap::new();
        let mut edup = false;
        for e in st.all_edges() {
            if eall.insert(e.id.as_u64(), (e.src.as_u64(), e.dst.as_u64(), e.edge_type.to_string())).is_some() {
                edup = true;
            }
        }
        if edup {
            d("edges.all_edges_repeats", json!({}));
        }
        let meids: Vec<u64> = m.edges.keys().copied().collect();
        if eall.keys().copied().collect::<Vec<_>>() != meids {
            d("edges.all_edges_ids", json!({"got": eall.keys().collect::<Vec<_>>(), "expected": meids}));
        }
        if st.edge_count() != meids.len() {
            d("edges.edge_count", json!({"got": st.edge_count(), "expected": meids.len()}));
        }
        for id in &m.ever_edges {
            let got = st.get_edge(EdgeId::new(*id));
            match (m.edges.get(id), got) {
                (None, None) => {}
                (None, Some(_)) => d("edges.get_edge_returns_deleted", json!({"id": id})),
                (Some(_), None) => d("edges.get_edge_misses_live", json!({"id": id})),
                (Some(me), Some(e)) => {
                    if (e.src.as_u64(), e.dst.as_u64(), e.edge_type.as_str()) != (me.src, me.dst, me.ty.as_str()) {
                        d("edges.get_edge_shape", json!({"id": id}));
                    }
                    let props: BTreeMap<String, Value> = e.properties.iter().map(|(k, v)| (k.as_str().to_string(), v.clone())).collect();
                    let same = props.len() == me.props.len() && props.iter().all(|(k, v)| me.props.get(k).is_some_and(|x| bit_eq(x, v)));
                    if !same {
                        d("edges.get_edge_props", json!({"id": id, "got": format!("{props:?}"), "expected": format!("{:?}", me.props)}));
                    }
                    if st.edge_type(EdgeId::new(*id)).map(|s| s.to_string()) != Some(me.ty.clone()) {
                        d("edges.edge_type", json!({"id": id}));
                    }
                }
            }
            if !m.edges.contains_key(id) && st.edge_type(EdgeId::new(*id)).is_some() {
                d("edges.edge_type_of_deleted", json!({"id": id}));
            }
        }
        for t in TYPES {
            let mut got: Vec<u64> = st.edges_with_type(t).map(|e| e.id.as_u64()).collect();
            got.sort_unstable();
            let exp: Vec<u64> = m.edges.iter().filter(|(_, e)| e.ty == *t).map(|(i, _)| *i).collect();
            if got != exp {
                d("edges.edges_with_type", json!({"type": t, "got": got, "expected": exp}));
            }
        }
        // adjacency for every node ever seen (deleted nodes may keep edges if not detached:
        // the model keeps those edges too, so the demand is the same)
        for n in &m.ever_nodes {
            let nid = NodeId::new(*n);
            let mut out: Vec<(u64, u64)> = st.edges_from(nid, Direction::Outgoing).map(|(a, b)| (a.as_u64(), b.as_u64())).collect();
            out.sort_unstable();
            let eout = m.out_edges(*n);
            if out != eout {
                let kind = if out.iter().any(|(_, e)| !m.edges.contains_key(e)) { "adj.out_returns_deleted_edge" } else if out.len() > eout.len() { "adj.out_extra" } else { "adj.out_missing" };
                d(kind, json!({"node": n, "got": out, "expected": eout}));
            }
            if st.out_degree(nid) != eout.len() {
                d("adj.out_degree", json!({"node": n, "got": st.out_degree(nid), "expected": eout.len()}));
            }
            let mut nb: Vec<u64> = st.neighbors(nid, Direction::Outgoing).map(|x| x.as_u64()).collect();
            nb.sort_unstable();
            let mut enb: Vec<u64> = eout.iter().map(|x| x.0).collect();
            enb.sort_unstable();
            if nb != enb {
                d("adj.neighbors_out", json!({"node": n, "got": nb, "expected": enb}));
            }
            // incoming
            let ein = m.in_edges(*n);
            let mut inc: Vec<(u64, u64)> = st.edges_to(nid).iter().map(|(a, b)| (a.as_u64(), b.as_u64())).collect();
            inc.sort_unstable();
            if inc != ein {
                let kind = if inc.iter().any(|(_, e)| !m.edges.contains_key(e)) { "adj.in_returns_deleted_edge" } else if inc.len() > ein.len() { "adj.in_extra" } else { "adj.in_missing" };
                d(kind, json!({"node": n, "got": inc, "expected": ein}));
            }
            if st.in_degree(nid) != ein.len() {
                d("adj.in_degree", json!({"node": n, "got": st.in_degree(nid), "expected": ein.len()}));
            }
            if self.backward {
                let mut inc2: Vec<(u64, u64)> = st.edges_from(nid, Direction::Incoming).map(|(a, b)| (a.as_u64(), b.as_u64())).collect();
                inc2.sort_unstable();
                if inc2 != ein {
                    d("adj.edges_from_incoming", json!({"node": n, "got": inc2, "expected": ein}));
                }
                let mut both: Vec<(u64, u64)> = st.edges_from(nid, Direction::Both).map(|(a, b)| (a.as_u64(), b.as_u64())).collect();
                both.sort_unstable();
                let mut eboth: Vec<(u64, u64)> = eout.iter().chain(ein.iter()).copied().collect();
                eboth.sort_unstable();
                if both != eboth {
                    d("adj.edges_from_both", json!({"node": n, "got": both, "expected": eboth}));
                }
            }
        }
        // ---- property lookup: index vs scan vs model
        for k in KEYS {
            // probe values: every value present + a few absent
            let mut probes: Vec<Value> = m.nodes.values().filter_map(|n| n.props.get(*k).cloned()).collect();
            probes.push(Value::Int64(99));
            probes.push(Value::Float64(1.0));
            probes.push(Value::Int64(1));
            probes.truncate(14);
            for v in &probes {
                let mut got: Vec<u64> = st.find_nodes_by_property(k, v).iter().map(|n| n.as_u64()).collect();
                got.sort_unstable();
                got.dedup();
                // specification: "a property lookup through an index equals a scan for that value":
                // scan = nodes whose stored value == probe (Value equality)
                let exp: Vec<u64> = m.nodes.iter().filter(|(_, n)| n.props.get(*k).is_some_and(|x| x == v)).map(|(i, _)| *i).collect();
                if got != exp {
                    let path = if self.indexed.contains(*k) { "index" } else { "scan" };
                    let kind = if got.iter().any(|x| !m.nodes.contains_key(x)) {
                        "returns_deleted"
                    } else if got.iter().any(|x| !exp.contains(x)) {
                        "extra"
                    } else {
                        "missing"
                    };
                    d(&format!("prop.find_by_property[{path}].{kind}|{}", vclass(v)), json!({"key": k, "value": vals::show(v), "got": got, "expected": exp}));
                }
                let conds = [(*k, v.clone())];
                let mut got2: Vec<u64> = st.find_nodes_by_properties(&conds).iter().map(|n| n.as_u64()).collect();
                got2.sort_unstable();
                got2.dedup();
                if got2 != got {
                    d("prop.find_by_properties_vs_find_by_property", json!({"key": k, "value": vals::show(v), "single": got, "multi": got2}));
                }
            }
        }
        // ---- zone map soundness + range finder
        for _ in 0..12 {
            let k = *rng.pick(KEYS);
            let key = PropertyKey::new(k);
            let lit = prop_value(rng);
            if matches!(lit, Value::Null) {
                continue;
            }
            let (op, name): (CompareOp, &str) = *rng.pick(&[
                (CompareOp::Eq, "eq"),
                (CompareOp::Ne, "ne"),
                (CompareOp::Lt, "lt"),
                (CompareOp::Le, "le"),
                (CompareOp::Gt, "gt"),
                (CompareOp::Ge, "ge"),
            ]);
            let sat = |x: &Value| -> bool {
                match name {
                    "eq" => x == &lit,
                    // only values comparable with the literal count (whether 'a' <> 0 holds is
                    // the filter's business, judged by C10's differential)
                    "ne" => cmp_values(x, &lit).is_some_and(|o| o != Ordering::Equal),
                    _ => match cmp_values(x, &lit) {
                        None => false,
                        Some(o) => match name {
                            "lt" => o == Ordering::Less,
                            "le" => o != Ordering::Greater,
                            "gt" => o == Ordering::Greater,
                            _ => o != Ordering::Less,
                        },
                    },
                }
            };
            let matches: Vec<u64> = m.nodes.iter().filter(|(_, n)| n.props.get(k).is_some_and(&sat)).map(|(i, _)| *i).collect();
            if !st.node_property_might_match(&key, op, &lit) && !matches.is_empty() {
                d(&format!("zonemap.might_match_false_but_match_exists|{name}|{}", vclass(&lit)), json!({"key": k, "literal": vals::show(&lit), "matching_nodes": matches}));
            }
            // range finder: lit as lower/upper bound
            if matches!(name, "gt" | "ge" | "lt" | "le") {
                let (min, max, mi, ma) = match name {
                    "gt" => (Some(&lit), None, false, false),
                    "ge" => (Some(&lit), None, true, false),
                    "lt" => (None, Some(&lit), false, false),
                    _ => (None, Some(&lit), false, true),
                };
                let mut got: Vec<u64> = st.find_nodes_in_range(k, min, max, mi, ma).iter().map(|n| n.as_u64()).collect();
                got.sort_unstable();
                // the range finder documents same-kind comparison only; Int/Float mixing is
                // judged against the generic filter in C10, not here
                let same_kind = |x: &Value| std::mem::discriminant(x) == std::mem::discriminant(&lit);
                let matches: Vec<u64> = m.nodes.iter().filter(|(_, n)| n.props.get(k).is_some_and(|x| same_kind(x) && sat(x))).map(|(i, _)| *i).collect();
                if got != matches {
                    let kind = if got.iter().any(|x| !matches.contains(x)) { "extra" } else { "missing" };
                    d(&format!("range.find_nodes_in_range.{kind}|{name}|{}", vclass(&lit)), json!({"key": k, "literal": vals::show(&lit), "got": got, "expected": matches}));
                }
            }
        }
        drop(d);
        for (s, j) in devs {
            self.dev(&s, j);
        }
    }
}

fn run_history(rep: &mut Report, seed: u64, case: u64, len: usize, backward: bool, hub: bool) {
    let mut rng = Rng::new(seed, "C14", case);
    let store = if backward {
        LpgStore::new()
    } else {
        // LpgStoreConfig is not re-exported; build it through inference
        fn build<C: Default, R>(ctor: fn(C) -> R, tweak: fn(&mut C)) -> R {
            let mut c = C::default();
            tweak(&mut c);
            ctor(c)
        }
        build(LpgStore::with_config, |c| c.backward_edges = false)
    };
    let mut c = Ctx { rep, store, model: Model::default(), indexed: BTreeSet::new(), backward, hist: Vec::new(), last_op: String::new(), fired: BTreeSet::new() };
    let mut kinds: BTreeSet<&'static str> = BTreeSet::new();
    let mut max_degree = 0usize;
    for _step in 0..len {
        let live: Vec<u64> = c.model.nodes.keys().copied().collect();
        let elive: Vec<u64> = c.model.edges.keys().copied().collect();
        let w = [12u32, if hub { 40 } else { 14 }, 5, 6, 9, 4, 6, 3, 5, 4, 2, 1, 1, 1];
        let op = rng.weighted(&w);
        let name: &'static str;
        match op {
            0 => {
                name = "create_node";
                let nl = rng.below(3);
                let labels: Vec<&str> = (0..nl).map(|_| *rng.pick(LABELS)).collect::<BTreeSet<_>>().into_iter().collect();
                if rng.chance(0.5) {
                    let id = c.store.create_node(&labels);
                    c.model.add_node(id.as_u64(), &labels, &[]);
                    c.hist.push(format!("create_node({labels:?}) -> {}", id.as_u64()));
                } else {
                    let np = 1 + rng.below(2);
                    let props: Vec<(&str, Value)> = (0..np).map(|i| (KEYS[i], prop_value(&mut rng))).collect();
                    let id = c.store.create_node_with_props(&labels, props.iter().map(|(k, v)| (PropertyKey::new(*k), v.clone())));
                    c.model.add_node(id.as_u64(), &labels, &props);
                    c.hist.push(format!("create_node_with_props({labels:?}, {:?}) -> {}", props.iter().map(|(k, v)| format!("{k}={}", vals::show(v))).collect::<Vec<_>>(), id.as_u64()));
                }
            }
            1 => {
                name = "create_edge";
                if live.is_empty() {
                    continue;
                }
                let s = if hub { live[0] } else { *rng.pick(&live) };
                let t = if rng.chance(0.15) { s } else { *rng.pick(&live) };
                let (s, t) = if hub && rng.chance(0.3) { (t, s) } else { (s, t) };
                let ty = *rng.pick(TYPES);
                let id = c.store.create_edge(NodeId::new(s), NodeId::new(t), ty);
                c.model.add_edge(id.as_u64(), s, t, ty, &[]);
                c.hist.push(format!("create_edge({s},{t},{ty}) -> {}", id.as_u64()));
            }
            2 => {
                name = "delete_node_detach";
                if live.is_empty() {
                    continue;
                }
                let n = *rng.pick(&live);
                c.store.delete_node_edges(NodeId::new(n));
                let ok = c.store.delete_node(NodeId::new(n));
                let mok = c.model.del_node(n, true);
                c.hist.push(format!("delete_node_edges({n}); delete_node({n}) -> {ok}"));
                if ok != mok {
                    c.last_op = name.into();
                    c.dev("ret.delete_node", json!({"got": ok, "expected": mok}));
                }
            }
            3 => {
                name = "delete_edge";
                let id = if !elive.is_empty() && rng.chance(0.9) { *rng.pick(&elive) } else { rng.below(40) as u64 };
                let ok = c.store.delete_edge(EdgeId::new(id));
                let mok = c.model.del_edge(id);
                c.hist.push(format!("delete_edge({id}) -> {ok}"));
                if ok != mok {
                    c.last_op = name.into();
                    c.dev("ret.delete_edge", json!({"id": id, "got": ok, "expected": mok}));
                }
            }
            4 => {
                name = "set_node_property";
                if live.is_empty() {
                    continue;
                }
                let n = *rng.pick(&live);
                let k = *rng.pick(KEYS);
                let v = prop_value(&mut rng);
                c.store.set_node_property(NodeId::new(n), k, v.clone());
                c.hist.push(format!("set_node_property({n},{k},{})", vals::show(&v)));
                c.model.nodes.get_mut(&n).unwrap().props.insert(k.to_string(), v);
            }
            5 => {
                name = "remove_node_property";
                if live.is_empty() {
                    continue;
                }
                let n = *rng.pick(&live);
                let k = *rng.pick(KEYS);
                let got = c.store.remove_node_property(NodeId::new(n), k);
                let exp = c.model.nodes.get_mut(&n).unwrap().props.remove(k);
                c.hist.push(format!("remove_node_property({n},{k})"));
                let ok = match (&got, &exp) {
                    (None, None) => true,
                    (Some(a), Some(b)) => bit_eq(a, b),
                    _ => false,
                };
                if !ok {
                    c.last_op = name.into();
                    c.dev("ret.remove_node_property", json!({"got": got.as_ref().map(vals::show), "expected": exp.as_ref().map(vals::show)}));
                }
            }
            6 => {
                name = "set_edge_property";
                if elive.is_empty() {
                    continue;
                }
                let e = *rng.pick(&elive);
                let k = *rng.pick(KEYS);
                let v = prop_value(&mut rng);
                c.store.set_edge_property(EdgeId::new(e), k, v.clone());
                c.hist.push(format!("set_edge_property({e},{k},{})", vals::show(&v)));
                c.model.edges.get_mut(&e).unwrap().props.insert(k.to_string(), v);
            }
            7 => {
                name = "remove_edge_property";
                if elive.is_empty() {
                    continue;
                }
                let e = *rng.pick(&elive);
                let k = *rng.pick(KEYS);
                c.store.remove_edge_property(EdgeId::new(e), k);
                c.model.edges.get_mut(&e).unwrap().props.remove(k);
                c.hist.push(format!("remove_edge_property({e},{k})"));
            }
            8 => {
                name = "add_label";
                if live.is_empty() {
                    continue;
                }
                let n = *rng.pick(&live);
                let l = *rng.pick(LABELS);
                let ok = c.store.add_label(NodeId::new(n), l);
                let mok = c.model.nodes.get_mut(&n).unwrap().labels.insert(l.to_string());
                c.hist.push(format!("add_label({n},{l}) -> {ok}"));
                if ok != mok {
                    c.last_op = name.into();
                    c.dev("ret.add_label", json!({"got": ok, "expected": mok}));
                }
            }
            9 => {
                name = "remove_label";
                if live.is_empty() {
                    continue;
                }
                let n = *rng.pick(&live);
                let l = *rng.pick(LABELS);
                let ok = c.store.remove_label(NodeId::new(n), l);
                let mok = c.model.nodes.get_mut(&n).unwrap().labels.remove(l);
                c.hist.push(format!("remove_label({n},{l}) -> {ok}"));
                if ok != mok {
                    c.last_op = name.into();
                    c.dev("ret.remove_label", json!({"got": ok, "expected": mok}));
                }
            }
            10 => {
                let k = *rng.pick(KEYS);
                if c.indexed.contains(k) {
                    name = "drop_property_index";
                    c.store.drop_property_index(k);
                    c.indexed.remove(k);
                } else {
                    name = "create_property_index";
                    c.store.create_property_index(k);
                    c.indexed.insert(k.to_string());
                }
                c.hist.push(format!("{name}({k})"));
            }
            11 => {
                name = "statistics";
                if rng.chance(0.5) {
                    c.store.compute_statistics();
                } else {
                    c.store.ensure_statistics_fresh();
                }
                c.hist.push("statistics".into());
            }
            12 => {
                name = "rebuild_zone_maps";
                c.store.rebuild_zone_maps();
                c.hist.push("rebuild_zone_maps".into());
            }
            _ => {
                name = "delete_node_plain";
                // only nodes without edges: deleting a node that still has edges leaves
                // dangling endpoints by documented design (delete_node_edges first)
                let cand: Vec<u64> = live.iter().copied().filter(|n| c.model.out_edges(*n).is_empty() && c.model.in_edges(*n).is_empty()).collect();
                if cand.is_empty() {
                    continue;
                }
                let n = *rng.pick(&cand);
                let ok = c.store.delete_node(NodeId::new(n));
                c.model.del_node(n, false);
                c.hist.push(format!("delete_node({n}) -> {ok}"));
            }
        }
        kinds.insert(name);
        c.last_op = name.to_string();
        c.rep.eval();
        c.rep.count(&format!("op.{name}"), 1);
        let r = catch(|| c.walk(&mut rng));
        if let Err(p) = r {
            c.dev(&format!("panic@{}", p.site), json!({"at": p.at, "msg": p.msg}));
            break;
        }
        for n in c.model.nodes.keys() {
            max_degree = max_degree.max(c.model.out_edges(*n).len());
        }
    }
    let h = hash_str(&c.hist.join(";"));
    if kinds.len() >= 5 {
        c.rep.nontrivial(h);
    }
    if max_degree > 64 {
        c.rep.count("histories_with_degree_over_64", 1);
    }
    if max_degree > 256 {
        c.rep.count("histories_with_degree_over_256", 1);
    }
    if case < 2 {
        let sample: Vec<&String> = c.hist.iter().take(12).collect();
        c.rep.sample(json!({"case": case, "backward": backward, "first_ops": sample, "len": c.hist.len()}));
    }
}

/// engine-level stratum: GrafeoDB direct API + validate() reports exactly the dangling refs
fn run_validate(rep: &mut Report, seed: u64, case: u64) {
    use grafeo_engine::GrafeoDB;
    let mut rng = Rng::new(seed, "C14.validate", case);
    let db = GrafeoDB::new_in_memory();
    let mut m = Model::default();
    for _ in 0..(3 + rng.below(8)) {
        let id = db.create_node(&["A"]);
        m.add_node(id.as_u64(), &["A"], &[]);
    }
    let live: Vec<u64> = m.nodes.keys().copied().collect();
    for _ in 0..rng.below(14) {
        let s = *rng.pick(&live);
        let t = *rng.pick(&live);
        let id = db.create_edge(NodeId::new(s), NodeId::new(t), "R");
        m.add_edge(id.as_u64(), s, t, "R", &[]);
    }
    // delete a few nodes WITHOUT detaching: legal, validate() must report exactly the dangling refs
    for _ in 0..rng.below(4) {
        let n = *rng.pick(&live);
        db.delete_node(NodeId::new(n));
        m.del_node(n, false);
    }
    rep.eval();
    rep.count("validate_runs", 1);
    let res = db.validate();
    let mut exp: BTreeSet<String> = BTreeSet::new();
    for (id, e) in &m.edges {
        if !m.nodes.contains_key(&e.src) {
            exp.insert(format!("DANGLING_SRC edge:{id}"));
        }
        if !m.nodes.contains_key(&e.dst) {
            exp.insert(format!("DANGLING_DST edge:{id}"));
        }
    }
    let got: BTreeSet<String> = res.errors.iter().map(|e| format!("{} {}", e.code, e.context.clone().unwrap_or_default())).collect();
    if got != exp {
        let kind = if got.len() > exp.len() { "noisy" } else { "silent" };
        rep.deviation(&format!("validate.{kind}"), json!({"got": got, "expected": exp}));
    }
    if res.is_valid() != exp.is_empty() {
        rep.deviation("validate.is_valid", json!({}));
    }
}

pub fn run(tier: Tier, seed: u64) -> ! {
    let mut rep = Report::new("C14", tier, seed, "exploration");
    rep.rule = "random mutation histories on LpgStore (create/delete node, create/delete edge incl. self-loops and parallel edges, set/remove property of mixed value types, add/remove label, create/drop property index, statistics refresh, zone-map rebuild), with and without backward adjacency, 'hub' histories that push one node's degree past the 64-entry chunk and compaction thresholds; after EVERY operation all accessors (node_ids, all_nodes, get_node, nodes_by_label, all_edges, get_edge, edge_type, edges_with_type, edges_from/edges_to/neighbors/degrees, find_nodes_by_property with and without index, find_nodes_in_range, might_match) are compared with the reference model. evaluations = operations followed by a full walk; non-trivial = history using >= 5 operation kinds, distinct by hash of the operation list".into();
    let n = tier.pick(4000, 40_000);
    for case in 0..n {
        let backward = case % 3 != 2;
        let hub = case % 5 == 4;
        let len = if hub { tier.pick(150, 400) } else { 20 + (case as usize * 7) % tier.pick(60, 200) };
        run_history(&mut rep, seed, case, len, backward, hub);
    }
    for case in 0..tier.pick(3000, 30_000) {
        run_validate(&mut rep, seed, case);
    }
    rep.assumptions = vec![
        "deleting a node that still has edges leaves dangling endpoints by documented design (delete_node_edges is the documented cascade); the walker only deletes edge-free nodes or detaches first, and validate() is checked to report exactly the dangling references".into(),
        "ChunkedAdjacency compaction/freeze is exercised standalone in C15; here it is reached through LpgStore edge histories (hub histories cross degree 64/256)".into(),
        "'scan for that value' means stored value == probe under Value equality".into(),
    ];
    rep.finish()
}
