//! C19 checks, part B: flows, structure, centrality, clustering, community sanity.

use super::model::{Built, CAP, COST, G, Out};
use super::oracle::{P, feq};
use crate::c19_eng;
use grafeo_adapters::plugins::algorithms as alg;
use grafeo_common::types::NodeId;
use grafeo_common::utils::hash::FxHashMap;
use serde_json::json;
use std::collections::{BTreeMap, HashSet};

const EPS: f64 = 1e-7;

/// Validate a per-node-pair flow assignment; returns the flow per pair when it is well formed.
fn judge_flow(
    out: &mut Out,
    b: &Built,
    p: &P,
    algo: &'static str,
    s: usize,
    t: usize,
    value: f64,
    flows: &[(NodeId, NodeId, f64)],
) -> Option<BTreeMap<(usize, usize), f64>> {
    let n = p.n;
    let mut capsum = vec![vec![0.0; n]; n];
    for (i, &(u, v)) in p.e.iter().enumerate() {
        capsum[u][v] += p.cap[i];
    }
    let show: Vec<(i64, i64, f64)> = flows.iter().map(|(u, v, f)| (b.idx.get(u).map_or(-1, |i| *i as i64), b.idx.get(v).map_or(-1, |i| *i as i64), *f)).collect();
    let ctx = |x: serde_json::Value| json!({"source": s, "sink": t, "max_flow": value, "flow_edges": show, "info": x});
    let mut m: BTreeMap<(usize, usize), f64> = BTreeMap::new();
    for (u, v, f) in flows {
        let (Some(&u), Some(&v)) = (b.idx.get(u), b.idx.get(v)) else {
            out.fail(algo, "flow_on_unknown_node", ctx(json!(null)));
            return None;
        };
        if m.insert((u, v), *f).is_some() {
            out.fail(algo, "node_pair_listed_twice", ctx(json!([u, v])));
            return None;
        }
        if !(*f > 0.0) {
            out.fail(algo, "non_positive_flow_listed", ctx(json!([u, v, f])));
        }
        if *f > capsum[u][v] + EPS {
            out.fail(algo, "capacity_exceeded", ctx(json!({"pair": [u, v], "flow": f, "capacity": capsum[u][v]})));
        }
    }
    let mut net = vec![0.0; n]; // inflow - outflow
    for (&(u, v), &f) in &m {
        net[u] -= f;
        net[v] += f;
    }
    for x in 0..n {
        if x != s && x != t && net[x].abs() > EPS {
            out.fail(algo, "conservation_violated", ctx(json!({"node": x, "net_inflow": net[x]})));
        }
    }
    if s != t && ((-net[s] - value).abs() > EPS || (net[t] - value).abs() > EPS) {
        out.fail(algo, "value_differs_from_net_flow_out_of_source", ctx(json!({"net_out_of_source": -net[s], "net_into_sink": net[t]})));
    }
    Some(m)
}

pub fn check_flow(g: &G, b: &Built, p: &P, out: &mut Out) {
    let n = p.n;
    let st = &b.store;
    let capp = if g.use_cap { Some(CAP) } else { None };
    let costp = if g.use_cap { Some(COST) } else { None };
    for s in 0..n {
        for t in 0..n {
            let cut = if s == t { 0.0 } else { p.min_cut(s, t) };
            if let Some(r) = c19_eng!(out, "max_flow", alg::max_flow(st, b.ids[s], b.ids[t], capp)) {
                match r {
                    None => out.fail("max_flow", "none_for_existing_nodes", json!({"s": s, "t": t})),
                    Some(r) => {
                        if !feq(r.max_flow, cut) && (r.max_flow - cut).abs() > EPS {
                            out.fail(
                                "max_flow",
                                if r.max_flow < cut { "value_below_minimum_cut" } else { "value_above_minimum_cut" },
                                json!({"s": s, "t": t, "got": r.max_flow, "min_cut": cut}),
                            );
                        }
                        judge_flow(out, b, p, "max_flow", s, t, r.max_flow, &r.flow_edges);
                    }
                }
            }
            if let Some(r) = c19_eng!(out, "min_cost_max_flow", alg::min_cost_max_flow(st, b.ids[s], b.ids[t], capp, costp)) {
                match r {
                    None => out.fail("min_cost_max_flow", "none_for_existing_nodes", json!({"s": s, "t": t})),
                    Some(r) => {
                        if (r.max_flow - cut).abs() > EPS {
                            out.fail(
                                "min_cost_max_flow",
                                if r.max_flow < cut { "value_below_minimum_cut" } else { "value_above_minimum_cut" },
                                json!({"s": s, "t": t, "got": r.max_flow, "min_cut": cut}),
                            );
                            continue;
                        }
                        let fl: Vec<(NodeId, NodeId, f64)> = r.flow_edges.iter().map(|(u, v, f, _)| (*u, *v, *f)).collect();
                        let m = judge_flow(out, b, p, "min_cost_max_flow", s, t, r.max_flow, &fl);
                        if s == t {
                            if r.total_cost != 0.0 {
                                out.fail("min_cost_max_flow", "cost_for_source_equal_sink", json!({"got": r.total_cost}));
                            }
                            continue;
                        }
                        let (oflow, ocost) = p.min_cost_max_flow(s, t);
                        assert!((oflow - cut).abs() < EPS, "harness oracle self-check: own max flow {oflow} != min cut {cut} on {g:?} {s}->{t}");
                        if let Some(bc) = p.brute_min_cost(s, t, cut) {
                            assert!((bc - ocost).abs() < EPS, "harness oracle self-check: own min cost {ocost} != brute force {bc} on {g:?} {s}->{t}");
                            out.note("flow.min_cost_confirmed_by_enumerating_all_integral_flows");
                        } else {
                            out.note("flow.min_cost_by_own_successive_shortest_paths_only");
                        }
                        if (r.total_cost - ocost).abs() > EPS {
                            out.fail(
                                "min_cost_max_flow",
                                if r.total_cost > ocost { "cost_not_minimal" } else { "cost_below_every_feasible_flow" },
                                json!({"s": s, "t": t, "flow": r.max_flow, "got_cost": r.total_cost, "minimum_cost": ocost,
                                       "flow_edges": r.flow_edges.iter().map(|(u, v, f, c)| json!([b.idx.get(u), b.idx.get(v), f, c])).collect::<Vec<_>>()}),
                            );
                        }
                        // the reported cost must be the cost of the reported flow (cheapest
                        // routing over the parallel edges of each pair)
                        if let Some(m) = m {
                            let mut c = 0.0;
                            for (&(u, v), &f) in &m {
                                let mut es: Vec<(f64, f64)> = (0..p.e.len()).filter(|&i| p.e[i] == (u, v)).map(|i| (p.cost[i], p.cap[i])).collect();
                                es.sort_by(|a, b| a.0.partial_cmp(&b.0).unwrap());
                                let mut left = f;
                                for (k, cap) in es {
                                    let x = left.min(cap);
                                    c += x * k;
                                    left -= x;
                                }
                            }
                            if (c - r.total_cost).abs() > EPS {
                                out.fail(
                                    "min_cost_max_flow",
                                    "cost_is_not_the_cost_of_the_reported_flow",
                                    json!({"s": s, "t": t, "got_cost": r.total_cost, "cost_of_reported_flow": c}),
                                );
                            }
                        }
                    }
                }
            }
        }
    }
    if n > 0 {
        let ghost = b.dead.first().copied().unwrap_or(NodeId::new(10_000));
        if let Some(r) = c19_eng!(out, "max_flow", alg::max_flow(st, ghost, b.ids[0], capp)) {
            if r.is_some() {
                out.fail("max_flow", "result_for_nonexistent_source", json!({}));
            }
        }
        if let Some(r) = c19_eng!(out, "min_cost_max_flow", alg::min_cost_max_flow(st, b.ids[0], ghost, capp, costp)) {
            if r.is_some() {
                out.fail("min_cost_max_flow", "result_for_nonexistent_sink", json!({}));
            }
        }
    }
}

// ------------------------------------------------------------------------------------------

pub fn check_struct(_g: &G, b: &Built, p: &P, out: &mut Out) {
    let n = p.n;
    let st = &b.store;
    let c0 = p.n_weak(None, None);
    let mult = p.und_mult();

    // articulation points: remove and recount
    if let Some(r) = c19_eng!(out, "articulation_points", alg::articulation_points(st)) {
        let got: HashSet<i64> = r.iter().map(|x| b.idx.get(x).map_or(-1, |i| *i as i64)).collect();
        let want: HashSet<i64> = (0..n).filter(|&v| p.n_weak(Some(v), None) > c0).map(|v| v as i64).collect();
        let mut g2: Vec<_> = got.iter().copied().collect();
        g2.sort_unstable();
        let mut w2: Vec<_> = want.iter().copied().collect();
        w2.sort_unstable();
        if got.difference(&want).next().is_some() {
            out.fail("articulation_points", "reported_node_does_not_disconnect", json!({"got": g2, "oracle": w2}));
        }
        if want.difference(&got).next().is_some() {
            out.fail("articulation_points", "cut_vertex_missed", json!({"got": g2, "oracle": w2}));
        }
    }
    // bridges: remove and recount. Pairs joined by several edges: "removing all of them
    // disconnects" (simple-graph reading) and "not a bridge" (multigraph reading) both accepted.
    if let Some(r) = c19_eng!(out, "bridges", alg::bridges(st)) {
        let mut got: HashSet<(usize, usize)> = HashSet::new();
        let show: Vec<(i64, i64)> = r.iter().map(|(u, v)| (b.idx.get(u).map_or(-1, |i| *i as i64), b.idx.get(v).map_or(-1, |i| *i as i64))).collect();
        let mut bad = false;
        for (u, v) in &r {
            match (b.idx.get(u), b.idx.get(v)) {
                (Some(&u), Some(&v)) if u != v && mult[u][v] > 0 => {
                    if !got.insert((u.min(v), u.max(v))) {
                        out.fail("bridges", "bridge_listed_twice", json!({"got": show}));
                        bad = true;
                    }
                }
                _ => {
                    out.fail("bridges", "reported_pair_is_not_an_edge", json!({"got": show}));
                    bad = true;
                }
            }
        }
        if !bad {
            for u in 0..n {
                for v in u + 1..n {
                    if mult[u][v] == 0 {
                        continue;
                    }
                    let disconnects = p.n_weak(None, Some((u, v))) > c0;
                    let reported = got.contains(&(u, v));
                    if reported && !disconnects {
                        out.fail("bridges", "reported_edge_does_not_disconnect", json!({"pair": [u, v], "got": show}));
                    }
                    if !reported && disconnects && mult[u][v] == 1 {
                        out.fail("bridges", "bridge_missed", json!({"pair": [u, v], "got": show}));
                    }
                    if disconnects && mult[u][v] > 1 {
                        out.note(if reported { "bridges.multi_edge_pair_reported(simple-graph reading)" } else { "bridges.multi_edge_pair_not_reported(multigraph reading)" });
                    }
                }
            }
        }
    }
    // k-core
    if let Some(r) = c19_eng!(out, "kcore_decomposition", alg::kcore_decomposition(st)) {
        let got: Vec<i64> = (0..n).map(|v| r.core_numbers.get(&b.ids[v]).map_or(-1, |c| *c as i64)).collect();
        if r.core_numbers.len() != n || got.iter().any(|c| *c < 0) {
            out.fail("kcore_decomposition", "not_every_node_has_a_core_number", json!({"got": got}));
        } else {
            let mut readings = Vec::new();
            let mut ok = false;
            for collapse in [true, false] {
                for lw in [0usize, 1, 2] {
                    let o: Vec<i64> = p.core_numbers(collapse, lw).into_iter().map(|c| c as i64).collect();
                    if o == got {
                        ok = true;
                    }
                    if !readings.contains(&o) {
                        readings.push(o);
                    }
                }
            }
            if !ok {
                out.fail("kcore_decomposition", "core_numbers_match_no_reading_of_the_definition", json!({"got": got, "oracle_readings": readings}));
            }
            let mx = got.iter().copied().max().unwrap_or(0);
            if r.max_core as i64 != mx {
                out.fail("kcore_decomposition", "max_core_is_not_the_maximum_core_number", json!({"got": r.max_core, "core_numbers": got}));
            }
            for k in 0..=(mx as usize + 1) {
                let set = |v: Vec<NodeId>| -> Vec<usize> {
                    let mut x: Vec<usize> = v.iter().filter_map(|i| b.idx.get(i).copied()).collect();
                    x.sort_unstable();
                    x
                };
                let kc = set(r.k_core(k));
                let want: Vec<usize> = (0..n).filter(|v| got[*v] >= k as i64).collect();
                if kc != want {
                    out.fail("kcore_decomposition", "k_core_inconsistent_with_core_numbers", json!({"k": k, "got": kc}));
                }
                let ks = set(r.k_shell(k));
                let want: Vec<usize> = (0..n).filter(|v| got[*v] == k as i64).collect();
                if ks != want {
                    out.fail("kcore_decomposition", "k_shell_inconsistent_with_core_numbers", json!({"k": k, "got": ks}));
                }
                if k <= 2 {
                    if let Some(v) = c19_eng!(out, "k_core", alg::k_core(st, k)) {
                        // judged against the definition (not against the other call: the
                        // engine iterates randomly seeded hash sets)
                        let v = set(v);
                        if !readings.iter().any(|o| (0..n).filter(|x| o[*x] >= k as i64).collect::<Vec<_>>() == v) {
                            out.fail("k_core", "k_core_matches_no_reading_of_the_definition", json!({"k": k, "got": v, "oracle_core_numbers": readings}));
                        }
                    }
                }
            }
        }
    }
}

// ------------------------------------------------------------------------------------------

fn fmap(b: &Built, m: &FxHashMap<NodeId, f64>, n: usize) -> Option<Vec<f64>> {
    if m.len() != n {
        return None;
    }
    (0..n).map(|v| m.get(&b.ids[v]).copied()).collect()
}

fn close(a: &[f64], b: &[f64]) -> bool {
    a.len() == b.len() && a.iter().zip(b).all(|(x, y)| (x - y).abs() <= 1e-9 * 1f64.max(x.abs()))
}

pub fn check_cent(_g: &G, b: &Built, p: &P, out: &mut Out) {
    let n = p.n;
    let st = &b.store;
    // degree
    let mut ind = vec![0usize; n];
    let mut outd = vec![0usize; n];
    for &(u, v) in &p.e {
        outd[u] += 1;
        ind[v] += 1;
    }
    if let Some(r) = c19_eng!(out, "degree_centrality", alg::degree_centrality(st)) {
        let get = |m: &FxHashMap<NodeId, usize>| -> Vec<i64> { (0..n).map(|v| m.get(&b.ids[v]).map_or(-1, |x| *x as i64)).collect() };
        let (gi, go, gt) = (get(&r.in_degree), get(&r.out_degree), get(&r.total_degree));
        let oi: Vec<i64> = ind.iter().map(|x| *x as i64).collect();
        let oo: Vec<i64> = outd.iter().map(|x| *x as i64).collect();
        let ot: Vec<i64> = (0..n).map(|v| (ind[v] + outd[v]) as i64).collect();
        if r.in_degree.len() != n || r.out_degree.len() != n || r.total_degree.len() != n {
            out.fail("degree_centrality", "not_every_node_listed", json!({}));
        } else if gi != oi {
            out.fail("degree_centrality", "in_degree_wrong", json!({"got": gi, "oracle": oi}));
        } else if go != oo {
            out.fail("degree_centrality", "out_degree_wrong", json!({"got": go, "oracle": oo}));
        } else if gt != ot {
            out.fail("degree_centrality", "total_degree_wrong", json!({"got": gt, "oracle": ot}));
        }
    }
    if let Some(r) = c19_eng!(out, "degree_centrality_normalized", alg::degree_centrality_normalized(st)) {
        let want: Vec<f64> = (0..n).map(|v| if n <= 1 { 0.0 } else { (ind[v] + outd[v]) as f64 / (n - 1) as f64 }).collect();
        match fmap(b, &r, n) {
            Some(got) if close(&got, &want) => {}
            got => out.fail("degree_centrality_normalized", "value_wrong", json!({"got": got, "oracle": want})),
        }
    }
    // PageRank: probability distribution for every parameter choice; fixed point when it
    // has provably converged
    for (d, iters, tol, fixed) in [(0.85, 100usize, 1e-6, false), (0.5, 200, 1e-13, true), (0.3, 100, 1e-13, true), (1.0, 40, 1e-9, false), (0.0, 10, 1e-9, true), (0.85, 0, 1e-6, false)] {
        if let Some(r) = c19_eng!(out, "pagerank", alg::pagerank(st, d, iters, tol)) {
            let Some(got) = fmap(b, &r, n) else {
                out.fail("pagerank", "not_every_node_scored", json!({"damping": d}));
                continue;
            };
            if n == 0 {
                continue;
            }
            if got.iter().any(|x| !(*x >= 0.0) || !x.is_finite()) {
                out.fail("pagerank", "negative_or_non_finite_score", json!({"damping": d, "got": got}));
            }
            let sum: f64 = got.iter().sum();
            if (sum - 1.0).abs() > 1e-6 {
                out.fail("pagerank", "scores_do_not_sum_to_one", json!({"damping": d, "iterations": iters, "sum": sum, "got": got}));
            }
            if fixed && iters > 0 {
                let res = |multi: bool| -> f64 {
                    let q = p.pagerank_step(&got, d, multi);
                    q.iter().zip(&got).map(|(a, b)| (a - b).abs()).fold(0.0, f64::max)
                };
                if res(true) > 1e-8 && res(false) > 1e-8 {
                    out.fail("pagerank", "not_a_fixed_point_of_the_pagerank_equation", json!({"damping": d, "got": got, "residual_multigraph": res(true), "residual_simple": res(false)}));
                }
            }
        }
    }
    // betweenness
    let bm = p.betweenness(true);
    let bs = p.betweenness(false);
    for normalized in [false, true] {
        let algo = if normalized { "betweenness_centrality_normalized" } else { "betweenness_centrality" };
        if let Some(r) = c19_eng!(out, algo, alg::betweenness_centrality(st, normalized)) {
            // documented normalisation: 2/((n-1)(n-2))
            let f = if normalized && n > 2 { 2.0 / ((n - 1) * (n - 2)) as f64 } else { 1.0 };
            let wm: Vec<f64> = bm.iter().map(|x| x * f).collect();
            let ws: Vec<f64> = bs.iter().map(|x| x * f).collect();
            match fmap(b, &r, n) {
                Some(got) if close(&got, &wm) || close(&got, &ws) => {}
                got => out.fail(algo, "value_wrong", json!({"got": got, "oracle_edge_paths": wm, "oracle_node_paths": ws})),
            }
        }
    }
    // closeness
    let parts = p.closeness_parts();
    for wf in [false, true] {
        let algo = if wf { "closeness_centrality_wf" } else { "closeness_centrality" };
        if let Some(r) = c19_eng!(out, algo, alg::closeness_centrality(st, wf)) {
            let want: Vec<f64> = parts
                .iter()
                .map(|&(r, tot)| {
                    if r == 0 || tot == 0 || n <= 1 {
                        0.0
                    } else if wf {
                        (r as f64 / (n - 1) as f64) * (r as f64 / tot as f64)
                    } else {
                        r as f64 / tot as f64
                    }
                })
                .collect();
            match fmap(b, &r, n) {
                Some(got) if close(&got, &want) => {}
                got => out.fail(algo, "value_wrong", json!({"got": got, "oracle": want})),
            }
        }
    }
}

// ------------------------------------------------------------------------------------------

pub fn check_clust(_g: &G, b: &Built, p: &P, out: &mut Out) {
    let n = p.n;
    let st = &b.store;
    let tri = p.triangles();
    let k = p.und_degree_simple();
    let mult = p.und_mult();
    // local coefficient T / C(k,2): k = distinct other neighbours (reading A), or counting a
    // self-loop as one more neighbour (reading B); T is the real triangle count in both
    let coef = |kk: usize, t: u64| if kk < 2 { 0.0 } else { t as f64 / ((kk * (kk - 1)) / 2) as f64 };
    let la: Vec<f64> = (0..n).map(|v| coef(k[v], tri[v])).collect();
    let lb: Vec<f64> = (0..n).map(|v| coef(k[v] + usize::from(mult[v][v] > 0), tri[v])).collect();
    let mean = |x: &[f64]| if x.is_empty() { 0.0 } else { x.iter().sum::<f64>() / x.len() as f64 };
    let total: u64 = tri.iter().sum::<u64>() / 3;

    let tri_of = |m: &FxHashMap<NodeId, u64>| -> Option<Vec<u64>> {
        if m.len() != n {
            return None;
        }
        (0..n).map(|v| m.get(&b.ids[v]).copied()).collect()
    };
    let judge_tri = |out: &mut Out, algo: &'static str, m: &FxHashMap<NodeId, u64>| match tri_of(m) {
        Some(got) if got == tri => {}
        got => out.fail(algo, "triangle_count_wrong", json!({"got": got, "oracle": tri})),
    };
    let judge_local = |out: &mut Out, algo: &'static str, m: &FxHashMap<NodeId, f64>| match fmap(b, m, n) {
        Some(got) if close(&got, &la) || close(&got, &lb) => {}
        got => out.fail(algo, "local_coefficient_wrong", json!({"got": got, "oracle": la, "oracle_selfloop_counted_in_degree": lb})),
    };
    let judge_global = |out: &mut Out, algo: &'static str, got: f64| {
        if !((got - mean(&la)).abs() < 1e-9 || (got - mean(&lb)).abs() < 1e-9) {
            out.fail(algo, "global_coefficient_wrong", json!({"got": got, "oracle": mean(&la), "oracle_selfloop_counted_in_degree": mean(&lb)}));
        }
    };
    let judge_total = |out: &mut Out, algo: &'static str, got: u64| {
        if got != total {
            out.fail(algo, "total_triangles_wrong", json!({"got": got, "oracle": total}));
        }
    };

    if let Some(r) = c19_eng!(out, "triangle_count", alg::triangle_count(st)) {
        judge_tri(out, "triangle_count", &r);
    }
    if let Some(r) = c19_eng!(out, "local_clustering_coefficient", alg::local_clustering_coefficient(st)) {
        judge_local(out, "local_clustering_coefficient", &r);
    }
    if let Some(r) = c19_eng!(out, "global_clustering_coefficient", alg::global_clustering_coefficient(st)) {
        judge_global(out, "global_clustering_coefficient", r);
    }
    if let Some(r) = c19_eng!(out, "total_triangles", alg::total_triangles(st)) {
        judge_total(out, "total_triangles", r);
    }
    if let Some(r) = c19_eng!(out, "clustering_coefficient", alg::clustering_coefficient(st)) {
        judge_tri(out, "clustering_coefficient", &r.triangle_counts);
        judge_local(out, "clustering_coefficient", &r.coefficients);
        judge_global(out, "clustering_coefficient", r.global_coefficient);
        judge_total(out, "clustering_coefficient", r.total_triangles);
    }
    for thr in [0usize, 1000] {
        if let Some(r) = c19_eng!(out, "clustering_coefficient_parallel", alg::clustering_coefficient_parallel(st, thr)) {
            judge_tri(out, "clustering_coefficient_parallel", &r.triangle_counts);
            judge_local(out, "clustering_coefficient_parallel", &r.coefficients);
            judge_global(out, "clustering_coefficient_parallel", r.global_coefficient);
            judge_total(out, "clustering_coefficient_parallel", r.total_triangles);
        }
    }
}

// ------------------------------------------------------------------------------------------

pub fn check_comm(_g: &G, b: &Built, p: &P, out: &mut Out) {
    let n = p.n;
    let st = &b.store;
    let weak = p.weak(None, None);
    let judge = |out: &mut Out, algo: &'static str, m: &FxHashMap<NodeId, u64>| -> Option<Vec<u64>> {
        let got: Option<Vec<u64>> = if m.len() == n { (0..n).map(|v| m.get(&b.ids[v]).copied()).collect() } else { None };
        let Some(got) = got else {
            out.fail(algo, "not_every_node_gets_a_community", json!({"assigned": m.len(), "nodes": n}));
            return None;
        };
        // communities grow along edges only: members of one community are weakly connected
        for x in 0..n {
            for y in x + 1..n {
                if got[x] == got[y] && weak[x] != weak[y] {
                    out.fail(algo, "community_spans_disconnected_parts", json!({"x": x, "y": y, "got": got}));
                    return Some(got);
                }
            }
        }
        let distinct: HashSet<u64> = got.iter().copied().collect();
        if alg::community_count(m) != distinct.len() {
            out.fail("community_count", "count_wrong", json!({"got": alg::community_count(m), "distinct": distinct.len()}));
        }
        Some(got)
    };
    for iters in [0usize, 1, 100] {
        if let Some(r) = c19_eng!(out, "label_propagation", alg::label_propagation(st, iters)) {
            if let Some(got) = judge(out, "label_propagation", &r) {
                // documented: labels are normalised to 0..k
                let distinct: HashSet<u64> = got.iter().copied().collect();
                if distinct.iter().any(|l| *l as usize >= distinct.len()) {
                    out.fail("label_propagation", "labels_not_contiguous_from_zero", json!({"got": got}));
                }
            }
        }
    }
    for res in [1.0f64, 0.5] {
        if let Some(r) = c19_eng!(out, "louvain", alg::louvain(st, res)) {
            if let Some(got) = judge(out, "louvain", &r.communities) {
                let distinct: HashSet<u64> = got.iter().copied().collect();
                if r.num_communities != distinct.len() {
                    out.fail("louvain", "num_communities_wrong", json!({"got": r.num_communities, "distinct": distinct.len()}));
                }
                if !r.modularity.is_finite() {
                    out.fail("louvain", "modularity_not_finite", json!({"got": r.modularity}));
                }
                // information only (not part of the property): Newman modularity of the
                // returned partition
                let q = p.modularity(&got, res);
                out.note(if (q - r.modularity).abs() < 1e-9 { "community.louvain_modularity_equals_newman_definition" } else { "community.louvain_modularity_differs_from_newman_definition" });
            }
        }
    }
}
