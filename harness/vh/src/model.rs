//! Sequential reference model of the labelled property graph (the specification everything
//! else is compared with). Plain data, no cleverness.

use crate::vals;
use grafeo_common::types::Value;
use std::cmp::Ordering;
use std::collections::{BTreeMap, BTreeSet};

#[derive(Clone, Debug, Default, PartialEq)]
pub struct MNode {
    pub labels: BTreeSet<String>,
    pub props: BTreeMap<String, Value>,
}

#[derive(Clone, Debug, PartialEq)]
pub struct MEdge {
    pub src: u64,
    pub dst: u64,
    pub ty: String,
    pub props: BTreeMap<String, Value>,
}

#[derive(Clone, Debug, Default)]
pub struct Model {
    pub nodes: BTreeMap<u64, MNode>,
    pub edges: BTreeMap<u64, MEdge>,
    /// every node / edge id ever handed out (to check that deleted ones appear nowhere)
    pub ever_nodes: BTreeSet<u64>,
    pub ever_edges: BTreeSet<u64>,
    /// Property values the engine keeps for ids that have no live entity (its property tables
    /// are keyed by id and never check existence); they resurface when the id is used again.
    /// Only the persistence checks (C05/C06) populate these.
    pub orphan_node_props: BTreeMap<u64, BTreeMap<String, Value>>,
    pub orphan_edge_props: BTreeMap<u64, BTreeMap<String, Value>>,
}

impl Model {
    pub fn add_node(&mut self, id: u64, labels: &[&str], props: &[(&str, Value)]) {
        self.ever_nodes.insert(id);
        self.nodes.insert(
            id,
            MNode {
                labels: labels.iter().map(|s| (*s).to_string()).collect(),
                props: props.iter().map(|(k, v)| ((*k).to_string(), v.clone())).collect(),
            },
        );
    }
    pub fn add_edge(&mut self, id: u64, src: u64, dst: u64, ty: &str, props: &[(&str, Value)]) {
        self.ever_edges.insert(id);
        self.edges.insert(
            id,
            MEdge { src, dst, ty: ty.to_string(), props: props.iter().map(|(k, v)| ((*k).to_string(), v.clone())).collect() },
        );
    }
    /// delete node; `detach` also deletes incident edges
    pub fn del_node(&mut self, id: u64, detach: bool) -> bool {
        if self.nodes.remove(&id).is_none() {
            return false;
        }
        if detach {
            self.edges.retain(|_, e| e.src != id && e.dst != id);
        }
        true
    }
    pub fn del_edge(&mut self, id: u64) -> bool {
        self.edges.remove(&id).is_some()
    }
    pub fn out_edges(&self, n: u64) -> Vec<(u64, u64)> {
        let mut v: Vec<(u64, u64)> = self.edges.iter().filter(|(_, e)| e.src == n).map(|(id, e)| (e.dst, *id)).collect();
        v.sort_unstable();
        v
    }
    pub fn in_edges(&self, n: u64) -> Vec<(u64, u64)> {
        let mut v: Vec<(u64, u64)> = self.edges.iter().filter(|(_, e)| e.dst == n).map(|(id, e)| (e.src, *id)).collect();
        v.sort_unstable();
        v
    }
    pub fn with_label(&self, l: &str) -> Vec<u64> {
        self.nodes.iter().filter(|(_, n)| n.labels.contains(l)).map(|(id, _)| *id).collect()
    }
    /// canonical text of the whole graph (bit-exact values) — the "dump" used for equality
    pub fn canon(&self) -> String {
        let mut s = String::new();
        for (id, n) in &self.nodes {
            s.push_str(&format!("N{id}:{:?}:{{", n.labels));
            for (k, v) in &n.props {
                s.push_str(&format!("{k:?}={};", vals::key(v)));
            }
            s.push_str("}\n");
        }
        for (id, e) in &self.edges {
            s.push_str(&format!("E{id}:{}-[{}]->{}:{{", e.src, e.ty, e.dst));
            for (k, v) in &e.props {
                s.push_str(&format!("{k:?}={};", vals::key(v)));
            }
            s.push_str("}\n");
        }
        s
    }
}

/// The comparison the engine documents for predicates: numeric across Int64/Float64,
/// strings, bools; anything else incomparable.
pub fn cmp_values(a: &Value, b: &Value) -> Option<Ordering> {
    match (a, b) {
        (Value::Int64(a), Value::Int64(b)) => Some(a.cmp(b)),
        (Value::Float64(a), Value::Float64(b)) => a.partial_cmp(b),
        (Value::String(a), Value::String(b)) => Some(a.as_str().cmp(b.as_str())),
        (Value::Bool(a), Value::Bool(b)) => Some(a.cmp(b)),
        (Value::Int64(a), Value::Float64(b)) => (*a as f64).partial_cmp(b),
        (Value::Float64(a), Value::Int64(b)) => a.partial_cmp(&(*b as f64)),
        _ => None,
    }
}
