//! C13 — SPARQL answers equal evaluation over the stored triple set.
//!
//! (a) store level: `RdfStore` against an ordered-set model after EVERY operation of random
//!     insert / remove / clear sequences (all eight bound/unbound lookup shapes, both
//!     `index_objects` settings), the transaction-buffer API against a snapshot+overlay
//!     model with named deviation rules (scheme 2), and `TripleRing` built from the same set.
//! (b) query level: random SPARQL-core queries and updates through `execute_sparql`
//!     against the reference evaluator in `c13_sparql.rs`; mismatches are shrunk and
//!     identified by (skeleton of the minimal witness, mismatch kind) (scheme 3).
//! (c) a small directed matrix: SPARQL inside a session transaction (read-your-writes).

#[path = "c13_sparql.rs"]
mod sparql;

use crate::report::{Report, Tier};
use crate::rng::{Rng, hash_str};
use crate::util::catch;
use grafeo_common::types::TxId;
use grafeo_core::graph::rdf::{RdfStore, RdfStoreConfig, Term, Triple, TriplePattern};
use grafeo_core::index::ring::{RingIterator, TripleRing};
use serde_json::{Value as J, json};
use sparql::{Outcome, TKey, Universe, nt, tkey};
use std::collections::{BTreeMap, BTreeSet};
use std::sync::Arc;

const RULE_DUP: &str = "C13-F1";
const RULE_KEEP: &str = "C13-F2";

// ---------------------------------------------------------------------------------------
// per-case log, merged into the report in case order (cases run on worker threads)
// ---------------------------------------------------------------------------------------

#[derive(Default)]
struct Log {
    evals: u64,
    counts: BTreeMap<String, u64>,
    nontrivial: Vec<u64>,
    samples: Vec<J>,
    deviations: Vec<(String, J)>,
    /// rule id -> (observations explained by it in this case, example)
    known_rules: BTreeMap<String, (u64, String)>,
    rejected: Vec<(String, String)>,
}
impl Log {
    fn count(&mut self, k: &str, n: u64) {
        *self.counts.entry(k.to_string()).or_insert(0) += n;
    }
    fn known_rule(&mut self, rule: &str, example: impl FnOnce() -> String) {
        if let Some(e) = self.known_rules.get_mut(rule) {
            e.0 += 1;
        } else {
            self.known_rules.insert(rule.to_string(), (1, example()));
        }
    }
    fn deviation(&mut self, sig: &str, detail: J) {
        // keep one detail per signature and case
        if !self.deviations.iter().any(|(s, _)| s == sig) {
            self.deviations.push((sig.to_string(), detail));
        } else {
            self.count("repeated_deviation_in_case", 1);
        }
    }
    fn merge_into(self, rep: &mut Report, rejected: &mut BTreeMap<String, (u64, String)>) {
        rep.evals(self.evals);
        for (k, n) in self.counts {
            rep.count(&k, n);
        }
        for h in self.nontrivial {
            rep.nontrivial(h);
        }
        for s in self.samples {
            rep.sample(s);
        }
        for (s, d) in self.deviations {
            rep.deviation(&s, d);
        }
        for (r, (n, e)) in self.known_rules {
            // one KNOWN-FINDING occurrence per case; the raw number of explained observations is a counter
            rep.known_rule(&r, &e);
            rep.count(&format!("explained_by_rule.{r}"), n);
        }
        for (msg, text) in self.rejected {
            let e = rejected.entry(msg).or_insert((0, text));
            e.0 += 1;
        }
    }
}

fn par_cases<F: Fn(u64) -> Log + Sync>(n: u64, f: F) -> Vec<Log> {
    let threads = std::thread::available_parallelism().map(|x| x.get()).unwrap_or(4).min(16) as u64;
    let mut slots: Vec<Option<Log>> = (0..n).map(|_| None).collect();
    std::thread::scope(|s| {
        let mut hs = Vec::new();
        for t in 0..threads {
            let f = &f;
            hs.push(s.spawn(move || {
                let mut out = Vec::new();
                let mut i = t;
                while i < n {
                    out.push((i, f(i)));
                    i += threads;
                }
                out
            }));
        }
        for h in hs {
            for (i, l) in h.join().expect("worker thread (harness bug: panic outside catch)") {
                slots[i as usize] = Some(l);
            }
        }
    });
    slots.into_iter().map(|x| x.unwrap()).collect()
}

// ---------------------------------------------------------------------------------------
// (a) store level
// ---------------------------------------------------------------------------------------

type Model = BTreeMap<TKey, Triple>;

#[derive(Clone)]
enum POp {
    Ins(Triple),
    Del(Triple),
}

const SHAPES: [(bool, bool, bool); 8] = [
    (false, false, false),
    (true, false, false),
    (false, true, false),
    (false, false, true),
    (true, true, false),
    (true, false, true),
    (false, true, true),
    (true, true, true),
];
fn shape_name(s: (bool, bool, bool)) -> String {
    format!("{}{}{}", if s.0 { 'S' } else { '-' }, if s.1 { 'P' } else { '-' }, if s.2 { 'O' } else { '-' })
}
fn pattern(s: (bool, bool, bool), probe: &(Term, Term, Term)) -> TriplePattern {
    TriplePattern { subject: s.0.then(|| probe.0.clone()), predicate: s.1.then(|| probe.1.clone()), object: s.2.then(|| probe.2.clone()) }
}
fn model_find(m: &Model, p: &TriplePattern) -> Vec<TKey> {
    m.iter().filter(|(_, t)| p.matches(t)).map(|(k, _)| k.clone()).collect()
}

/// Compare an observed list (any order) with the expected sorted keys: exactly those, once each.
fn list_kind(obs: &mut Vec<TKey>, exp: &[TKey]) -> Option<&'static str> {
    obs.sort();
    if obs.as_slice() == exp {
        return None;
    }
    let n = obs.len();
    obs.dedup();
    let repeated = obs.len() < n;
    let e: BTreeSet<&TKey> = exp.iter().collect();
    let o: BTreeSet<&TKey> = obs.iter().collect();
    let missing = e.difference(&o).next().is_some();
    let extra = o.difference(&e).next().is_some();
    Some(match (repeated, missing, extra) {
        (true, false, false) => "repeated",
        (_, true, false) => "missing",
        (_, false, true) => "extra",
        (_, true, true) => "missing+extra",
        (false, false, false) => unreachable!(),
    })
}
fn keys_of(v: &[Arc<Triple>]) -> Vec<TKey> {
    v.iter().map(|t| tkey(t)).collect()
}

/// find_with_pending under the spec or under the named deviation rules (multiset, sorted).
fn fwp_model(m: &Model, ops: &[POp], p: &TriplePattern, dup: bool, keep: bool) -> Vec<TKey> {
    let committed = model_find(m, p);
    let mut out: Vec<TKey> = match (dup, keep) {
        (false, false) => {
            // the specification: the transaction's own operations applied in order
            let mut s: BTreeSet<TKey> = committed.into_iter().collect();
            for op in ops {
                match op {
                    POp::Ins(t) if p.matches(t) => {
                        s.insert(tkey(t));
                    }
                    POp::Del(t) => {
                        s.remove(&tkey(t));
                    }
                    _ => {}
                }
            }
            s.into_iter().collect()
        }
        (true, false) => {
            // pending inserts appended without looking for an equal triple
            let mut v = committed;
            for op in ops {
                match op {
                    POp::Ins(t) if p.matches(t) => v.push(tkey(t)),
                    POp::Del(t) => {
                        let k = tkey(t);
                        v.retain(|x| *x != k);
                    }
                    _ => {}
                }
            }
            v
        }
        (d, true) => {
            // pending deletes hide committed triples only; every pending insert shows
            let dels: BTreeSet<TKey> = ops.iter().filter_map(|o| if let POp::Del(t) = o { Some(tkey(t)) } else { None }).collect();
            let mut v: Vec<TKey> = committed.into_iter().filter(|k| !dels.contains(k)).collect();
            for op in ops {
                if let POp::Ins(t) = op {
                    if p.matches(t) {
                        v.push(tkey(t));
                    }
                }
            }
            if !d {
                v.sort();
                v.dedup();
            }
            v
        }
    };
    out.sort();
    out
}

struct StoreCtx<'a> {
    log: &'a mut Log,
    idx: bool,
    rule_dup: bool,
    rule_keep: bool,
}
impl StoreCtx<'_> {
    fn sig(&self, api: &str, shape: &str, kind: &str) -> String {
        format!("store:{api}|{shape}|idxobj={}|{kind}", if self.idx { "on" } else { "off" })
    }
    fn dev(&mut self, api: &str, shape: &str, kind: &str, detail: J) {
        let s = self.sig(api, shape, kind);
        self.log.deviation(&s, detail);
    }
    fn panic(&mut self, api: &str, p: crate::util::Panic) {
        self.log.deviation(&format!("panic@{}", p.site), json!({"api": api, "panic": p.msg, "at": p.at}));
    }
}

fn check_lookups(cx: &mut StoreCtx, st: &RdfStore, m: &Model, overlays: &BTreeMap<u64, Vec<POp>>, probes: &[(Term, Term, Term)], history: &dyn Fn() -> J) {
    cx.log.evals += 1;
    // len / is_empty / stats
    match catch(|| (st.len(), st.is_empty(), st.stats())) {
        Ok((len, empty, stats)) => {
            if len != m.len() || empty != m.is_empty() {
                cx.dev("len", "-", "wrong", json!({"len": len, "is_empty": empty, "model": m.len(), "history": history()}));
            }
            let subj: BTreeSet<&String> = m.keys().map(|k| &k.0).collect();
            let pred: BTreeSet<&String> = m.keys().map(|k| &k.1).collect();
            let obj: BTreeSet<&String> = m.keys().map(|k| &k.2).collect();
            let want_obj = if cx.idx { obj.len() } else { 0 }; // documented: 0 if object index disabled
            if stats.triple_count != m.len() || stats.subject_count != subj.len() || stats.predicate_count != pred.len() || stats.object_count != want_obj {
                cx.dev(
                    "stats",
                    "-",
                    "wrong",
                    json!({"stats": format!("{stats:?}"), "model": [m.len(), subj.len(), pred.len(), want_obj], "history": history()}),
                );
            }
        }
        Err(p) => cx.panic("len/stats", p),
    }
    for probe in probes {
        for s in SHAPES {
            let pat = pattern(s, probe);
            let exp = model_find(m, &pat);
            let sn = shape_name(s);
            cx.log.count(&format!("store.find.{sn}"), 1);
            if !exp.is_empty() {
                cx.log.count("store.find.nonempty", 1);
            }
            match catch(|| st.find(&pat)) {
                Ok(v) => {
                    if let Some(k) = list_kind(&mut keys_of(&v), &exp) {
                        cx.dev("find", &sn, k, json!({"pattern": format!("{pat:?}"), "observed": v.len(), "expected": exp.len(), "history": history()}));
                    }
                }
                Err(p) => cx.panic("find", p),
            }
            // no transaction: same as find
            match catch(|| st.find_with_pending(&pat, None)) {
                Ok(v) => {
                    if let Some(k) = list_kind(&mut keys_of(&v), &exp) {
                        cx.dev("find_with_pending(None)", &sn, k, json!({"pattern": format!("{pat:?}"), "history": history()}));
                    }
                }
                Err(p) => cx.panic("find_with_pending", p),
            }
            for (tx, ops) in overlays {
                let spec = fwp_model(m, ops, &pat, false, false);
                cx.log.count("store.find_with_pending", 1);
                match catch(|| st.find_with_pending(&pat, Some(TxId::new(*tx)))) {
                    Ok(v) => {
                        let mut o = keys_of(&v);
                        o.sort();
                        if o == spec {
                            continue;
                        }
                        let devm = fwp_model(m, ops, &pat, cx.rule_dup, cx.rule_keep);
                        if (cx.rule_dup || cx.rule_keep) && o == devm {
                            // name the rules whose removal changes the prediction
                            if cx.rule_dup && fwp_model(m, ops, &pat, false, cx.rule_keep) != devm {
                                cx.log.known_rule(RULE_DUP, || format!("rule:{RULE_DUP} shape {sn}"));
                            }
                            if cx.rule_keep && fwp_model(m, ops, &pat, cx.rule_dup, false) != devm {
                                cx.log.known_rule(RULE_KEEP, || format!("rule:{RULE_KEEP} shape {sn}"));
                            }
                            continue;
                        }
                        let k = list_kind(&mut o.clone(), &spec).unwrap_or("wrong");
                        cx.dev(
                            "find_with_pending",
                            &sn,
                            k,
                            json!({"pattern": format!("{pat:?}"), "observed": o.len(), "spec": spec.len(), "with_open_rules": devm.len(), "history": history()}),
                        );
                    }
                    Err(p) => cx.panic("find_with_pending", p),
                }
            }
        }
        // the three direct accessors
        let singles: [(&str, (bool, bool, bool), Box<dyn Fn() -> Vec<Arc<Triple>> + '_>); 3] = [
            ("triples_with_subject", (true, false, false), Box::new(|| st.triples_with_subject(&probe.0))),
            ("triples_with_predicate", (false, true, false), Box::new(|| st.triples_with_predicate(&probe.1))),
            ("triples_with_object", (false, false, true), Box::new(|| st.triples_with_object(&probe.2))),
        ];
        for (api, s, f) in singles {
            let exp = model_find(m, &pattern(s, probe));
            match catch(f) {
                Ok(v) => {
                    if let Some(k) = list_kind(&mut keys_of(&v), &exp) {
                        cx.dev(api, &shape_name(s), k, json!({"term": format!("{probe:?}"), "observed": v.len(), "expected": exp.len(), "history": history()}));
                    }
                }
                Err(p) => cx.panic(api, p),
            }
        }
        let t = Triple::new(probe.0.clone(), probe.1.clone(), probe.2.clone());
        match catch(|| st.contains(&t)) {
            Ok(b) => {
                if b != m.contains_key(&tkey(&t)) {
                    cx.dev("contains", "SPO", "wrong", json!({"triple": nt(&t), "observed": b, "history": history()}));
                }
            }
            Err(p) => cx.panic("contains", p),
        }
    }
    for (tx, ops) in overlays {
        if let Ok(b) = catch(|| st.has_pending_ops(TxId::new(*tx))) {
            if b != !ops.is_empty() {
                cx.dev("has_pending_ops", "-", "wrong", json!({"observed": b, "pending": ops.len(), "history": history()}));
            }
        }
    }
}

fn check_full(cx: &mut StoreCtx, st: &RdfStore, m: &Model, history: &dyn Fn() -> J) {
    let exp: Vec<TKey> = m.keys().cloned().collect();
    match catch(|| st.triples()) {
        Ok(v) => {
            if let Some(k) = list_kind(&mut keys_of(&v), &exp) {
                cx.dev("triples", "---", k, json!({"observed": v.len(), "expected": exp.len(), "history": history()}));
            }
        }
        Err(p) => cx.panic("triples", p),
    }
    let sets: [(&str, Box<dyn Fn() -> Vec<Term> + '_>, BTreeSet<String>); 3] = [
        ("subjects", Box::new(|| st.subjects()), m.keys().map(|k| k.0.clone()).collect()),
        ("predicates", Box::new(|| st.predicates()), m.keys().map(|k| k.1.clone()).collect()),
        ("objects", Box::new(|| st.objects()), m.keys().map(|k| k.2.clone()).collect()),
    ];
    for (api, f, exp) in sets {
        match catch(f) {
            Ok(v) => {
                let mut o: Vec<String> = v.iter().map(|t| t.to_string()).collect();
                o.sort();
                let e: Vec<String> = exp.into_iter().collect();
                if o != e {
                    cx.dev(api, "-", "wrong", json!({"observed": o.len(), "expected": e.len(), "history": history()}));
                }
            }
            Err(p) => cx.panic(api, p),
        }
    }
}

fn check_ring(cx: &mut StoreCtx, r: &mut Rng, m: &Model, probes: &[(Term, Term, Term)]) {
    cx.log.evals += 1;
    cx.log.count("ring.built", 1);
    let mut ts: Vec<Triple> = m.values().cloned().collect();
    // the constructor promises to remove duplicates
    for _ in 0..r.below(4) {
        if !ts.is_empty() {
            let t = r.pick(&ts).clone();
            ts.push(t);
        }
    }
    r.shuffle(&mut ts);
    let exp_all: Vec<TKey> = m.keys().cloned().collect();
    let n_terms: BTreeSet<&String> = m.keys().flat_map(|k| [&k.0, &k.1, &k.2]).collect();
    let dev = |cx: &mut StoreCtx, api: &str, shape: &str, kind: &str, d: J| {
        cx.log.deviation(&format!("ring:{api}|{shape}|{kind}"), d);
    };
    let data = || json!(m.values().map(nt).collect::<Vec<_>>());
    let ring = match catch(|| TripleRing::from_triples(ts.into_iter())) {
        Ok(r) => r,
        Err(p) => return cx.panic("TripleRing::from_triples", p),
    };
    let res = catch(|| {
        let mut out: Vec<(String, String, String, J)> = Vec::new();
        if ring.len() != m.len() || ring.is_empty() != m.is_empty() {
            out.push(("len".into(), "-".into(), "wrong".into(), json!({"len": ring.len(), "model": m.len()})));
        }
        if ring.num_terms() != n_terms.len() {
            out.push(("num_terms".into(), "-".into(), "wrong".into(), json!({"num_terms": ring.num_terms(), "model": n_terms.len()})));
        }
        let mut all: Vec<TKey> = (0..ring.len()).filter_map(|i| ring.get_spo(i)).map(|t| tkey(&t)).collect();
        if let Some(k) = list_kind(&mut all, &exp_all) {
            out.push(("get_spo".into(), "---".into(), k.into(), json!({})));
        }
        if ring.get_spo(ring.len()).is_some() {
            out.push(("get_spo".into(), "---".into(), "past_end".into(), json!({})));
        }
        // the two permutations are bijections with working inverses
        for (name, fwd, inv) in [
            ("pos", &(|i| ring.spo_to_pos(i)) as &dyn Fn(usize) -> Option<usize>, &(|i| ring.pos_to_spo(i)) as &dyn Fn(usize) -> Option<usize>),
            ("osp", &(|i| ring.spo_to_osp(i)), &(|i| ring.osp_to_spo(i))),
        ] {
            let mut seen = BTreeSet::new();
            for i in 0..ring.len() {
                match fwd(i) {
                    Some(j) if j < ring.len() && inv(j) == Some(i) => {
                        seen.insert(j);
                    }
                    other => {
                        out.push((format!("perm_{name}"), "-".into(), "roundtrip".into(), json!({"i": i, "forward": other})));
                        break;
                    }
                }
            }
            if seen.len() != ring.len() && !out.iter().any(|o| o.0 == format!("perm_{name}")) {
                out.push((format!("perm_{name}"), "-".into(), "not_bijective".into(), json!({})));
            }
        }
        let mut it: Vec<TKey> = RingIterator::all(&ring).map(|t| tkey(&t)).collect();
        if let Some(k) = list_kind(&mut it, &exp_all) {
            out.push(("iter_all".into(), "---".into(), k.into(), json!({})));
        }
        for probe in probes {
            for s in SHAPES {
                let pat = pattern(s, probe);
                let exp = model_find(m, &pat);
                let sn = shape_name(s);
                let mut f: Vec<TKey> = ring.find(&pat).map(|t| tkey(&t)).collect();
                if let Some(k) = list_kind(&mut f, &exp) {
                    out.push(("find".into(), sn.clone(), k.into(), json!({"pattern": format!("{pat:?}")})));
                }
                let c = ring.count(&pat);
                if c != exp.len() {
                    out.push(("count".into(), sn.clone(), "wrong".into(), json!({"pattern": format!("{pat:?}"), "count": c, "expected": exp.len()})));
                }
            }
            for (api, s, mut v) in [
                ("iter_subject", (true, false, false), RingIterator::with_subject(&ring, &probe.0).map(|t| tkey(&t)).collect::<Vec<_>>()),
                ("iter_predicate", (false, true, false), RingIterator::with_predicate(&ring, &probe.1).map(|t| tkey(&t)).collect::<Vec<_>>()),
                ("iter_object", (false, false, true), RingIterator::with_object(&ring, &probe.2).map(|t| tkey(&t)).collect::<Vec<_>>()),
            ] {
                let exp = model_find(m, &pattern(s, probe));
                if let Some(k) = list_kind(&mut v, &exp) {
                    out.push((api.into(), shape_name(s), k.into(), json!({"term": format!("{probe:?}")})));
                }
            }
        }
        out
    });
    match res {
        Ok(devs) => {
            for (api, shape, kind, mut d) in devs {
                d["data"] = data();
                dev(cx, &api, &shape, &kind, d);
            }
        }
        Err(p) => cx.panic("TripleRing lookups", p),
    }
}

fn store_case(seed: u64, case: u64, u: &Universe, rule_dup: bool, rule_keep: bool) -> Log {
    let mut log = Log::default();
    let mut r = Rng::new(seed, "C13.store", case);
    let idx = case % 2 == 0;
    let n_ops = match r.below(10) {
        0 => 1 + r.below(5),
        1..=3 => 5 + r.below(60),
        _ => 40 + r.below(361),
    };
    // per-case sub-universe: a small one makes duplicates and hits frequent
    let take = |r: &mut Rng, v: &[Term], lo: usize| -> Vec<Term> {
        let mut v = v.to_vec();
        r.shuffle(&mut v);
        v.truncate(lo + r.below(v.len() - lo + 1));
        v
    };
    let subj = take(&mut r, &u.subj, 2);
    let pred = take(&mut r, &u.pred, 1);
    let obj = take(&mut r, &u.obj, 3);
    let st = RdfStore::with_config(RdfStoreConfig { initial_capacity: 1 + r.below(64), index_objects: idx });
    let mut m: Model = Model::new();
    let mut overlays: BTreeMap<u64, Vec<POp>> = BTreeMap::new();
    let mut hist: Vec<String> = Vec::new();
    let mut cx = StoreCtx { log: &mut log, idx, rule_dup, rule_keep };
    let (mut dup_inserts, mut hit_removes, mut absent_removes) = (0u64, 0u64, 0u64);
    let rand_triple = |r: &mut Rng| Triple::new(r.pick(&subj).clone(), r.pick(&pred).clone(), r.pick(&obj).clone());
    for step in 0..n_ops {
        let from_model = |r: &mut Rng, m: &Model| -> Option<Triple> {
            if m.is_empty() {
                return None;
            }
            let i = r.below(m.len());
            m.values().nth(i).cloned()
        };
        let kind = r.weighted(&[46, 30, 2, 8, 6, 3, 2, 3]);
        let mut touched: Option<Triple> = None;
        match kind {
            0 => {
                let t = if r.chance(0.2) { from_model(&mut r, &m) } else { None }.unwrap_or_else(|| rand_triple(&mut r));
                let fresh = !m.contains_key(&tkey(&t));
                if !fresh {
                    dup_inserts += 1;
                }
                hist.push(format!("insert {}", nt(&t)));
                match catch(|| st.insert(t.clone())) {
                    Ok(b) if b != fresh => cx.dev("insert", "-", "return", json!({"returned": b, "history": hist})),
                    Ok(_) => {}
                    Err(p) => cx.panic("insert", p),
                }
                m.insert(tkey(&t), t.clone());
                cx.log.count("store.op.insert", 1);
                touched = Some(t);
            }
            1 => {
                let t = if r.chance(0.6) { from_model(&mut r, &m) } else { None }.unwrap_or_else(|| rand_triple(&mut r));
                let present = m.contains_key(&tkey(&t));
                if present {
                    hit_removes += 1;
                } else {
                    absent_removes += 1;
                }
                hist.push(format!("remove {}", nt(&t)));
                match catch(|| st.remove(&t)) {
                    Ok(b) if b != present => cx.dev("remove", "-", "return", json!({"returned": b, "history": hist})),
                    Ok(_) => {}
                    Err(p) => cx.panic("remove", p),
                }
                m.remove(&tkey(&t));
                cx.log.count("store.op.remove", 1);
                touched = Some(t);
            }
            2 => {
                hist.push("clear".into());
                if let Err(p) = catch(|| st.clear()) {
                    cx.panic("clear", p);
                }
                m.clear();
                cx.log.count("store.op.clear", 1);
            }
            3 | 4 => {
                let tx = 10 + r.below(2) as u64;
                let t = if r.chance(0.45) { from_model(&mut r, &m) } else { None }
                    .or_else(|| {
                        // or a triple this transaction already touched
                        let ops = overlays.get(&tx)?;
                        if ops.is_empty() || !r.chance(0.5) {
                            return None;
                        }
                        Some(match r.pick(ops) {
                            POp::Ins(t) | POp::Del(t) => t.clone(),
                        })
                    })
                    .unwrap_or_else(|| rand_triple(&mut r));
                if kind == 3 {
                    hist.push(format!("insert_in_tx {tx} {}", nt(&t)));
                    if let Err(p) = catch(|| st.insert_in_tx(TxId::new(tx), t.clone())) {
                        cx.panic("insert_in_tx", p);
                    }
                    overlays.entry(tx).or_default().push(POp::Ins(t.clone()));
                    cx.log.count("store.op.insert_in_tx", 1);
                } else {
                    hist.push(format!("remove_in_tx {tx} {}", nt(&t)));
                    if let Err(p) = catch(|| st.remove_in_tx(TxId::new(tx), t.clone())) {
                        cx.panic("remove_in_tx", p);
                    }
                    overlays.entry(tx).or_default().push(POp::Del(t.clone()));
                    cx.log.count("store.op.remove_in_tx", 1);
                }
                touched = Some(t);
            }
            5 | 6 => {
                let tx = 10 + r.below(2) as u64;
                let ops = overlays.remove(&tx).unwrap_or_default();
                let commit = kind == 5;
                hist.push(format!("{} {tx}", if commit { "commit_tx" } else { "rollback_tx" }));
                let res = catch(|| if commit { st.commit_tx(TxId::new(tx)) } else { st.rollback_tx(TxId::new(tx)) });
                match res {
                    Ok(n) if n != ops.len() => cx.dev(if commit { "commit_tx" } else { "rollback_tx" }, "-", "return", json!({"returned": n, "pending": ops.len(), "history": hist})),
                    Ok(_) => {}
                    Err(p) => cx.panic("commit_tx/rollback_tx", p),
                }
                if commit {
                    for op in &ops {
                        match op {
                            POp::Ins(t) => {
                                m.insert(tkey(t), t.clone());
                            }
                            POp::Del(t) => {
                                m.remove(&tkey(t));
                            }
                        }
                    }
                    touched = ops.last().map(|o| match o {
                        POp::Ins(t) | POp::Del(t) => t.clone(),
                    });
                }
                cx.log.count(if commit { "store.op.commit_tx" } else { "store.op.rollback_tx" }, 1);
            }
            _ => {
                // insert of a triple that is already there / remove of one that is not, back to back
                let t = rand_triple(&mut r);
                hist.push(format!("insert+insert+remove+remove {}", nt(&t)));
                let fresh = !m.contains_key(&tkey(&t));
                let res = catch(|| (st.insert(t.clone()), st.insert(t.clone()), st.remove(&t), st.remove(&t)));
                match res {
                    Ok(got) if got != (fresh, false, true, false) => cx.dev("insert/remove", "-", "return", json!({"returned": format!("{got:?}"), "history": hist})),
                    Ok(_) => {}
                    Err(p) => cx.panic("insert/remove", p),
                }
                m.remove(&tkey(&t));
                dup_inserts += 1;
                absent_removes += 1;
                cx.log.count("store.op.double", 1);
                touched = Some(t);
            }
        }
        let mut probes: Vec<(Term, Term, Term)> = Vec::new();
        if let Some(t) = &touched {
            probes.push((t.subject().clone(), t.predicate().clone(), t.object().clone()));
        }
        probes.push((r.pick(&subj).clone(), r.pick(&pred).clone(), r.pick(&obj).clone()));
        let tail = || json!(hist.iter().rev().take(12).rev().collect::<Vec<_>>());
        check_lookups(&mut cx, &st, &m, &overlays, &probes, &tail);
        if step % 32 == 31 || step + 1 == n_ops {
            check_full(&mut cx, &st, &m, &tail);
            // the ring is built from what the store itself hands out
            let from_store: Model = st.triples().iter().map(|t| (tkey(t), (**t).clone())).collect();
            check_ring(&mut cx, &mut r, &from_store, &probes);
            if from_store.len() != m.len() {
                check_ring(&mut cx, &mut r, &m, &probes);
            }
        }
    }
    if dup_inserts > 0 && hit_removes > 0 && absent_removes > 0 {
        log.nontrivial.push(hash_str(&hist.join("\n")));
        log.count("store.cases_nontrivial", 1);
    }
    log.count(if idx { "store.cases.idxobj_on" } else { "store.cases.idxobj_off" }, 1);
    if case < 2 {
        log.samples.push(json!({"store_case": case, "index_objects": idx, "operations": hist.len(), "first_operations": hist.iter().take(8).collect::<Vec<_>>()}));
    }
    log
}

// ---------------------------------------------------------------------------------------
// (b) query level
// ---------------------------------------------------------------------------------------

fn query_case(seed: u64, case: u64, u: &Universe, caps: &sparql::Caps, eng: &mut sparql::Engine, shrink_budget: usize, tol: sparql::Tol) -> Log {
    let mut log = Log::default();
    let mut r = Rng::new(seed, "C13.query", case);
    let data = sparql::gen_data(&mut r, u);
    eng.via_session = case % 4 == 3;
    log.evals += 1;
    let is_update = r.chance(0.17) && (caps.insert_data || caps.delete_data || caps.delete_where || caps.clear);
    if is_update {
        let up = sparql::gen_update(&mut r, u, &data, caps);
        let text = sparql::update_sparql(&up);
        log.count(
            match &up {
                sparql::Update::InsertData(_) => "sparql.update.insert_data",
                sparql::Update::DeleteData(_) => "sparql.update.delete_data",
                sparql::Update::DeleteWhere(_) => "sparql.update.delete_where",
                sparql::Update::Clear(_) => "sparql.update.clear",
            },
            1,
        );
        match sparql::check_update(eng, &up, &data) {
            Outcome::Agree { nontrivial, .. } => {
                log.count("sparql.agree", 1);
                if nontrivial {
                    log.nontrivial.push(hash_str(&format!("{text}|{:?}", sparql::data_json(&data))));
                }
            }
            Outcome::Rejected(e) => {
                log.count("sparql.rejected_by_engine", 1);
                log.rejected.push((e, text));
            }
            Outcome::Skipped => log.count("sparql.skipped_too_large", 1),
            Outcome::Mismatch(m) => {
                log.count("sparql.mismatch_before_shrinking", 1);
                let s = sparql::shrink_update(eng, &up, &data, m, shrink_budget);
                log.count("sparql.shrink_checks", s.checks as u64);
                let sig = format!("sparql:{}|{}", sparql::update_skeleton(&s.case, &s.mismatch), s.mismatch.kind);
                log.nontrivial.push(hash_str(&format!("{text}|{:?}", sparql::data_json(&data))));
                log.deviation(
                    &sig,
                    json!({"case": case, "update": sparql::update_sparql(&s.case), "data": sparql::data_json(&s.data), "mismatch": s.mismatch.detail,
                           "original_update": text, "original_data": sparql::data_json(&data)}),
                );
            }
        }
        return log;
    }
    let q = sparql::gen_query(&mut r, u, &data, caps);
    let text = sparql::query_sparql(&q);
    for f in sparql::query_skeleton(&q).split('+') {
        let f = f.split('[').next().unwrap();
        log.count(&format!("sparql.feature.{f}"), 1);
    }
    if case < 4 {
        log.samples.push(json!({"query_case": case, "query": text, "data": sparql::data_json(&data)}));
    }
    match sparql::check_query(eng, &q, &data, tol) {
        Outcome::Agree { nontrivial, under } => {
            if under.is_empty() {
                log.count("sparql.agree", 1);
            } else {
                log.count("sparql.explained_by_open_rules", 1);
                for r in under {
                    log.known_rule(r, || format!("rule:{r} {text}"));
                }
            }
            if nontrivial {
                log.count("sparql.agree_nonempty_answer", 1);
                log.nontrivial.push(hash_str(&format!("{text}|{:?}", sparql::data_json(&data))));
            }
        }
        Outcome::Rejected(e) => {
            log.count("sparql.rejected_by_engine", 1);
            log.rejected.push((e, text));
        }
        Outcome::Skipped => log.count("sparql.skipped_too_large", 1),
        Outcome::Mismatch(m) => {
            log.count("sparql.mismatch_before_shrinking", 1);
            let s = sparql::shrink_query(eng, &q, &data, m, shrink_budget, tol);
            log.count("sparql.shrink_checks", s.checks as u64);
            let mut sk = sparql::query_skeleton(&s.case);
            if s.mismatch.kind == "wrong slice" {
                // LIMIT / OFFSET are what "slice" already says
                sk = sk.replace("+limit", "").replace("+offset", "");
            }
            let sig = format!("sparql:{sk}|{}", s.mismatch.kind);
            log.nontrivial.push(hash_str(&format!("{text}|{:?}", sparql::data_json(&data))));
            log.deviation(
                &sig,
                json!({"case": case, "query": sparql::query_sparql(&s.case), "data": sparql::data_json(&s.data), "mismatch": s.mismatch.detail,
                       "original_query": text, "original_data": sparql::data_json(&data)}),
            );
        }
    }
    log
}

// ---------------------------------------------------------------------------------------
// (c) SPARQL inside a session transaction: directed matrix
// ---------------------------------------------------------------------------------------

fn tx_matrix(rep: &mut Report) {
    use grafeo_engine::GrafeoDB;
    let t0 = "<http://e/a> <http://e/p> <http://e/b> .";
    let t1 = "<http://e/c> <http://e/p> <http://e/d> .";
    let count = |s: &grafeo_engine::Session| -> Result<i64, String> {
        let r = s.execute_sparql("SELECT (COUNT(*) AS ?cnt) WHERE { ?a ?b ?c . }").map_err(|e| e.to_string())?;
        match r.rows.first().and_then(|x| x.first()) {
            Some(grafeo_common::types::Value::Int64(n)) => Ok(*n),
            other => Err(format!("unexpected count cell {other:?}")),
        }
    };
    // (write inside the transaction, expected count seen inside, after commit, after rollback); start: {t0}
    let cells: [(&str, String, i64, i64, i64); 4] = [
        ("insert_data", format!("INSERT DATA {{ {t1} }}"), 2, 2, 1),
        ("delete_data", format!("DELETE DATA {{ {t0} }}"), 0, 0, 1),
        ("insert_data_duplicate", format!("INSERT DATA {{ {t0} }}"), 1, 1, 1),
        ("insert_then_delete_data", format!("INSERT DATA {{ {t1} }} ;; DELETE DATA {{ {t1} }}"), 1, 1, 1),
    ];
    for (name, writes, want_in, want_commit, want_rollback) in cells {
        for end in ["commit", "rollback"] {
            rep.eval();
            rep.count("tx_matrix.cells", 1);
            let res = catch(|| -> Result<(i64, i64), String> {
                let db = GrafeoDB::new_in_memory();
                db.execute_sparql(&format!("INSERT DATA {{ {t0} }}")).map_err(|e| e.to_string())?;
                let mut s = db.session();
                s.begin_tx().map_err(|e| e.to_string())?;
                for w in writes.split(";;") {
                    s.execute_sparql(w.trim()).map_err(|e| e.to_string())?;
                }
                let inside = count(&s)?;
                if end == "commit" { s.commit() } else { s.rollback() }.map_err(|e| e.to_string())?;
                let after = count(&db.session())?;
                Ok((inside, after))
            });
            let want_after = if end == "commit" { want_commit } else { want_rollback };
            match res {
                Ok(Ok((inside, after))) => {
                    rep.nontrivial(hash_str(&format!("tx{name}{end}")));
                    if inside != want_in {
                        rep.deviation(&format!("tx:{name}|read_inside_tx"), json!({"writes": writes, "count_seen_inside": inside, "expected": want_in, "start": [t0]}));
                    }
                    if after != want_after {
                        rep.deviation(&format!("tx:{name}|after_{end}"), json!({"writes": writes, "count_after": after, "expected": want_after, "start": [t0]}));
                    }
                }
                Ok(Err(e)) => rep.count(&format!("tx_matrix.rejected.{}", e.chars().take(40).collect::<String>()), 1),
                Err(p) => rep.deviation(&format!("panic@{}", p.site), json!({"writes": writes, "panic": p.msg, "at": p.at})),
            }
        }
    }
}

// ---------------------------------------------------------------------------------------

pub fn run(tier: Tier, seed: u64) -> ! {
    let mut rep = Report::new("C13", tier, seed, "exploration");
    rep.rule = "stores: random sequences of 1-400 insert/remove/clear/tx-buffer operations over a sub-universe of 12 IRIs, 2 blank nodes and 18 plain/language-tagged/typed literals; after every operation all eight bound/unbound shapes of find, find_with_pending, triples_with_*, contains, len, stats against an ordered-set model, alternating index_objects; TripleRing rebuilt every 32 operations. non-trivial store case = contains a duplicate insert, a removal of a present and of an absent triple (distinct by operation history). queries: 1-4 triple patterns, OPTIONAL/UNION nesting <= 2, FILTER, DISTINCT, ORDER/LIMIT/OFFSET, COUNT/GROUP BY, updates, over 0-16 random triples; non-trivial = reference answer non-empty / update changes the set / mismatch (distinct by query text + data)".into();
    let u = sparql::universe();
    let rule_dup = rep.findings.rule_open(RULE_DUP);
    let rule_keep = rep.findings.rule_open(RULE_KEEP);
    let mut rejected: BTreeMap<String, (u64, String)> = BTreeMap::new();

    let t0 = std::time::Instant::now();
    // (a)
    let n_stores = tier.pick(2500u64, 20_000);
    for l in par_cases(n_stores, |c| store_case(seed, c, &u, rule_dup, rule_keep)) {
        l.merge_into(&mut rep, &mut rejected);
    }

    let wall_stores = t0.elapsed().as_secs_f64();
    // (b)
    let mut probe_eng = sparql::Engine::new();
    let (caps, refused) = sparql::probe(&mut probe_eng);
    let n_queries = tier.pick(12_000u64, 150_000);
    let budget = 400;
    let tol = sparql::Tol { null_as_empty: rep.findings.rule_open(sparql::RULE_NULL), distinct_noop: rep.findings.rule_open(sparql::RULE_DISTINCT) };
    let threads = std::thread::available_parallelism().map(|x| x.get()).unwrap_or(4).min(16) as u64;
    // one engine per worker thread (thread-local), reused across that worker's cases
    thread_local! { static ENG: std::cell::RefCell<Option<sparql::Engine>> = const { std::cell::RefCell::new(None) }; }
    let _ = threads;
    for l in par_cases(n_queries, |c| {
        ENG.with(|e| {
            let mut e = e.borrow_mut();
            let eng = e.get_or_insert_with(sparql::Engine::new);
            query_case(seed, c, &u, &caps, eng, budget, tol)
        })
    }) {
        l.merge_into(&mut rep, &mut rejected);
    }

    let wall_queries = t0.elapsed().as_secs_f64() - wall_stores;
    // (c)
    tx_matrix(&mut rep);
    rep.extra.insert("phase_wall_s".into(), json!({"stores": wall_stores, "queries": wall_queries}));

    let mut assumptions = vec![
        "solutions are compared after rendering every term the way the engine's result columns do (IRI text, _:label, lexical form of a literal); that result cells carry no datatype / language tag / term kind is not judged, only which solutions come back".to_string(),
        "an engine Err is not a violation (counted as sparql.rejected_by_engine and listed in rejected_queries); only wrong answers and panics are".to_string(),
        "ORDER BY is judged only where SPARQL 15.1 defines the order (unbound < blank < IRI < literal, numeric by value, simple literals by code point, IRIs by code point); other pairs may come in any order".to_string(),
        "reference answers larger than 4000 intermediate solutions are skipped (counter sparql.skipped_too_large)".to_string(),
        "RdfStoreStats.object_count is expected to be 0 when index_objects is off, as its doc comment says".to_string(),
        "LeapfrogRing is a documented placeholder ('simplified implementation') and is not judged; TripleRing and RingIterator are".to_string(),
        "a UNION whose branches bind different variables is generated; when the query then projects / orders by a variable that only a later branch binds the engine answers Err 'Variable not found' (a consequence of C13-Q14) - counted as rejected, not judged".to_string(),
        "FILTER atoms are ?v <op> <numeric constant> and bound(?v), combined with ! && ||; comparisons between two variables or against IRIs / strings are not generated".to_string(),
        "open findings C13-Q1 (unbound shown as empty string) and C13-Q2 (DISTINCT ignored) are modelled as tolerances of the comparison: an answer they explain is a KNOWN-FINDING, and shrinking looks for disagreements they do not explain; with the finding closed the tolerance is off".to_string(),
    ];
    assumptions.extend(refused);
    rep.assumptions = assumptions;
    let rj: Vec<J> = rejected.iter().map(|(msg, (n, text))| json!({"error": msg, "times": n, "example": text})).collect();
    rep.extra.insert("rejected_queries".into(), json!(rj));
    rep.extra.insert("front_end_accepts".into(), json!(format!("{caps:?}")));
    rep.finish()
}
