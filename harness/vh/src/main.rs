mod hooks;
mod model;
mod txm;
mod txo;
mod c01;
mod c02;
mod c03;
mod c04;
mod c05;
mod c06;
mod c07;
mod c08;
mod c09;
mod c10;
mod c11;
mod c12;
mod c13;
mod c14;
mod c15;
mod c16;
mod c17;
mod c18;
mod c19;
mod c20;
mod report;
mod rng;
mod util;
mod vals;

use report::Tier;

fn main() {
    let args: Vec<String> = std::env::args().collect();
    if args.len() < 2 {
        eprintln!("usage: vh <property-id> [--tier quick|thorough] [--seed N] [--replay file]");
        std::process::exit(2);
    }
    let id = args[1].to_uppercase();
    if id == "Q" {
        return playground(&args[2..]);
    }
    let mut tier = match std::env::var("VERIF_TIER").as_deref() {
        Ok("thorough") => Tier::Thorough,
        _ => Tier::Quick,
    };
    let mut seed: u64 = std::env::var("VERIF_SEED").ok().and_then(|s| s.parse().ok()).unwrap_or(1);
    let mut i = 2;
    while i < args.len() {
        match args[i].as_str() {
            "--tier" => {
                i += 1;
                tier = if args[i] == "thorough" { Tier::Thorough } else { Tier::Quick };
            }
            "--seed" => {
                i += 1;
                seed = args[i].parse().expect("seed");
            }
            "--replay" => {
                i += 1;
                let s = std::fs::read_to_string(&args[i]).expect("replay file");
                let v: serde_json::Value = serde_json::from_str(&s).expect("replay json");
                seed = v["seed"].as_u64().unwrap_or(seed);
                tier = if v["tier"] == "thorough" { Tier::Thorough } else { Tier::Quick };
                println!("REPLAY signature={} (re-running seed={} tier={})", v["signature"], seed, tier.name());
            }
            other => {
                eprintln!("unknown argument {other}");
                std::process::exit(2);
            }
        }
        i += 1;
    }
    util::install_panic_hook();
    hooks::install();
    match id.as_str() {
        "C01" => c01::run(tier, seed),
        "C02" => c02::run(tier, seed),
        "C03" => c03::run(tier, seed),
        "C04" => c04::run(tier, seed),
        "C05" => c05::run(tier, seed),
        "C06" => c06::run(tier, seed),
        "C07" => c07::run(tier, seed),
        "C08" => c08::run(tier, seed),
        "C09" => c09::run(tier, seed),
        "C10" => c10::run(tier, seed),
        "C11" => c11::run(tier, seed),
        "C12" => c12::run(tier, seed),
        "C13" => c13::run(tier, seed),
        "C14" => c14::run(tier, seed),
        "C15" => c15::run(tier, seed),
        "C16" => c16::run(tier, seed),
        "C17" => c17::run(tier, seed),
        "C18" => c18::run(tier, seed),
        "C19" => c19::run(tier, seed),
        "C20" => c20::run(tier, seed),
        _ => {
            eprintln!("unknown property {id}");
            std::process::exit(2);
        }
    }
}

/// Playground: vh q <lang> <setup-gql-statements separated by ';;'> <query>...
fn playground(args: &[String]) {
    let db = grafeo_engine::GrafeoDB::new_in_memory();
    let s = db.session();
    let lang = args[0].as_str();
    for st in args[1].split(";;").filter(|x| !x.trim().is_empty()) {
        match s.execute(st) {
            Ok(_) => {}
            Err(e) => println!("setup error: {st}: {e}"),
        }
    }
    for q in &args[2..] {
        let r = match lang {
            "gql" => s.execute(q),
            "cypher" => s.execute_cypher(q),
            "gremlin" => s.execute_gremlin(q),
            "graphql" => s.execute_graphql(q),
            "sparql" => s.execute_sparql(q),
            _ => panic!("lang"),
        };
        match r {
            Ok(r) => {
                println!("{q}\n  columns={:?} rows={}", r.columns, r.row_count());
                for row in r.iter().take(40) {
                    println!("    {row:?}");
                }
            }
            Err(e) => println!("{q}\n  ERR {e}"),
        }
    }
}
