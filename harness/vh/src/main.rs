mod c15;
mod c16;
mod report;
mod rng;
mod util;
mod vals;

use report::Tier;

fn main() {
    let args: Vec<String> = std::env::args().collect();
    if args.len() < 2 {
        eprintln!("usage: vh <property-id> [--tier quick|thorough] [--seed N] [--replay file]");
        std::process::exit(2);
    }
    let id = args[1].to_uppercase();
    if id == "Q" {
        return playground(&args[2..]);
    }
    let mut tier = match std::env::var("VERIF_TIER").as_deref() {
        Ok("thorough") => Tier::Thorough,
        _ => Tier::Quick,
    };
    let mut seed: u64 = std::env::var("VERIF_SEED").ok().and_then(|s| s.parse().ok()).unwrap_or(1);
    let mut i = 2;
    while i < args.len() {
        match args[i].as_str() {
            "--tier" => {
                i += 1;
                tier = if args[i] == "thorough" { Tier::Thorough } else { Tier::Quick };
            }
            "--seed" => {
                i += 1;
                seed = args[i].parse().expect("seed");
            }
            "--replay" => {
                i += 1;
                let s = std::fs::read_to_string(&args[i]).expect("replay file");
                let v: serde_json::Value = serde_json::from_str(&s).expect("replay json");
                seed = v["seed"].as_u64().unwrap_or(seed);
                tier = if v["tier"] == "thorough" { Tier::Thorough } else { Tier::Quick };
                println!("REPLAY signature={} (re-running seed={} tier={})", v["signature"], seed, tier.name());
            }
            other => {
                eprintln!("unknown argument {other}");
                std::process::exit(2);
            }
        }
        i += 1;
    }
    util::install_panic_hook();
    match id.as_str() {
        "C15" => c15::run(tier, seed),
        "C16" => c16::run(tier, seed),
        _ => {
            eprintln!("unknown property {id}");
            std::process::exit(2);
        }
    }
}

/// Playground: vh q <lang> <setup-gql-statements separated by ';;'> <query>...
fn playground(args: &[String]) {
    let db = grafeo_engine::GrafeoDB::new_in_memory();
    let s = db.session();
    let lang = args[0].as_str();
    for st in args[1].split(";;").filter(|x| !x.trim().is_empty()) {
        match s.execute(st) {
            Ok(_) => {}
            Err(e) => println!("setup error: {st}: {e}"),
        }
    }
    for q in &args[2..] {
        let r = match lang {
            "gql" => s.execute(q),
            "cypher" => s.execute_cypher(q),
            "gremlin" => s.execute_gremlin(q),
            "graphql" => s.execute_graphql(q),
            "sparql" => s.execute_sparql(q),
            _ => panic!("lang"),
        };
        match r {
            Ok(r) => {
                println!("{q}\n  columns={:?} rows={}", r.columns, r.row_count());
                for row in r.iter().take(40) {
                    println!("    {row:?}");
                }
            }
            Err(e) => println!("{q}\n  ERR {e}"),
        }
    }
}
