//! C08/C11 shared: renderers of the query AST to GQL, Cypher, Gremlin and GraphQL — each for
//! the subset of the core it can express (None = not expressible in that language).

use super::ast::*;
use super::graph::lit;
use grafeo_common::types::Value;

#[derive(Clone, Copy, Debug, PartialEq, Eq, Hash, PartialOrd, Ord)]
pub enum Lang {
    Gql,
    Cypher,
    Gremlin,
    GraphQL,
}

pub const LANGS: [Lang; 4] = [Lang::Gql, Lang::Cypher, Lang::Gremlin, Lang::GraphQL];

impl Lang {
    pub fn name(self) -> &'static str {
        match self {
            Lang::Gql => "gql",
            Lang::Cypher => "cypher",
            Lang::Gremlin => "gremlin",
            Lang::GraphQL => "graphql",
        }
    }
}

pub struct Rendered {
    pub text: String,
    /// result columns to pick, by name, in AST output order (None = positional)
    pub cols: Option<Vec<String>>,
}

pub fn render(q: &Query, lang: Lang) -> Option<Rendered> {
    match lang {
        Lang::Gql => Some(Rendered { text: text_query(q, false), cols: None }),
        Lang::Cypher => Some(Rendered { text: text_query(q, true), cols: None }),
        Lang::Gremlin => gremlin(q).map(|text| Rendered { text, cols: None }),
        Lang::GraphQL => graphql(q),
    }
}

// ------------------------------------------------------------------ GQL / Cypher

pub fn pattern_text(q: &Query) -> String {
    let mut s = String::new();
    for (i, n) in q.nodes.iter().enumerate() {
        if i > 0 {
            let e = &q.edges[i - 1];
            let mut inner = String::new();
            if e.named {
                inner.push_str(&Var::E(i - 1).name());
            }
            if !e.types.is_empty() {
                inner.push(':');
                inner.push_str(&e.types.join("|"));
            }
            if let Some((lo, hi)) = e.len {
                match hi {
                    Some(hi) if hi == lo => inner.push_str(&format!("*{lo}")),
                    Some(hi) => inner.push_str(&format!("*{lo}..{hi}")),
                    None if lo == 1 => inner.push('*'),
                    None => inner.push_str(&format!("*{lo}..")),
                }
            }
            let body = if inner.is_empty() && e.dir != Dir::Both { "[]".to_string() } else { format!("[{inner}]") };
            s.push_str(&match e.dir {
                Dir::Out => format!("-{body}->"),
                Dir::In => format!("<-{body}-"),
                Dir::Both => format!("-{body}-"),
            });
        }
        s.push('(');
        s.push_str(&Var::N(i).name());
        for l in &n.labels {
            s.push(':');
            s.push_str(l);
        }
        s.push(')');
    }
    s
}

pub fn term_text(t: &Term) -> String {
    match t {
        Term::Prop(v, k) => format!("{}.{k}", v.name()),
        Term::Const(c) => match c {
            Value::Int64(i) if *i < 0 => format!("({i})"),
            Value::Float64(f) if *f < 0.0 => format!("({f:?})"),
            other => lit(other),
        },
        Term::Ar(op, a, b) => {
            let o = match op {
                ArOp::Add => "+",
                ArOp::Sub => "-",
                ArOp::Mul => "*",
            };
            format!("({} {o} {})", term_text(a), term_text(b))
        }
    }
}

pub fn cmp_text(op: CmpOp) -> &'static str {
    match op {
        CmpOp::Eq => "=",
        CmpOp::Ne => "<>",
        CmpOp::Lt => "<",
        CmpOp::Le => "<=",
        CmpOp::Gt => ">",
        CmpOp::Ge => ">=",
    }
}

pub fn pred_text(p: &Pred) -> String {
    match p {
        Pred::Cmp(op, a, b) => format!("{} {} {}", term_text(a), cmp_text(*op), term_text(b)),
        Pred::And(a, b) => format!("({} AND {})", pred_text(a), pred_text(b)),
        Pred::Or(a, b) => format!("({} OR {})", pred_text(a), pred_text(b)),
        Pred::Not(a, true) => format!("NOT {}", pred_text(a)),
        Pred::Not(a, false) => format!("NOT ({})", pred_text(a)),
        Pred::IsNull(t, neg) => format!("{} IS {}NULL", term_text(t), if *neg { "NOT " } else { "" }),
        Pred::PredIsNull(a) => format!("({}) IS NULL", pred_text(a)),
        Pred::In(t, l) => format!("{} IN [{}]", term_text(t), l.iter().map(lit).collect::<Vec<_>>().join(", ")),
        Pred::Str(op, t, s) => {
            let o = match op {
                StrOp::Starts => "STARTS WITH",
                StrOp::Ends => "ENDS WITH",
                StrOp::Contains => "CONTAINS",
            };
            format!("{} {o} '{s}'", term_text(t))
        }
    }
}

pub fn proj_text(p: &Proj) -> String {
    match p {
        Proj::Prop(v, k) => format!("{}.{k}", v.name()),
        Proj::Id(v) => format!("id({})", v.name()),
        Proj::Type(i) => format!("type({})", Var::E(*i).name()),
        Proj::Labels(i) => format!("labels({})", Var::N(*i).name()),
    }
}

pub fn agg_text(a: &Agg) -> String {
    let f = match a.f {
        AggFn::Count => "count",
        AggFn::Sum => "sum",
        AggFn::Min => "min",
        AggFn::Max => "max",
        AggFn::Avg => "avg",
        AggFn::Collect => "collect",
    };
    let arg = match &a.arg {
        AggArg::Star => "*".to_string(),
        AggArg::Var(v) => v.name(),
        AggArg::Prop(v, k) => format!("{}.{k}", v.name()),
    };
    format!("{f}({}{arg})", if a.distinct { "DISTINCT " } else { "" })
}

fn tail_text(q: &Query, order_exprs: &[String]) -> String {
    let mut s = String::new();
    if !q.order.is_empty() {
        s.push_str(" ORDER BY ");
        s.push_str(
            &q.order
                .iter()
                .map(|o| format!("{}{}", order_exprs[o.col], if o.desc { " DESC" } else { "" }))
                .collect::<Vec<_>>()
                .join(", "),
        );
    }
    if let Some(k) = q.skip {
        s.push_str(&format!(" SKIP {k}"));
    }
    if let Some(k) = q.limit {
        s.push_str(&format!(" LIMIT {k}"));
    }
    s
}

/// GQL and Cypher share the text except: Cypher may carry ORDER BY/SKIP/LIMIT in a WITH before
/// RETURN (`q.order_in_with`, plain non-distinct queries only).
pub fn text_query(q: &Query, cypher: bool) -> String {
    let mut s = format!("MATCH {}", pattern_text(q));
    if let Some(p) = &q.pred {
        s.push_str(" WHERE ");
        s.push_str(&pred_text(p));
    }
    match &q.ret {
        Ret::Plain { items, distinct } => {
            let exprs: Vec<String> = items.iter().map(proj_text).collect();
            let has_tail = !q.order.is_empty() || q.skip.is_some() || q.limit.is_some();
            let with_form = cypher && q.order_in_with && !*distinct && has_tail;
            if with_form {
                let vars: Vec<String> = q.used_vars_all().iter().map(|v| v.name()).collect();
                s.push_str(&format!(" WITH {}", vars.join(", ")));
                s.push_str(&tail_text(q, &exprs));
            }
            s.push_str(" RETURN ");
            if *distinct {
                s.push_str("DISTINCT ");
            }
            s.push_str(&exprs.iter().enumerate().map(|(i, e)| format!("{e} AS c{i}")).collect::<Vec<_>>().join(", "));
            if !with_form {
                s.push_str(&tail_text(q, &exprs));
            }
        }
        Ret::Agg { keys, aggs } => {
            let mut cols: Vec<String> = keys.iter().map(proj_text).collect();
            cols.extend(aggs.iter().map(agg_text));
            s.push_str(" RETURN ");
            s.push_str(&cols.iter().enumerate().map(|(i, e)| format!("{e} AS c{i}")).collect::<Vec<_>>().join(", "));
            // aggregate output is ordered through the alias
            let aliases: Vec<String> = (0..cols.len()).map(|i| format!("c{i}")).collect();
            s.push_str(&tail_text(q, &aliases));
        }
    }
    s
}

// ------------------------------------------------------------------ Gremlin

fn gval(v: &Value) -> Option<String> {
    match v {
        Value::Int64(i) => Some(i.to_string()),
        Value::Float64(f) => Some(format!("{f:?}")),
        Value::String(s) => Some(format!("'{}'", s.as_str())),
        Value::Bool(b) => Some(b.to_string()),
        _ => None,
    }
}

pub fn conjuncts<'a>(p: &'a Pred, out: &mut Vec<&'a Pred>) {
    match p {
        Pred::And(a, b) => {
            conjuncts(a, out);
            conjuncts(b, out);
        }
        other => out.push(other),
    }
}

/// (node index, has-step) for a conjunct Gremlin can express
fn gremlin_has(p: &Pred) -> Option<(usize, String)> {
    let node_prop = |t: &Term| -> Option<(usize, String)> {
        match t {
            Term::Prop(Var::N(i), k) => Some((*i, k.clone())),
            _ => None,
        }
    };
    match p {
        Pred::Cmp(op, a, Term::Const(c)) => {
            let (i, k) = node_prop(a)?;
            let c = gval(c)?;
            let s = match op {
                CmpOp::Eq => format!(".has('{k}', {c})"),
                CmpOp::Ne => format!(".has('{k}', neq({c}))"),
                CmpOp::Lt => format!(".has('{k}', lt({c}))"),
                CmpOp::Le => format!(".has('{k}', lte({c}))"),
                CmpOp::Gt => format!(".has('{k}', gt({c}))"),
                CmpOp::Ge => format!(".has('{k}', gte({c}))"),
            };
            Some((i, s))
        }
        Pred::IsNull(t, neg) => {
            let (i, k) = node_prop(t)?;
            Some((i, if *neg { format!(".has('{k}')") } else { format!(".hasNot('{k}')") }))
        }
        Pred::In(t, l) => {
            let (i, k) = node_prop(t)?;
            let vs: Option<Vec<String>> = l.iter().map(gval).collect();
            Some((i, format!(".has('{k}', within({}))", vs?.join(", "))))
        }
        Pred::Not(inner, false) => match &**inner {
            Pred::In(t, l) => {
                let (i, k) = node_prop(t)?;
                let vs: Option<Vec<String>> = l.iter().map(gval).collect();
                Some((i, format!(".has('{k}', without({}))", vs?.join(", "))))
            }
            _ => None,
        },
        Pred::Str(op, t, s) => {
            let (i, k) = node_prop(t)?;
            let f = match op {
                StrOp::Starts => "startingWith",
                StrOp::Ends => "endingWith",
                StrOp::Contains => "containing",
            };
            Some((i, format!(".has('{k}', {f}('{s}'))")))
        }
        _ => None,
    }
}

pub fn gremlin(q: &Query) -> Option<String> {
    let last = q.nodes.len() - 1;
    let mut per_node: Vec<String> = vec![String::new(); q.nodes.len()];
    if let Some(p) = &q.pred {
        let mut cs = Vec::new();
        conjuncts(p, &mut cs);
        for c in cs {
            let (i, s) = gremlin_has(c)?;
            per_node[i].push_str(&s);
        }
    }
    let mut s = String::from("g.V()");
    for (i, n) in q.nodes.iter().enumerate() {
        if i > 0 {
            let e = &q.edges[i - 1];
            if e.len.is_some() || e.named || e.types.len() > 1 {
                return None;
            }
            let step = match e.dir {
                Dir::Out => "out",
                Dir::In => "in",
                Dir::Both => "both",
            };
            let ty = e.types.first().map(|t| format!("'{t}'")).unwrap_or_default();
            s.push_str(&format!(".{step}({ty})"));
        }
        for l in &n.labels {
            s.push_str(&format!(".hasLabel('{l}')"));
        }
        s.push_str(&per_node[i]);
    }
    match &q.ret {
        Ret::Plain { items, distinct } => {
            // ordering on a property of the last element, a single key
            let mut order_step = String::new();
            if !q.order.is_empty() {
                if q.order.len() != 1 {
                    return None;
                }
                match &items[q.order[0].col] {
                    Proj::Prop(Var::N(i), k) if *i == last => {
                        order_step = format!(".order().by('{k}', {})", if q.order[0].desc { "desc" } else { "asc" });
                    }
                    _ => return None,
                }
            }
            // values(k1, k2) is a flat stream of values in Gremlin, not columns: one key only
            let proj = if items.len() == 1 && items.iter().all(|p| matches!(p, Proj::Prop(Var::N(i), _) if *i == last)) {
                let keys: Vec<String> = items
                    .iter()
                    .map(|p| match p {
                        Proj::Prop(_, k) => format!("'{k}'"),
                        _ => unreachable!(),
                    })
                    .collect();
                // values('a','a') would produce two identically named columns: keep keys distinct
                let mut seen = std::collections::BTreeSet::new();
                if !keys.iter().all(|k| seen.insert(k.clone())) {
                    return None;
                }
                format!(".values({})", keys.join(", "))
            } else if items.len() == 1 {
                match &items[0] {
                    Proj::Id(Var::N(i)) if *i == last => ".id()".to_string(),
                    Proj::Labels(i) if *i == last => ".label()".to_string(),
                    _ => return None,
                }
            } else {
                return None;
            };
            s.push_str(&order_step);
            s.push_str(&proj);
            if *distinct {
                s.push_str(".dedup()");
            }
            if let Some(k) = q.skip {
                s.push_str(&format!(".skip({k})"));
            }
            if let Some(k) = q.limit {
                s.push_str(&format!(".limit({k})"));
            }
        }
        Ret::Agg { keys, aggs } => {
            if !keys.is_empty() || aggs.len() != 1 || !q.order.is_empty() || q.skip.is_some() || q.limit.is_some() {
                return None;
            }
            let a = &aggs[0];
            match (&a.f, &a.arg) {
                (AggFn::Count, AggArg::Star) => s.push_str(".count()"),
                (AggFn::Count, AggArg::Var(Var::N(i))) if *i == last => s.push_str(".count()"),
                (f, AggArg::Prop(Var::N(i), k)) if *i == last && *f != AggFn::Count => {
                    s.push_str(&format!(".values('{k}')"));
                    if a.distinct {
                        s.push_str(".dedup()");
                    }
                    s.push_str(match f {
                        AggFn::Sum => ".sum()",
                        AggFn::Min => ".min()",
                        AggFn::Max => ".max()",
                        AggFn::Avg => ".mean()",
                        AggFn::Collect => ".fold()",
                        AggFn::Count => unreachable!(),
                    });
                }
                _ => return None,
            }
        }
    }
    Some(s)
}

// ------------------------------------------------------------------ GraphQL

fn gql_val(v: &Value) -> Option<String> {
    match v {
        Value::Int64(i) => Some(i.to_string()),
        Value::Float64(f) => Some(format!("{f:?}")),
        Value::String(s) => Some(format!("\"{}\"", s.as_str())),
        Value::Bool(b) => Some(b.to_string()),
        _ => None,
    }
}

fn graphql_arg(p: &Pred) -> Option<(usize, String)> {
    let node_prop = |t: &Term| -> Option<(usize, String)> {
        match t {
            Term::Prop(Var::N(i), k) => Some((*i, k.clone())),
            _ => None,
        }
    };
    match p {
        Pred::Cmp(op, a, Term::Const(c)) => {
            let (i, k) = node_prop(a)?;
            let c = gql_val(c)?;
            let suffix = match op {
                CmpOp::Eq => "",
                CmpOp::Ne => "_ne",
                CmpOp::Lt => "_lt",
                CmpOp::Le => "_lte",
                CmpOp::Gt => "_gt",
                CmpOp::Ge => "_gte",
            };
            Some((i, format!("{k}{suffix}: {c}")))
        }
        Pred::In(t, l) => {
            let (i, k) = node_prop(t)?;
            let vs: Option<Vec<String>> = l.iter().map(gql_val).collect();
            Some((i, format!("{k}_in: [{}]", vs?.join(", "))))
        }
        Pred::Str(op, t, s) => {
            let (i, k) = node_prop(t)?;
            let f = match op {
                StrOp::Starts => "_starts_with",
                StrOp::Ends => "_ends_with",
                StrOp::Contains => "_contains",
            };
            Some((i, format!("{k}{f}: \"{s}\"")))
        }
        _ => None,
    }
}

pub fn graphql(q: &Query) -> Option<Rendered> {
    let Ret::Plain { items, distinct: false } = &q.ret else { return None };
    if q.nodes[0].labels.len() != 1 || q.nodes[1..].iter().any(|n| !n.labels.is_empty()) {
        return None;
    }
    for e in &q.edges {
        if e.dir != Dir::Out || e.types.len() != 1 || e.len.is_some() || e.named {
            return None;
        }
    }
    let mut args: Vec<Vec<String>> = vec![Vec::new(); q.nodes.len()];
    if let Some(p) = &q.pred {
        let mut cs = Vec::new();
        conjuncts(p, &mut cs);
        for c in cs {
            let (i, s) = graphql_arg(c)?;
            // one occurrence per argument name (an input object cannot repeat a field)
            let name = s.split(':').next().unwrap().to_string();
            if args[i].iter().any(|x| x.split(':').next().unwrap() == name) {
                return None;
            }
            args[i].push(s);
        }
    }
    // projections: properties of node variables only
    let mut fields: Vec<Vec<String>> = vec![Vec::new(); q.nodes.len()];
    let mut cols = Vec::new();
    for (j, p) in items.iter().enumerate() {
        match p {
            Proj::Prop(Var::N(i), k) => {
                fields[*i].push(format!("c{j}: {k}"));
                let prefix: String = q.edges[..*i].iter().map(|e| format!("{}_", e.types[0])).collect();
                cols.push(format!("{prefix}c{j}"));
            }
            _ => return None,
        }
    }
    // root arguments: filters, orderBy (root properties only), skip/first
    let mut root_args: Vec<String> = Vec::new();
    if !args[0].is_empty() {
        root_args.push(format!("where: {{{}}}", args[0].join(", ")));
    }
    if !q.order.is_empty() {
        let mut ks = Vec::new();
        for o in &q.order {
            match &items[o.col] {
                Proj::Prop(Var::N(0), k) => ks.push(format!("{k}: {}", if o.desc { "DESC" } else { "ASC" })),
                _ => return None,
            }
        }
        root_args.push(format!("orderBy: {{{}}}", ks.join(", ")));
    }
    if let Some(k) = q.skip {
        root_args.push(format!("skip: {k}"));
    }
    if let Some(k) = q.limit {
        root_args.push(format!("first: {k}"));
    }
    // build nested selection from the innermost level outwards
    let last = q.nodes.len() - 1;
    let mut inner = String::new();
    for i in (0..=last).rev() {
        let mut sel: Vec<String> = fields[i].clone();
        if i == last && sel.is_empty() {
            sel.push("zz: uid".to_string());
        }
        if !inner.is_empty() {
            sel.push(inner.clone());
        }
        let body = format!("{{ {} }}", sel.join(" "));
        if i == 0 {
            let a = if root_args.is_empty() { String::new() } else { format!("({})", root_args.join(", ")) };
            inner = format!("{{ {}{a} {body} }}", q.nodes[0].labels[0]);
        } else {
            let a = if args[i].is_empty() { String::new() } else { format!("(where: {{{}}})", args[i].join(", ")) };
            inner = format!("{}{a} {body}", q.edges[i - 1].types[0]);
        }
    }
    Some(Rendered { text: inner, cols: Some(cols) })
}
