//! C04 — Serializable transactions admit only serializable outcomes.
//!
//! Same history machinery as C03 (shared file c03_hist.rs) with record_read and
//! IsolationLevel::Serializable. Two independent oracles over every run:
//!  (i)  per-commit rule from the statement: a Serializable T that also writes must be refused
//!       with a SerializationFailure if an overlapping transaction that committed first wrote
//!       something T read; read-only and non-overlapping transactions are never refused
//!       (second sentence read literally); write-write rule as in C03;
//!  (ii) the direct serialization graph of the committed transactions (ww by commit order, wr
//!       from the last committed writer at T's start, rw from "read, then overwritten by a
//!       transaction that committed after T's start") must be acyclic whenever every transaction
//!       of the history ran Serializable; a cycle is printed as the witness.
//! Every history is run with gc stripped / as generated / after every operation (+ a single gc
//! at every position in the exhaustive and shape families).

#[path = "c03_hist.rs"]
mod hist;

use crate::report::{Report, Tier};
use crate::rng::Rng;
use grafeo_engine::GrafeoDB;
use grafeo_engine::transaction::IsolationLevel;
use hist::{Acc, Lvl, Op, Opts, RandCfg};

const P: &str = "c04";

fn relabel(prog: &[Op], t: u8, l: Lvl) -> Vec<Op> {
    prog.iter()
        .map(|o| match *o {
            Op::Begin(_, _) => Op::Begin(t, l),
            Op::Write(_, e) => Op::Write(t, e),
            Op::Read(_, e) => Op::Read(t, e),
            Op::Commit(_) => Op::Commit(t),
            Op::Abort(_) => Op::Abort(t),
            Op::Gc => Op::Gc,
        })
        .collect()
}

fn permutations(n: usize) -> Vec<Vec<usize>> {
    fn rec(n: usize, cur: &mut Vec<usize>, out: &mut Vec<Vec<usize>>) {
        if cur.len() == n {
            out.push(cur.clone());
            return;
        }
        for i in 0..n {
            if !cur.contains(&i) {
                cur.push(i);
                rec(n, cur, out);
                cur.pop();
            }
        }
    }
    let mut out = Vec::new();
    rec(n, &mut Vec::new(), &mut out);
    out
}

fn level_tuples(n: usize) -> Vec<Vec<Lvl>> {
    let mut out = vec![vec![]];
    for _ in 0..n {
        let mut next = Vec::new();
        for v in &out {
            for l in [Lvl::Rc, Lvl::Si, Lvl::Ser] {
                let mut w = v.clone();
                w.push(l);
                next.push(w);
            }
        }
        out = next;
    }
    out
}

/// Named anomaly shapes: every assignment of the programs to transaction labels, every
/// interleaving (operation level), every combination of levels, three entity maps.
fn shape_matrix(acc: &mut Acc, seed: u64, thin_three: u64) {
    let shapes: Vec<(&'static str, Vec<Vec<Op>>, u8)> = vec![
        ("write_skew", hist::shape_write_skew([Lvl::Ser; 2]), 2),
        ("lost_update", hist::shape_lost_update([Lvl::Ser; 2]), 1),
        ("three_cycle", hist::shape_three_cycle([Lvl::Ser; 3]), 3),
        ("read_only_anomaly", {
            use Op::*;
            vec![
                vec![Begin(0, Lvl::Ser), Read(0, 0), Read(0, 1), Write(0, 0), Commit(0)],
                vec![Begin(1, Lvl::Ser), Read(1, 1), Write(1, 1), Commit(1)],
                vec![Begin(2, Lvl::Ser), Read(2, 0), Read(2, 1), Commit(2)],
            ]
        }, 2),
        ("readonly_vs_writer", {
            use Op::*;
            vec![vec![Begin(0, Lvl::Ser), Read(0, 0), Commit(0)], vec![Begin(1, Lvl::Ser), Write(1, 0), Commit(1)]]
        }, 1),
    ];
    let mut jobs: Vec<(&'static str, Vec<Vec<Op>>, u8, Vec<Lvl>, u64)> = Vec::new();
    for (name, progs, nent) in &shapes {
        let n = progs.len();
        let fam: &'static str = match *name {
            "write_skew" => "shape.write_skew",
            "lost_update" => "shape.lost_update",
            "three_cycle" => "shape.three_cycle",
            "read_only_anomaly" => "shape.read_only_anomaly",
            _ => "shape.readonly_vs_writer",
        };
        for perm in permutations(n) {
            for levels in level_tuples(n) {
                let relabelled: Vec<Vec<Op>> = (0..n).map(|t| relabel(&progs[perm[t]], t as u8, levels[t])).collect();
                let id = jobs.len() as u64;
                jobs.push((fam, relabelled, *nent, levels, id));
            }
        }
    }
    acc.merge(hist::parallel(hist::n_workers(), |w, nw, acc| {
        for (fam, relabelled, nent, levels, id) in jobs.iter().filter(|j| j.4 as usize % nw == w) {
            let n = relabelled.len();
            let all_ser = levels.iter().all(|l| *l == Lvl::Ser);
            let mut case: u64 = 0;
            hist::interleavings(relabelled, &mut |h| {
                case += 1;
                // three-transaction shapes have tens of thousands of interleavings per
                // (assignment, levels): thin the mixed-level ones, keep all-Serializable complete
                if n == 3 && !all_ser && thin_three > 1 {
                    let mut r = Rng::new(seed, "C04.shape.thin", id << 32 | case);
                    if r.below(thin_three as usize) != 0 {
                        return;
                    }
                }
                let o = Opts { emap: (case % hist::N_EMAPS as u64) as usize, abort_on_refusal: case % 4 != 0, poke_finished: false };
                hist::check_history(P, h, o, *nent, all_ser, fam, n == 2, acc);
            });
        }
    }));
    // directed cells: a Serializable transaction whose read was overwritten by an overlapping
    // committer AND whose write target was last written by a transaction that committed before
    // it began (must be refused as serialization failure), with and without a pinning reader
    {
        use Op::*;
        for pin in [false, true] {
            for la in [Lvl::Rc, Lvl::Si, Lvl::Ser] {
                let mut h = Vec::new();
                if pin {
                    h.push(Begin(3, Lvl::Si));
                }
                h.extend([Begin(0, la), Write(0, 0), Commit(0), Begin(1, Lvl::Ser), Read(1, 1), Write(1, 0), Begin(2, la), Write(2, 1), Commit(2), Commit(1)]);
                if pin {
                    h.push(Commit(3));
                }
                for emap in 0..hist::N_EMAPS {
                    hist::check_history(P, &h, Opts { emap, abort_on_refusal: true, poke_finished: false }, 2, false, "directed.rw_overlap_plus_earlier_writer", true, acc);
                }
            }
        }
    }
    // the published order of the read-only anomaly, all level combinations, with gc sweep
    for levels in level_tuples(3) {
        let h = hist::shape_read_only_anomaly([levels[0], levels[1], levels[2]]);
        let all_ser = levels.iter().all(|l| *l == Lvl::Ser);
        for emap in 0..hist::N_EMAPS {
            hist::check_history(P, &h, Opts { emap, abort_on_refusal: true, poke_finished: true }, 2, all_ser, "shape.read_only_anomaly.published_order", true, acc);
        }
    }
}

/// Exhaustive: `ntx` transactions x `nent` entities x per entity {none, r, w, r+w}.
/// `blocks`: accesses of a transaction stay contiguous (begin | accesses | end) — otherwise every
/// operation-level interleaving. Ends: all commit, plus each single transaction aborting.
/// Levels: all Serializable (DSG checked) and one pseudo-random mix per history.
fn exhaustive_rw(seed: u64, ntx: usize, nent: u8, blocks: bool, sweep: bool, keep_one_in: u64, family: &'static str) -> Acc {
    let ncodes = 1usize << (2 * nent);
    let combos = ncodes.pow(ntx as u32) * (ntx + 1);
    hist::parallel(hist::n_workers(), |w, nw, acc| {
        for combo in (0..combos).filter(|c| c % nw == w) {
            let mut c = combo;
            let aborter = c % (ntx + 1); // == ntx: nobody aborts
            c /= ntx + 1;
            let mut progs: Vec<Vec<Op>> = Vec::new();
            for t in 0..ntx {
                progs.push(hist::rw_program(t as u8, Lvl::Ser, nent, (c % ncodes) as u32, t != aborter));
                c /= ncodes;
            }
            let mut idx: u64 = 0;
            let mut buf: Vec<Op> = Vec::new();
            let mut visit = |h: &[Op]| {
                idx += 1;
                let key = (combo as u64) << 24 | idx;
                let mut r = Rng::new(seed, "C04.exh", key);
                if keep_one_in > 1 && r.below(keep_one_in as usize) != 0 {
                    return;
                }
                let emap = r.below(hist::N_EMAPS);
                let abort_on_refusal = r.below(4) != 0;
                // all Serializable
                hist::check_history(P, h, Opts { emap, abort_on_refusal, poke_finished: false }, nent, true, family, sweep, acc);
                // one mix of levels (not all Serializable)
                let mut lv: Vec<Lvl> = (0..ntx).map(|_| Lvl::from_index(r.below(3))).collect();
                if lv.iter().all(|l| *l == Lvl::Ser) {
                    lv[r.below(ntx)] = if r.chance(0.5) { Lvl::Si } else { Lvl::Rc };
                }
                buf.clear();
                buf.extend(h.iter().map(|o| match *o {
                    Op::Begin(t, _) => Op::Begin(t, lv[t as usize]),
                    x => x,
                }));
                hist::check_history(P, &buf, Opts { emap, abort_on_refusal, poke_finished: false }, nent, false, family, sweep, acc);
            };
            if blocks {
                let bp: Vec<Vec<Vec<Op>>> = progs.iter().map(|p| hist::as_blocks(p)).collect();
                hist::interleavings_blocks(&bp, &mut visit);
            } else {
                hist::interleavings(&progs, &mut visit);
            }
        }
    })
}

fn random_rw(seed: u64, n: u64) -> Acc {
    hist::parallel(hist::n_workers(), |w, nw, acc| {
        for case in (0..n).filter(|c| (*c as usize) % nw == w) {
            let mut r = Rng::new(seed, "C04.rand", case);
            let (mut h, ntx, nent, family) = match r.below(5) {
                0 | 1 => {
                    let cfg = RandCfg {
                        ntx: 2 + r.below(5),
                        nent: 1 + r.below(4) as u8,
                        reads: true,
                        p_reader: [0.0, 0.2, 0.4][r.below(3)],
                        p_gc: [0.0, 0.1, 0.3][r.below(3)],
                        level: if r.chance(0.5) { Some(Lvl::Ser) } else { None },
                    };
                    (hist::random_history(&mut r, cfg), cfg.ntx, cfg.nent, "random")
                }
                k => {
                    // a named shape in a random interleaving, then mutated
                    let all_ser = r.chance(0.6);
                    let lv = |r: &mut Rng| if all_ser { Lvl::Ser } else { Lvl::from_index(r.below(3)) };
                    let (progs, nent): (Vec<Vec<Op>>, u8) = match k {
                        2 => (hist::shape_write_skew([lv(&mut r), lv(&mut r)]), 2),
                        3 => (hist::shape_lost_update([lv(&mut r), lv(&mut r)]), 1),
                        _ => {
                            if r.chance(0.5) {
                                (hist::shape_three_cycle([lv(&mut r), lv(&mut r), lv(&mut r)]), 3)
                            } else {
                                (vec![hist::shape_read_only_anomaly([lv(&mut r), lv(&mut r), lv(&mut r)])], 2)
                            }
                        }
                    };
                    // random merge preserving program order
                    let mut at = vec![0usize; progs.len()];
                    let mut h = Vec::new();
                    loop {
                        let live: Vec<usize> = (0..progs.len()).filter(|i| at[*i] < progs[*i].len()).collect();
                        if live.is_empty() {
                            break;
                        }
                        let i = *r.pick(&live);
                        h.push(progs[i][at[i]]);
                        at[i] += 1;
                    }
                    let ntx = 3 + r.below(2);
                    let nent = nent.max(1 + r.below(3) as u8);
                    let rounds = r.below(3);
                    for _ in 0..rounds {
                        hist::mutate(&mut r, &mut h, ntx, nent);
                    }
                    (h, ntx, nent, "shape_mutation")
                }
            };
            if r.chance(0.15) {
                hist::mutate(&mut r, &mut h, ntx, nent);
            }
            let o = Opts { emap: r.below(hist::N_EMAPS), abort_on_refusal: r.chance(0.6), poke_finished: r.chance(0.3) };
            let all_ser = hist::all_serializable(&h);
            hist::check_history(P, &h, o, nent, all_ser, family, false, acc);
            acc.count(if all_ser { "histories.all_serializable" } else { "histories.mixed_levels" }, 1);
        }
    })
}

/// Session level: what is observable of begin_tx_with_isolation through the public API.
fn session_plumbing(rep: &mut Report) {
    let db = GrafeoDB::new_in_memory();
    for level in [IsolationLevel::ReadCommitted, IsolationLevel::SnapshotIsolation, IsolationLevel::Serializable] {
        let mut s = db.session();
        rep.eval();
        let r = s.begin_tx_with_isolation(level);
        if r.is_err() || !s.in_transaction() {
            rep.deviation("c04:session|begin_tx_with_isolation_failed", serde_json::json!({"level": format!("{level:?}"), "result": format!("{r:?}")}));
        }
        // a second begin on the same session must be rejected, whatever the level
        if s.begin_tx_with_isolation(level).is_ok() {
            rep.deviation("c04:session|nested_begin_accepted", serde_json::json!({"level": format!("{level:?}")}));
        }
        if s.commit().is_err() {
            rep.deviation("c04:session|empty_tx_commit_refused", serde_json::json!({"level": format!("{level:?}")}));
        }
        rep.count("session.begin_tx_with_isolation_calls", 1);
    }
    rep.count("session.level_observable_through_public_api", 0);
}

pub fn run(tier: Tier, seed: u64) -> ! {
    let mut rep = Report::new("C04", tier, seed, "exploration");
    rep.rule = "histories of begin(level)/record_read/record_write/commit/abort/gc on TransactionManager, each run with gc stripped / as generated / after every operation (shape and exhaustive families additionally with one gc at every position); oracle (i) per-commit rule, oracle (ii) acyclic DSG for all-Serializable histories. Families: named shapes (write skew, lost update, three-cycle, read-only anomaly, read-only vs writer) in every label assignment x every operation interleaving x every level combination; exhaustive <=3 tx x 2 entities x {none,r,w,rw} per entity (2 tx at operation granularity, 3 tx with each transaction's accesses contiguous), all-commit and each single abort, all-Serializable plus one level mix each; random 2-6 tx x 1-4 entities and mutated shapes. non-trivial = some commit is asked while an overlapping earlier-committed transaction wrote an entity the committer wrote or read".into();

    let mut acc = Acc::default();
    shape_matrix(&mut acc, seed, tier.pick(40, 1));
    acc.merge(exhaustive_rw(seed, 1, 2, false, true, 1, "exhaustive.1tx_2ent_rw"));
    acc.merge(exhaustive_rw(seed, 2, 1, false, true, 1, "exhaustive.2tx_1ent_rw.op_level"));
    acc.merge(exhaustive_rw(seed, 2, 2, true, true, 1, "exhaustive.2tx_2ent_rw.blocks"));
    acc.merge(exhaustive_rw(seed, 3, 1, true, true, 1, "exhaustive.3tx_1ent_rw.blocks"));
    match tier {
        Tier::Quick => {
            acc.merge(exhaustive_rw(seed, 2, 2, false, false, 1, "exhaustive.2tx_2ent_rw.op_level"));
            acc.merge(exhaustive_rw(seed, 3, 2, true, false, 12, "exhaustive.3tx_2ent_rw.blocks.sampled"));
        }
        Tier::Thorough => {
            acc.merge(exhaustive_rw(seed, 2, 2, false, true, 1, "exhaustive.2tx_2ent_rw.op_level"));
            acc.merge(exhaustive_rw(seed, 3, 2, true, true, 1, "exhaustive.3tx_2ent_rw.blocks"));
        }
    }
    acc.merge(random_rw(seed, tier.pick(1_500_000, 12_000_000)));
    acc.into_report(&mut rep);
    session_plumbing(&mut rep);

    rep.assumptions = vec![
        "reads are abstract record_read calls and are taken to observe the snapshot at the transaction's start (what the engine's Serializable level is documented to validate)".into(),
        "the acyclicity demand applies only to histories in which every transaction ran Serializable; the per-commit rule applies to every Serializable transaction in any mix".into(),
        "second sentence of the statement read literally: a read-only transaction is never refused, also when an overlapping committed transaction overwrote what it read".into(),
        "when both a write-write and a read-write reason apply, either error kind is accepted".into(),
        "session level: the TransactionManager behind GrafeoDB/Session is not reachable through the public API and no operator registers reads, so only the call contract of begin_tx_with_isolation is checked; whether the level reaches the manager is NOT observable (counter session.level_observable_through_public_api = 0)".into(),
    ];
    rep.finish()
}
