//! Value pool, random value generator, bit-exact comparison, value classes.

use crate::rng::Rng;
use grafeo_common::types::{PropertyKey, Timestamp, Value};
use std::collections::BTreeMap;
use std::sync::Arc;

/// Bit-exact structural equality (floats by to_bits at every depth).
pub fn bit_eq(a: &Value, b: &Value) -> bool {
    match (a, b) {
        (Value::Null, Value::Null) => true,
        (Value::Bool(x), Value::Bool(y)) => x == y,
        (Value::Int64(x), Value::Int64(y)) => x == y,
        (Value::Float64(x), Value::Float64(y)) => x.to_bits() == y.to_bits(),
        (Value::String(x), Value::String(y)) => x.as_str() == y.as_str(),
        (Value::Bytes(x), Value::Bytes(y)) => x[..] == y[..],
        (Value::Timestamp(x), Value::Timestamp(y)) => x.as_micros() == y.as_micros(),
        (Value::List(x), Value::List(y)) => x.len() == y.len() && x.iter().zip(y.iter()).all(|(p, q)| bit_eq(p, q)),
        (Value::Map(x), Value::Map(y)) => {
            x.len() == y.len()
                && x.iter().zip(y.iter()).all(|((k1, v1), (k2, v2))| k1.as_str() == k2.as_str() && bit_eq(v1, v2))
        }
        (Value::Vector(x), Value::Vector(y)) => {
            x.len() == y.len() && x.iter().zip(y.iter()).all(|(p, q)| p.to_bits() == q.to_bits())
        }
        _ => false,
    }
}

/// Canonical, bit-exact textual key of a value (used as a map key in models).
pub fn key(v: &Value) -> String {
    match v {
        Value::Null => "N".into(),
        Value::Bool(b) => format!("B{}", u8::from(*b)),
        Value::Int64(i) => format!("I{i}"),
        Value::Float64(f) => format!("F{:016x}", f.to_bits()),
        Value::String(s) => format!("S{:?}", s.as_str()),
        Value::Bytes(b) => format!("Y{:?}", &b[..]),
        Value::Timestamp(t) => format!("T{}", t.as_micros()),
        Value::List(l) => format!("L[{}]", l.iter().map(key).collect::<Vec<_>>().join(",")),
        Value::Map(m) => format!(
            "M{{{}}}",
            m.iter().map(|(k, v)| format!("{:?}:{}", k.as_str(), key(v))).collect::<Vec<_>>().join(",")
        ),
        Value::Vector(v) => format!("V[{}]", v.iter().map(|f| format!("{:08x}", f.to_bits())).collect::<Vec<_>>().join(",")),
    }
}

/// Human readable rendering for evidence.
pub fn show(v: &Value) -> String {
    match v {
        Value::Float64(f) => format!("Float64({f:?}/0x{:016x})", f.to_bits()),
        other => format!("{other:?}"),
    }
}

/// Coarse class of a value, used in finding signatures.
pub fn class(v: &Value) -> &'static str {
    const P53: f64 = 9_007_199_254_740_992.0;
    match v {
        Value::Null => "null",
        Value::Bool(_) => "bool",
        Value::Int64(i) => {
            if i.unsigned_abs() > (1u64 << 53) {
                "int:big"
            } else {
                "int"
            }
        }
        Value::Float64(f) => {
            if f.is_nan() {
                "float:nan"
            } else if *f == 0.0 {
                "float:zero"
            } else if f.is_infinite() {
                "float:inf"
            } else if f.abs() >= P53 {
                "float:big"
            } else if f.fract() == 0.0 {
                "float:integral"
            } else {
                "float"
            }
        }
        Value::String(_) => "string",
        Value::Bytes(_) => "bytes",
        Value::Timestamp(_) => "timestamp",
        Value::List(_) => "list",
        Value::Map(_) => "map",
        Value::Vector(_) => "vector",
    }
}

pub fn s(x: &str) -> Value {
    Value::String(x.into())
}
pub fn list(xs: Vec<Value>) -> Value {
    Value::List(Arc::from(xs))
}
pub fn map(xs: Vec<(&str, Value)>) -> Value {
    let mut m = BTreeMap::new();
    for (k, v) in xs {
        m.insert(PropertyKey::new(k), v);
    }
    Value::Map(Arc::new(m))
}
pub fn vector(xs: &[f32]) -> Value {
    Value::Vector(Arc::from(xs))
}

/// Curated pool of "interesting" values.
pub fn pool() -> Vec<Value> {
    let mut p = vec![Value::Null, Value::Bool(false), Value::Bool(true)];
    let p53 = 1i64 << 53;
    for i in [
        0i64, 1, -1, 2, 7, 42, 255, 256, -256, 65535, 65536, i64::from(i32::MAX), i64::from(i32::MIN), p53 - 1, p53,
        p53 + 1, p53 + 2, -p53, -p53 - 1, i64::MAX, i64::MAX - 1, i64::MIN, i64::MIN + 1,
    ] {
        p.push(Value::Int64(i));
    }
    let nan_q = f64::NAN;
    let nan_neg = -f64::NAN;
    let nan_payload = f64::from_bits(0x7ff8_0000_0000_1234);
    let nan_signalling = f64::from_bits(0x7ff0_0000_0000_0001);
    for f in [
        0.0f64,
        -0.0,
        1.0,
        -1.0,
        1.5,
        2.0,
        7.0,
        42.0,
        0.1,
        -0.1,
        f64::MIN_POSITIVE,
        5e-324,
        f64::MAX,
        f64::MIN,
        f64::INFINITY,
        f64::NEG_INFINITY,
        nan_q,
        nan_neg,
        nan_payload,
        nan_signalling,
        p53 as f64 - 1.0,
        p53 as f64,
        p53 as f64 + 2.0,
        -(p53 as f64),
        9.223_372_036_854_775_807e18,
        -9.223_372_036_854_775_808e18,
        1e19,
        1e300,
        f64::EPSILON,
    ] {
        p.push(Value::Float64(f));
    }
    for t in ["", "a", "A", "ab", "b", "é", "日本語", "a\0b", " ", "1", "1.0", "true", "null", "\u{10FFFF}", "x'y\"z\\"] {
        p.push(s(t));
    }
    p.push(s(&"z".repeat(300)));
    for b in [&[][..], &[0u8][..], &[0, 0][..], &[255][..], &[1, 2, 3][..]] {
        p.push(Value::Bytes(Arc::from(b)));
    }
    for t in [0i64, 1, -1, 1_000_000, 1_700_000_000_000_000, i64::MAX, i64::MIN] {
        p.push(Value::Timestamp(Timestamp::from_micros(t)));
    }
    for v in [&[][..], &[0.0f32][..], &[-0.0][..], &[1.0, 2.0, 3.0][..], &[f32::NAN][..], &[f32::INFINITY, -1.0][..], &[1e-40][..]] {
        p.push(vector(v));
    }
    p.push(list(vec![]));
    p.push(list(vec![Value::Null]));
    p.push(list(vec![Value::Int64(1), Value::Float64(1.0)]));
    p.push(list(vec![Value::Float64(0.0)]));
    p.push(list(vec![Value::Float64(-0.0)]));
    p.push(list(vec![Value::Float64(f64::NAN)]));
    p.push(list(vec![s("a"), list(vec![s("b"), list(vec![Value::Int64(3)])])]));
    p.push(list(vec![Value::Int64(1), Value::Int64(2)]));
    p.push(list(vec![Value::Int64(2), Value::Int64(1)]));
    p.push(map(vec![]));
    p.push(map(vec![("a", Value::Int64(1))]));
    p.push(map(vec![("b", Value::Int64(1))]));
    p.push(map(vec![("a", Value::Int64(2))]));
    p.push(map(vec![("a", Value::Float64(f64::NAN)), ("", Value::Null)]));
    p.push(map(vec![("a", map(vec![("b", list(vec![map(vec![("c", vector(&[1.0]))])]))]))]));
    p.push(map(vec![("a", Value::Float64(0.0))]));
    p.push(map(vec![("a", Value::Float64(-0.0))]));
    p
}

/// Random value; `depth` bounds nesting.
pub fn random(r: &mut Rng, depth: u32) -> Value {
    let top = if depth == 0 { 8 } else { 11 };
    match r.below(top) {
        0 => Value::Null,
        1 => Value::Bool(r.chance(0.5)),
        2 => match r.below(4) {
            0 => Value::Int64(r.range(-5, 5)),
            1 => Value::Int64(r.range(-1000, 1000)),
            2 => Value::Int64(r.next_u64() as i64),
            _ => Value::Int64(*r.pick(&[i64::MAX, i64::MIN, 1 << 53, (1 << 53) + 1, 0])),
        },
        3 => match r.below(4) {
            0 => Value::Float64(r.range(-5, 5) as f64),
            1 => Value::Float64((r.f64() - 0.5) * 1000.0),
            2 => Value::Float64(f64::from_bits(r.next_u64())),
            _ => Value::Float64(*r.pick(&[f64::NAN, -0.0, 0.0, f64::INFINITY, f64::NEG_INFINITY, 1e308, 5e-324])),
        },
        4 => s(&random_string(r)),
        5 => {
            let n = r.below(6);
            Value::Bytes(Arc::from((0..n).map(|_| r.next_u64() as u8).collect::<Vec<_>>()))
        }
        6 => Value::Timestamp(Timestamp::from_micros(match r.below(3) {
            0 => r.range(-10, 10),
            1 => r.next_u64() as i64,
            _ => 1_700_000_000_000_000 + r.range(0, 1_000_000),
        })),
        7 => {
            let n = r.below(5);
            Value::Vector(Arc::from(
                (0..n)
                    .map(|_| if r.chance(0.1) { f32::from_bits(r.next_u64() as u32) } else { (r.f64() * 10.0 - 5.0) as f32 })
                    .collect::<Vec<_>>(),
            ))
        }
        8 | 9 => {
            let n = r.below(4);
            list((0..n).map(|_| random(r, depth - 1)).collect())
        }
        _ => {
            let n = r.below(4);
            let mut m = BTreeMap::new();
            for _ in 0..n {
                m.insert(PropertyKey::new(random_string(r)), random(r, depth - 1));
            }
            Value::Map(Arc::new(m))
        }
    }
}

pub fn random_string(r: &mut Rng) -> String {
    let n = r.below(7);
    let alphabet = ['a', 'b', 'c', 'A', 'z', '0', ' ', 'é', 'ß', '日', '\u{1F600}', '\'', '"', '\\', '\n', '\0'];
    (0..n).map(|_| *r.pick(&alphabet)).collect()
}

/// A random "simple" scalar that query languages can write as a literal and compare sanely.
pub fn random_scalar(r: &mut Rng) -> Value {
    match r.below(6) {
        0 => Value::Bool(r.chance(0.5)),
        1 | 2 => Value::Int64(r.range(-3, 12)),
        3 => Value::Float64(r.range(-6, 24) as f64 / 2.0),
        _ => s(*r.pick(&["a", "b", "ab", "abc", "", "B"])),
    }
}
