//! C19 oracles — brute force / by-definition reference computations on tiny multigraphs.
//! Everything here is written from the textbook definitions, independent of the engine code.
//! Numbers are dyadic rationals (k/2), so all sums are exact in f64.

pub const INF: f64 = f64::INFINITY;

/// Plain multigraph with effective (already defaulted) numbers per edge.
#[derive(Clone, Debug)]
pub struct P {
    pub n: usize,
    pub e: Vec<(usize, usize)>,
    pub w: Vec<f64>,
    pub cap: Vec<f64>,
    pub cost: Vec<f64>,
}

pub fn feq(a: f64, b: f64) -> bool {
    if a == b {
        return true;
    }
    if !a.is_finite() || !b.is_finite() {
        return false;
    }
    (a - b).abs() <= 1e-9 * 1f64.max(a.abs()).max(b.abs())
}

fn next_comb(idx: &mut [usize], m: usize) -> bool {
    let k = idx.len();
    let mut i = k;
    while i > 0 {
        i -= 1;
        if idx[i] < m - k + i {
            idx[i] += 1;
            for j in i + 1..k {
                idx[j] = idx[j - 1] + 1;
            }
            return true;
        }
    }
    false
}

impl P {
    /// minimum weight of an edge u->v (INF when there is none)
    pub fn min_edge(&self) -> Vec<Vec<f64>> {
        let mut m = vec![vec![INF; self.n]; self.n];
        for (i, &(u, v)) in self.e.iter().enumerate() {
            if self.w[i] < m[u][v] {
                m[u][v] = self.w[i];
            }
        }
        m
    }

    /// reflexive-transitive closure of the directed edge relation
    pub fn reach(&self) -> Vec<Vec<bool>> {
        let n = self.n;
        let mut r = vec![vec![false; n]; n];
        for i in 0..n {
            r[i][i] = true;
        }
        for &(u, v) in &self.e {
            r[u][v] = true;
        }
        for k in 0..n {
            for i in 0..n {
                if r[i][k] {
                    for j in 0..n {
                        if r[k][j] {
                            r[i][j] = true;
                        }
                    }
                }
            }
        }
        r
    }

    /// does some cycle (incl. self-loop) exist
    pub fn has_cycle(&self) -> bool {
        let r = self.reach();
        self.e.iter().any(|&(u, v)| r[v][u])
    }

    /// hop distances (number of edges), None when unreachable
    pub fn hops(&self) -> Vec<Vec<Option<usize>>> {
        let n = self.n;
        let big = usize::MAX / 4;
        let mut d = vec![vec![big; n]; n];
        for i in 0..n {
            d[i][i] = 0;
        }
        for &(u, v) in &self.e {
            if u != v {
                d[u][v] = 1;
            }
        }
        for k in 0..n {
            for i in 0..n {
                for j in 0..n {
                    let t = d[i][k] + d[k][j];
                    if t < d[i][j] {
                        d[i][j] = t;
                    }
                }
            }
        }
        d.into_iter().map(|r| r.into_iter().map(|x| if x >= big { None } else { Some(x) }).collect()).collect()
    }

    /// own Floyd–Warshall: (distance matrix, some negative cycle exists)
    pub fn fw(&self) -> (Vec<Vec<f64>>, bool) {
        let n = self.n;
        let mut d = self.min_edge();
        for i in 0..n {
            if d[i][i] > 0.0 {
                d[i][i] = 0.0;
            }
        }
        for k in 0..n {
            for i in 0..n {
                if d[i][k] == INF {
                    continue;
                }
                for j in 0..n {
                    if d[k][j] == INF {
                        continue;
                    }
                    let t = d[i][k] + d[k][j];
                    if t < d[i][j] {
                        d[i][j] = t;
                    }
                }
            }
        }
        let neg = (0..n).any(|i| d[i][i] < 0.0);
        (d, neg)
    }

    /// edge-count-bounded dynamic programme from `s`: D[v] = min weight of a walk s->v with at
    /// most n-1 edges; second component: a negative cycle is reachable from s (one more round
    /// still improves something).
    pub fn sssp(&self, s: usize) -> (Vec<f64>, bool) {
        let n = self.n;
        let mut d = vec![INF; n];
        d[s] = 0.0;
        let round = |d: &Vec<f64>| {
            let mut nd = d.clone();
            for (i, &(u, v)) in self.e.iter().enumerate() {
                if d[u] != INF && d[u] + self.w[i] < nd[v] {
                    nd[v] = d[u] + self.w[i];
                }
            }
            nd
        };
        for _ in 0..n.saturating_sub(1) {
            d = round(&d);
        }
        let d2 = round(&d);
        let neg = d2.iter().zip(d.iter()).any(|(a, b)| a < b);
        (d, neg)
    }

    /// component label per node of the underlying undirected graph, optionally without one
    /// node (its label is usize::MAX) and/or without all edges between one unordered pair.
    pub fn weak(&self, skip_node: Option<usize>, skip_pair: Option<(usize, usize)>) -> Vec<usize> {
        let n = self.n;
        let mut lab = vec![usize::MAX; n];
        let mut next = 0;
        for s in 0..n {
            if Some(s) == skip_node || lab[s] != usize::MAX {
                continue;
            }
            lab[s] = next;
            // closure by repeated sweeps (tiny graphs; deliberately naive)
            loop {
                let mut ch = false;
                for &(u, v) in &self.e {
                    if Some(u) == skip_node || Some(v) == skip_node {
                        continue;
                    }
                    if let Some((a, b)) = skip_pair {
                        if (u == a && v == b) || (u == b && v == a) {
                            continue;
                        }
                    }
                    if lab[u] == next && lab[v] == usize::MAX {
                        lab[v] = next;
                        ch = true;
                    } else if lab[v] == next && lab[u] == usize::MAX {
                        lab[u] = next;
                        ch = true;
                    }
                }
                if !ch {
                    break;
                }
            }
            next += 1;
        }
        lab
    }

    pub fn n_weak(&self, skip_node: Option<usize>, skip_pair: Option<(usize, usize)>) -> usize {
        let l = self.weak(skip_node, skip_pair);
        l.iter().filter(|x| **x != usize::MAX).max().map_or(0, |m| m + 1)
    }

    /// unordered pairs u<v with the minimum weight over all edges between them (both directions)
    pub fn pairs_min(&self) -> Vec<(usize, usize, f64)> {
        let n = self.n;
        let mut m = vec![vec![INF; n]; n];
        for (i, &(u, v)) in self.e.iter().enumerate() {
            if u == v {
                continue;
            }
            let (a, b) = (u.min(v), u.max(v));
            if self.w[i] < m[a][b] {
                m[a][b] = self.w[i];
            }
        }
        let mut out = Vec::new();
        for a in 0..n {
            for b in a + 1..n {
                if m[a][b] != INF {
                    out.push((a, b, m[a][b]));
                }
            }
        }
        out
    }

    /// minimum weight of a spanning forest of the underlying undirected multigraph restricted
    /// to the nodes with `inside[v]`. Returns (weight, number of forest edges, enumerated?).
    /// Enumeration of all edge subsets of the right size when that is affordable (the
    /// brute-force definition), own Kruskal otherwise; when both run they must agree.
    pub fn msf(&self, inside: &[bool]) -> (f64, usize, bool) {
        let n = self.n;
        let pairs: Vec<(usize, usize, f64)> =
            self.pairs_min().into_iter().filter(|&(a, b, _)| inside[a] && inside[b]).collect();
        // number of forest edges = nodes - components (within `inside`)
        let mut uf: Vec<usize> = (0..n).collect();
        fn find(uf: &mut Vec<usize>, x: usize) -> usize {
            let mut r = x;
            while uf[r] != r {
                r = uf[r];
            }
            let mut c = x;
            while uf[c] != r {
                let nx = uf[c];
                uf[c] = r;
                c = nx;
            }
            r
        }
        // own Kruskal
        let mut sorted = pairs.clone();
        sorted.sort_by(|x, y| x.2.partial_cmp(&y.2).unwrap());
        let mut kw = 0.0;
        let mut need = 0usize;
        for &(a, b, w) in &sorted {
            let (ra, rb) = (find(&mut uf, a), find(&mut uf, b));
            if ra != rb {
                uf[ra] = rb;
                kw += w;
                need += 1;
            }
        }
        // enumeration
        let m = pairs.len();
        let mut combos: u64 = 1;
        for i in 0..need {
            combos = combos.saturating_mul((m - i) as u64) / (i as u64 + 1);
            if combos > 6000 {
                break;
            }
        }
        if n > 7 || combos > 6000 || m > 30 {
            return (kw, need, false);
        }
        let mut best = INF;
        if need == 0 {
            best = 0.0;
        } else {
            // all subsets of `pairs` with exactly `need` elements that are acyclic
            let mut idx: Vec<usize> = (0..need).collect();
            loop {
                let mut u2: Vec<usize> = (0..n).collect();
                let mut ok = true;
                let mut w = 0.0;
                for &i in &idx {
                    let (a, b, ww) = pairs[i];
                    let (ra, rb) = (find(&mut u2, a), find(&mut u2, b));
                    if ra == rb {
                        ok = false;
                        break;
                    }
                    u2[ra] = rb;
                    w += ww;
                }
                if ok && w < best {
                    best = w;
                }
                if !next_comb(&mut idx, m) {
                    break;
                }
            }
        }
        assert!(feq(best, kw), "harness oracle self-check: enumerated MSF {best} != own Kruskal {kw} on {self:?}");
        (best, need, true)
    }

    /// capacity of the minimum s-t cut by enumerating every node subset containing s but not t
    pub fn min_cut(&self, s: usize, t: usize) -> f64 {
        let n = self.n;
        let others: Vec<usize> = (0..n).filter(|&x| x != s && x != t).collect();
        let mut best = INF;
        for mask in 0u32..(1u32 << others.len()) {
            let mut side = vec![false; n];
            side[s] = true;
            for (k, &x) in others.iter().enumerate() {
                if mask >> k & 1 == 1 {
                    side[x] = true;
                }
            }
            let mut c = 0.0;
            for (i, &(u, v)) in self.e.iter().enumerate() {
                if side[u] && !side[v] {
                    c += self.cap[i];
                }
            }
            if c < best {
                best = c;
            }
        }
        best
    }

    /// own min-cost max-flow on the true multigraph: one arc + one reverse arc per edge,
    /// successive cheapest augmenting paths (edge-list Bellman–Ford). Costs must be >= 0.
    pub fn min_cost_max_flow(&self, s: usize, t: usize) -> (f64, f64) {
        let n = self.n;
        // arcs: (from, to, residual, cost); arc 2i = edge i, arc 2i+1 = its reverse
        let mut arcs: Vec<(usize, usize, f64, f64)> = Vec::new();
        for (i, &(u, v)) in self.e.iter().enumerate() {
            arcs.push((u, v, self.cap[i], self.cost[i]));
            arcs.push((v, u, 0.0, -self.cost[i]));
        }
        let (mut flow, mut cost) = (0.0, 0.0);
        loop {
            let mut d = vec![INF; n];
            let mut pre: Vec<Option<usize>> = vec![None; n];
            d[s] = 0.0;
            for _ in 0..n {
                let mut ch = false;
                for (k, &(u, v, r, c)) in arcs.iter().enumerate() {
                    if r > 0.0 && d[u] != INF && d[u] + c < d[v] {
                        d[v] = d[u] + c;
                        pre[v] = Some(k);
                        ch = true;
                    }
                }
                if !ch {
                    break;
                }
            }
            if d[t] == INF {
                break;
            }
            let mut b = INF;
            let mut v = t;
            while v != s {
                let k = pre[v].unwrap();
                b = b.min(arcs[k].2);
                v = arcs[k].0;
            }
            let mut v = t;
            while v != s {
                let k = pre[v].unwrap();
                arcs[k].2 -= b;
                arcs[k ^ 1].2 += b;
                v = arcs[k].0;
            }
            flow += b;
            cost += b * d[t];
        }
        (flow, cost)
    }

    /// brute force: minimum cost over ALL integral feasible flows of value `value` (valid when
    /// every capacity is an integer: then some optimal flow is integral). None when the
    /// enumeration would be too large.
    pub fn brute_min_cost(&self, s: usize, t: usize, value: f64) -> Option<f64> {
        let idx: Vec<usize> = (0..self.e.len()).filter(|&i| self.e[i].0 != self.e[i].1 && self.cap[i] > 0.0).collect();
        let mut space: u64 = 1;
        for &i in &idx {
            if self.cap[i].fract() != 0.0 {
                return None;
            }
            space = space.saturating_mul(self.cap[i] as u64 + 1);
            if space > 20_000 {
                return None;
            }
        }
        let n = self.n;
        let mut f = vec![0u32; idx.len()];
        let mut best: Option<f64> = None;
        loop {
            let mut net = vec![0.0f64; n];
            let mut c = 0.0;
            for (k, &i) in idx.iter().enumerate() {
                let x = f64::from(f[k]);
                net[self.e[i].0] -= x;
                net[self.e[i].1] += x;
                c += x * self.cost[i];
            }
            let ok = (0..n).all(|v| if v == s { net[v] == -value } else if v == t { net[v] == value } else { net[v] == 0.0 });
            if ok && best.is_none_or(|b| c < b) {
                best = Some(c);
            }
            // odometer
            let mut k = 0;
            loop {
                if k == idx.len() {
                    return best;
                }
                if f64::from(f[k]) < self.cap[idx[k]] {
                    f[k] += 1;
                    break;
                }
                f[k] = 0;
                k += 1;
            }
        }
    }

    /// undirected neighbour multiplicities: m[u][v] = number of edges between u and v (either
    /// direction), m[u][u] = number of self-loops at u
    pub fn und_mult(&self) -> Vec<Vec<usize>> {
        let n = self.n;
        let mut m = vec![vec![0usize; n]; n];
        for &(u, v) in &self.e {
            if u == v {
                m[u][u] += 1;
            } else {
                m[u][v] += 1;
                m[v][u] += 1;
            }
        }
        m
    }

    /// core numbers by definition: core(v) = max k such that v survives when nodes of degree
    /// < k are stripped repeatedly. `collapse`: parallel/antiparallel edges count once;
    /// `loop_w`: what one self-loop adds to the degree of its node (0, 1 or 2).
    pub fn core_numbers(&self, collapse: bool, loop_w: usize) -> Vec<usize> {
        let n = self.n;
        let m = self.und_mult();
        let mut core = vec![0usize; n];
        for k in 1..=(2 * self.e.len() + 1) {
            let mut alive = vec![true; n];
            loop {
                let mut ch = false;
                for v in 0..n {
                    if !alive[v] {
                        continue;
                    }
                    let mut d = 0;
                    for u in 0..n {
                        if !alive[u] || m[v][u] == 0 {
                            continue;
                        }
                        let c = if collapse { 1 } else { m[v][u] };
                        d += if u == v { c * loop_w } else { c };
                    }
                    if d < k {
                        alive[v] = false;
                        ch = true;
                    }
                }
                if !ch {
                    break;
                }
            }
            if !alive.iter().any(|a| *a) {
                break;
            }
            for v in 0..n {
                if alive[v] {
                    core[v] = k;
                }
            }
        }
        core
    }

    /// triangles per node: number of unordered pairs {a,b} of distinct other nodes with v,a,b
    /// pairwise adjacent (direction and multiplicity ignored, self-loops irrelevant)
    pub fn triangles(&self) -> Vec<u64> {
        let n = self.n;
        let m = self.und_mult();
        let mut t = vec![0u64; n];
        for v in 0..n {
            for a in 0..n {
                for b in a + 1..n {
                    if a != v && b != v && m[v][a] > 0 && m[v][b] > 0 && m[a][b] > 0 {
                        t[v] += 1;
                    }
                }
            }
        }
        t
    }

    /// number of distinct neighbours other than the node itself
    pub fn und_degree_simple(&self) -> Vec<usize> {
        let m = self.und_mult();
        (0..self.n).map(|v| (0..self.n).filter(|&u| u != v && m[v][u] > 0).count()).collect()
    }

    /// betweenness by definition: sum over ordered pairs (s,t), s != v != t, of the fraction
    /// of shortest s-t paths through v. `multi`: paths are edge sequences (parallel edges give
    /// distinct paths) or node sequences.
    pub fn betweenness(&self, multi: bool) -> Vec<f64> {
        let n = self.n;
        let h = self.hops();
        let mut a = vec![vec![0f64; n]; n];
        for &(u, v) in &self.e {
            if u != v {
                if multi {
                    a[u][v] += 1.0;
                } else {
                    a[u][v] = 1.0;
                }
            }
        }
        // sigma[s][t] = number of shortest paths, by increasing distance
        let mut sig = vec![vec![0f64; n]; n];
        for s in 0..n {
            sig[s][s] = 1.0;
            for dist in 1..n {
                for t in 0..n {
                    if h[s][t] == Some(dist) {
                        let mut c = 0.0;
                        for u in 0..n {
                            if h[s][u] == Some(dist - 1) && a[u][t] > 0.0 {
                                c += sig[s][u] * a[u][t];
                            }
                        }
                        sig[s][t] = c;
                    }
                }
            }
        }
        let mut b = vec![0f64; n];
        for v in 0..n {
            for s in 0..n {
                for t in 0..n {
                    if s == t || s == v || t == v {
                        continue;
                    }
                    if let (Some(st), Some(sv), Some(vt)) = (h[s][t], h[s][v], h[v][t]) {
                        if sv + vt == st {
                            b[v] += sig[s][v] * sig[v][t] / sig[s][t];
                        }
                    }
                }
            }
        }
        b
    }

    /// (number of other reachable nodes, sum of hop distances to them) per node
    pub fn closeness_parts(&self) -> Vec<(usize, usize)> {
        let h = self.hops();
        (0..self.n)
            .map(|s| {
                let mut r = 0;
                let mut tot = 0;
                for t in 0..self.n {
                    if t != s {
                        if let Some(d) = h[s][t] {
                            r += 1;
                            tot += d;
                        }
                    }
                }
                (r, tot)
            })
            .collect()
    }

    /// one application of the PageRank operator (uniform teleport, dangling mass spread
    /// uniformly) to `p`. `multi`: every parallel edge is a separate link.
    pub fn pagerank_step(&self, p: &[f64], d: f64, multi: bool) -> Vec<f64> {
        let n = self.n;
        let mut a = vec![vec![0f64; n]; n];
        for &(u, v) in &self.e {
            if multi {
                a[u][v] += 1.0;
            } else {
                a[u][v] = 1.0;
            }
        }
        let outd: Vec<f64> = (0..n).map(|u| a[u].iter().sum()).collect();
        let dangling: f64 = (0..n).filter(|&u| outd[u] == 0.0).map(|u| p[u]).sum();
        let mut q = vec![(1.0 - d) / n as f64 + d * dangling / n as f64; n];
        for u in 0..n {
            if outd[u] > 0.0 {
                for v in 0..n {
                    if a[u][v] > 0.0 {
                        q[v] += d * p[u] * a[u][v] / outd[u];
                    }
                }
            }
        }
        q
    }

    /// Newman modularity of a partition of the underlying undirected multigraph (self-loop
    /// contributes 2 to A_vv and to the degree), resolution gamma.
    pub fn modularity(&self, part: &[u64], gamma: f64) -> f64 {
        let n = self.n;
        let m = self.e.len() as f64;
        if m == 0.0 {
            return 0.0;
        }
        let mut a = vec![vec![0f64; n]; n];
        for &(u, v) in &self.e {
            a[u][v] += 1.0;
            a[v][u] += 1.0;
        }
        let k: Vec<f64> = (0..n).map(|u| a[u].iter().sum()).collect();
        let mut q = 0.0;
        for i in 0..n {
            for j in 0..n {
                if part[i] == part[j] {
                    q += a[i][j] - gamma * k[i] * k[j] / (2.0 * m);
                }
            }
        }
        q / (2.0 * m)
    }
}
