//! C08 — read queries return what the pattern semantics defines.
//! Random (graph, query) pairs from the shared core; every query is rendered in each language
//! that can express it, executed on an epoch-0 in-memory database filled through the direct
//! API, and judged against an independent reference evaluation over the Model. Failing pairs
//! are shrunk; the signature is language + mismatch kind + canonical skeleton of the shrunk query.

#[path = "c08_gen.rs"]
pub mod graph;
#[path = "c08_ast.rs"]
pub mod ast;
#[path = "c08_render.rs"]
pub mod render;
#[path = "c08_eval.rs"]
pub mod eval;
#[path = "c08_exec.rs"]
pub mod exec;
#[path = "c08_shrink.rs"]
pub mod shrink;

use crate::report::{Report, Tier};
use crate::rng::{Rng, hash_str};
use ast::*;
use eval::{Rule, Rules, Undecided, eval_rows};
use exec::{Outcome, judge, run as run_query, show_rows};
use graph::{GraphSpec, build};
use render::{LANGS, Lang, render};
use serde_json::json;
use std::collections::BTreeMap;

pub const BIND_CAP: usize = 30_000;

#[derive(Default)]
pub struct CaseOut {
    pub evals: u64,
    pub nontrivial: Option<u64>,
    pub counters: BTreeMap<String, u64>,
    pub deviations: Vec<(String, serde_json::Value)>,
    pub known: Vec<(String, String)>,
    pub sample: Option<serde_json::Value>,
}

impl CaseOut {
    pub fn count(&mut self, k: &str) {
        *self.counters.entry(k.to_string()).or_insert(0) += 1;
    }
}

thread_local! {
    /// rows of the last answered query (for the pairwise cross-language comparison)
    static LAST_ROWS: std::cell::RefCell<Option<Vec<eval::Row>>> = const { std::cell::RefCell::new(None) };
}

#[derive(Debug, Clone)]
pub enum Verdict {
    Agree,
    /// differs from the specification exactly as the open findings' rules predict
    Known(Vec<Rule>),
    /// a rule that cannot be emulated exactly applies: not judged (directed cells decide)
    Tainted(Rule),
    Mismatch(String, String),
    Undecided(String),
    Inexpressible,
}

fn judge_opts(q: &Query, lang: Lang, r: &Rules) -> exec::JudgeOpts {
    let retyped = eval::edge_cols_retyped(q, lang, r, 1).unwrap_or(true);
    let order_on_edge = match &q.ret {
        Ret::Plain { items, .. } => q.order.iter().any(|o| matches!(items[o.col], Proj::Prop(Var::E(_), _))),
        _ => false,
    };
    exec::JudgeOpts { window_first: lang == Lang::Gql && r.on(Rule::GqlWindowFirst), no_order_check: retyped && order_on_edge }
}

/// does the observed result agree with the evaluation under `r`?
fn agrees(m: &crate::model::Model, q: &Query, lang: Lang, r: &Rules, rows: &[eval::Row]) -> Result<Option<exec::Mismatch>, Undecided> {
    let full = eval_rows(m, q, lang, r, BIND_CAP)?;
    if r.on(Rule::NullLostTyped) {
        // vector.rs set_null: in a typed column only the first null survives, later ones read
        // as the column default. Which null comes first depends on the engine's row order, so
        // null and the default are identified in those columns.
        use grafeo_common::types::Value;
        let defaults: Vec<Option<Value>> = match &q.ret {
            Ret::Plain { items, .. } => items.iter().map(|p| if matches!(p, Proj::Type(_)) { Some(crate::vals::s("")) } else { None }).collect(),
            Ret::Agg { keys, aggs } => keys
                .iter()
                .map(|_| None)
                .chain(aggs.iter().map(|a| match a.f {
                    AggFn::Min | AggFn::Max => Some(Value::Int64(0)),
                    AggFn::Avg => Some(Value::Float64(0.0)),
                    _ => None,
                }))
                .collect(),
        };
        if defaults.iter().any(Option::is_some) {
            let sub = |rows: &[eval::Row]| -> Vec<eval::Row> {
                rows.iter().map(|r| r.iter().enumerate().map(|(i, v)| match (&defaults[i], v) {
                    (Some(d), Value::Null) => d.clone(),
                    _ => v.clone(),
                }).collect()).collect()
            };
            let mut o = judge_opts(q, lang, r);
            // a lost null sorts as the default value, the surviving one as null
            if q.order.iter().any(|k| defaults[k.col].is_some()) {
                o.no_order_check = true;
            }
            return Ok(judge(q, &sub(&full), &sub(rows), o));
        }
    }
    Ok(judge(q, &full, rows, judge_opts(q, lang, r)))
}

/// a minimal set of open rules that explains the observation (greedy elimination)
fn attribute(dev: &Rules, ok: &dyn Fn(&Rules) -> bool) -> Vec<Rule> {
    let mut cur = dev.clone();
    for (r, _) in eval::RULE_IDS {
        if cur.on(r) {
            let t = cur.without(r);
            if ok(&t) {
                cur = t;
            }
        }
    }
    eval::RULE_IDS.iter().map(|x| x.0).filter(|r| cur.on(*r)).collect()
}

/// Verdict of one (graph, query, language) observation.
pub fn verdict(b: &graph::Built, q: &Query, lang: Lang, dev: &Rules) -> (Verdict, String) {
    let Some(r) = render(q, lang) else { return (Verdict::Inexpressible, String::new()) };
    verdict_r(b, q, lang, dev, r)
}

/// rows of the last query answered on this thread (C11 reads the engine's answer from here)
pub fn take_last_rows() -> Option<Vec<eval::Row>> {
    LAST_ROWS.with(|l| l.borrow_mut().take())
}

/// same, for a text rendered by the caller (`q` is then the model of what the text asks)
pub fn verdict_r(b: &graph::Built, q: &Query, lang: Lang, dev: &Rules, r: render::Rendered) -> (Verdict, String) {
    let none = Rules::none();
    let spec = eval_rows(&b.model, q, lang, &none, BIND_CAP);
    let tainted = |dev: &Rules| match eval_rows(&b.model, q, lang, dev, BIND_CAP) {
        Err(Undecided::Tainted(r)) => Some(r),
        _ => None,
    };
    match run_query(&b.db, lang, &r, q.ncols()) {
        Outcome::Rows(rows) => {
            LAST_ROWS.with(|l| *l.borrow_mut() = Some(rows.clone()));
            let full = match spec {
                Ok(f) => f,
                Err(u) => return (Verdict::Undecided(format!("{u:?}")), r.text),
            };
            let Some(mm) = judge(q, &full, &rows, exec::JudgeOpts::default()) else { return (Verdict::Agree, r.text) };
            let detail = format!("{}; expected(full) {:?}; got {:?}", mm.note, show_rows(&full, 12), show_rows(&rows, 12));
            if dev.any() {
                match agrees(&b.model, q, lang, dev, &rows) {
                    Ok(None) => {
                        let ok = |rs: &Rules| matches!(agrees(&b.model, q, lang, rs, &rows), Ok(None));
                        return (Verdict::Known(attribute(dev, &ok)), r.text);
                    }
                    Err(Undecided::Tainted(t)) => return (Verdict::Tainted(t), r.text),
                    Err(u) => return (Verdict::Undecided(format!("{u:?}")), r.text),
                    Ok(Some(m2)) => {
                        let d = eval_rows(&b.model, q, lang, dev, BIND_CAP).map(|x| show_rows(&x, 12)).unwrap_or_default();
                        return (Verdict::Mismatch(mm.kind.to_string(), format!("{detail}; with the open findings' rules: {} expected {d:?}", m2.note)), r.text);
                    }
                }
            }
            (Verdict::Mismatch(mm.kind.to_string(), detail), r.text)
        }
        Outcome::Syntax(c) | Outcome::Error(c, _) => {
            for (rule, pat) in eval::expected_errors(q, lang, dev) {
                if c.contains(pat) {
                    return (Verdict::Known(vec![rule]), r.text);
                }
            }
            if let Some(t) = tainted(dev) {
                return (Verdict::Tainted(t), r.text);
            }
            (Verdict::Mismatch(format!("error:{c}"), c), r.text)
        }
        Outcome::Panic(p) => (Verdict::Mismatch(format!("panic@{}", p.site), format!("{} at {}", p.msg, p.at)), r.text),
        Outcome::Shape(s) => {
            if let Some(t) = tainted(dev) {
                return (Verdict::Tainted(t), r.text);
            }
            (Verdict::Mismatch("wrong_columns".to_string(), s), r.text)
        }
    }
}

/// mismatch kinds that may turn into each other while a failing pair is being shrunk
pub fn family(kind: &str) -> String {
    match kind {
        "missing_rows" | "extra_rows" | "wrong_value" | "wrong_order" => "rows".into(),
        k if k.starts_with("error:") && k.contains("syntax error") => "syntax".into(),
        k => k.to_string(),
    }
}

pub fn signature(lang: Lang, kind: &str, q: &Query) -> String {
    format!("{}|{}|{}", lang.name(), kind, skeleton(q, lang == Lang::Cypher))
}

/// Judge one pair in every language; shrink and sign the unexplained failures.
pub fn process(g: &GraphSpec, q: &Query, dev: &Rules, out: &mut CaseOut, stratum: &str) {
    let b = build(g);
    let none = Rules::none();
    let full = match eval_rows(&b.model, q, Lang::Cypher, &none, BIND_CAP) {
        Ok(rows) => rows,
        Err(u) => {
            out.count(&format!("undecided.{}", match u {
                Undecided::TooMany => "too_many_bindings",
                Undecided::Infinite => "unbounded_over_cycle",
                Undecided::MixedMinMax => "minmax_over_mixed_kinds",
                Undecided::Tainted(_) => "tainted",
            }));
            return;
        }
    };
    let nontrivial = (!q.edges.is_empty() || q.pred.is_some()) && !full.is_empty();
    if nontrivial {
        out.nontrivial = Some(hash_str(&format!("{q:?}|{}|{}", g.nodes.len(), g.edges.len())));
    }
    if full.len() > 2048 {
        out.count("reference_rows_over_2048");
    }
    let mut answered: Vec<&'static str> = Vec::new();
    let mut failed: Vec<(Lang, String, String)> = Vec::new();
    let mut answers: Vec<(Lang, Vec<eval::Row>)> = Vec::new();
    for lang in LANGS {
        LAST_ROWS.with(|l| *l.borrow_mut() = None);
        let (v, text) = verdict(&b, q, lang, dev);
        if let Some(rows) = LAST_ROWS.with(|l| l.borrow_mut().take()) {
            answers.push((lang, rows));
        }
        if matches!(v, Verdict::Inexpressible) {
            out.count(&format!("inexpressible.{}", lang.name()));
            continue;
        }
        out.evals += 1;
        out.count(&format!("executed.{}.{stratum}", lang.name()));
        if out.sample.is_none() && nontrivial && lang == Lang::Gql {
            out.sample = Some(json!({"graph": {"nodes": g.nodes.len(), "edges": g.edges.len()}, "gql": text, "reference_rows": full.len()}));
        }
        match v {
            Verdict::Agree => {
                answered.push(lang.name());
                out.count(&format!("agree.{}", lang.name()));
            }
            Verdict::Known(rules) => {
                out.count(&format!("explained_by_open_findings.{}", lang.name()));
                for r in rules {
                    out.known.push((eval::rule_id(r).to_string(), format!("{}: {text}", lang.name())));
                }
            }
            Verdict::Tainted(r) => {
                out.count(&format!("not_judged.tainted_by_{}", eval::rule_id(r)));
            }
            Verdict::Undecided(u) => out.count(&format!("undecided.{}", u.split('(').next().unwrap_or("x"))),
            Verdict::Mismatch(kind, _) => failed.push((lang, kind, text)),
            Verdict::Inexpressible => {}
        }
    }
    // the same question in two languages: direct pairwise comparison (only where the answer is
    // fully determined: no ORDER BY / SKIP / LIMIT). A disagreement is attributed through the
    // reference: at least one side then differs from it and is reported (or explained) above.
    if q.order.is_empty() && q.skip.is_none() && q.limit.is_none() {
        for i in 0..answers.len() {
            for j in i + 1..answers.len() {
                out.count("xlang.pairs_compared");
                if judge(q, &answers[i].1, &answers[j].1, exec::JudgeOpts::default()).is_some() {
                    out.count(&format!("xlang.pairs_disagree.{}_vs_{}", answers[i].0.name(), answers[j].0.name()));
                }
            }
        }
    }
    for (lang, kind, text) in failed {
        out.count(&format!("mismatch.{}", lang.name()));
        let fam = family(&kind);
        let mut fails = |g2: &GraphSpec, q2: &Query| {
            let b2 = build(g2);
            matches!(verdict(&b2, q2, lang, dev).0, Verdict::Mismatch(k, _) if family(&k) == fam)
        };
        let (g2, q2, used) = shrink::shrink(g, q, 200, &mut fails);
        let b2 = build(&g2);
        let (kind2, detail) = match verdict(&b2, &q2, lang, dev).0 {
            Verdict::Mismatch(k, d) => (k, d),
            _ => (kind.clone(), String::new()),
        };
        let sig = signature(lang, &kind2, &q2);
        let shrunk_text = render(&q2, lang).map(|r| r.text).unwrap_or_default();
        out.deviations.push((
            sig,
            json!({
                "language": lang.name(), "kind": kind2, "kind_before_shrinking": kind,
                "original_query": text, "shrunk_query": shrunk_text,
                "shrunk_graph": g2.to_json(), "observed_vs_expected": detail,
                "languages_that_agreed_on_the_original": answered, "shrink_executions": used,
            }),
        ));
    }
}

// ------------------------------------------------------------------ probes

/// Constructs no front end of this engine can express (rejected with Err by all of them):
/// left out of the generator, listed in the assumptions, re-checked on every run.
const PROBES: &[(&str, Lang, &str)] = &[
    ("union_all", Lang::Cypher, "MATCH (n:P) RETURN n.uid AS c0 UNION ALL MATCH (n:Q) RETURN n.uid AS c0"),
    ("union", Lang::Gremlin, "g.V().union(out('R'), out('S')).values('uid')"),
    ("group_by_type", Lang::Gql, "MATCH (a)-[r]->(b) RETURN type(r) AS c0, count(r) AS c1"),
    ("group_by_type", Lang::Cypher, "MATCH (a)-[r]->(b) RETURN type(r) AS c0, count(r) AS c1"),
    ("group_by_labels", Lang::Gql, "MATCH (n) RETURN labels(n) AS c0, count(n) AS c1"),
    ("group_by_labels", Lang::Cypher, "MATCH (n) RETURN labels(n) AS c0, count(n) AS c1"),
    ("group_by_id", Lang::Gql, "MATCH (n) RETURN id(n) AS c0, count(n) AS c1"),
    ("group_by_id", Lang::Cypher, "MATCH (n) RETURN id(n) AS c0, count(n) AS c1"),
    ("arith_in_return", Lang::Gql, "MATCH (n) RETURN n.uid + 1 AS c0"),
    ("arith_in_return", Lang::Cypher, "MATCH (n) RETURN n.uid + 1 AS c0"),
    ("order_by_group_key", Lang::Gql, "MATCH (n) RETURN n.k AS c0, count(n) AS c1 ORDER BY n.k"),
    ("order_by_group_key", Lang::Cypher, "MATCH (n) RETURN n.k AS c0, count(n) AS c1 ORDER BY n.k"),
    ("order_by_function", Lang::Gql, "MATCH (n) RETURN id(n) AS c0 ORDER BY id(n)"),
    ("repeat_times", Lang::Gremlin, "g.V().repeat(out()).times(2).values('uid')"),
    ("select_by", Lang::Gremlin, "g.V().as('a').out().as('b').select('a','b').by('uid')"),
];

fn probes(rep: &mut Report) {
    let mut r = Rng::new(7, "c08.probe", 0);
    let g = graph::random_graph(&mut r, 12, 1.5);
    let b = build(&g);
    for (name, lang, text) in PROBES {
        match exec::execute(&b.db, *lang, text) {
            Ok(Ok(_)) => rep.count(&format!("probe.accepted_now.{name}.{}", lang.name()), 1),
            Ok(Err(_)) => rep.count("probe.still_rejected", 1),
            Err(p) => rep.deviation(&format!("{}|panic@{}|probe:{name}", lang.name(), p.site), json!({"query": text, "panic": p.msg})),
        }
    }
}

// ------------------------------------------------------------------ directed cases

pub fn chain_graph(n: usize) -> GraphSpec {
    use grafeo_common::types::Value;
    let mut g = GraphSpec::default();
    for i in 0..n {
        g.nodes.push(graph::GNode { labels: vec!["P".into()], props: vec![("uid".into(), Value::Int64(i as i64 + 1))] });
    }
    for i in 0..n.saturating_sub(1) {
        g.edges.push(graph::GEdge { src: i, dst: i + 1, ty: "R".into(), props: vec![("uid".into(), Value::Int64(1000 + i as i64))] });
    }
    g
}

pub fn base_query(hops: usize) -> Query {
    Query {
        nodes: (0..=hops).map(|_| NodePat { labels: vec![] }).collect(),
        edges: (0..hops).map(|_| EdgePat { named: false, types: vec![], dir: Dir::Out, len: None }).collect(),
        pred: None,
        ret: Ret::Plain { items: vec![Proj::Prop(Var::N(0), "uid".into()), Proj::Prop(Var::N(hops), "uid".into())], distinct: false },
        order: vec![],
        skip: None,
        limit: None,
        order_in_with: false,
    }
}

/// deterministic cells run on every invocation: constructs the random generator reaches rarely
/// or never (unbounded length over a long acyclic chain, zero-length paths) and the defects the
/// reference model does not emulate (judged here with the tainting rule switched off, so that
/// they are reported under fixed signatures listed in their finding)
fn directed(dev: &Rules) -> Vec<(GraphSpec, Query, Rules)> {
    let mut v = Vec::new();
    let mut q = base_query(1);
    q.edges[0].len = Some((1, None));
    q.edges[0].types = vec!["R".into()];
    v.push((chain_graph(14), q.clone(), dev.clone()));
    v.push((chain_graph(5), q.clone(), dev.clone()));
    let mut q0 = base_query(1);
    q0.edges[0].len = Some((0, Some(1)));
    v.push((chain_graph(3), q0.clone(), dev.clone()));
    q0.edges[0].len = Some((0, Some(2)));
    v.push((chain_graph(4), q0, dev.clone()));
    let mut q2 = base_query(1);
    q2.edges[0].len = Some((2, None));
    v.push((chain_graph(6), q2, dev.clone()));
    // C08-F9: factorized chain with an empty level
    let no9 = dev.without(Rule::FactorizedEmptyLevel);
    let mut a = base_query(2);
    a.ret = Ret::Plain { items: vec![Proj::Prop(Var::N(0), "uid".into())], distinct: false };
    v.push((chain_graph(1), a.clone(), no9.clone()));
    v.push((chain_graph(2), a.clone(), no9.clone()));
    let mut b = a.clone();
    b.ret = Ret::Plain { items: vec![Proj::Prop(Var::N(1), "uid".into())], distinct: false };
    v.push((chain_graph(2), b, no9.clone()));
    let mut b2 = a.clone();
    b2.ret = Ret::Plain { items: vec![Proj::Prop(Var::N(2), "uid".into())], distinct: false };
    v.push((chain_graph(1), b2.clone(), no9.clone()));
    v.push((chain_graph(2), b2.clone(), no9.clone()));
    b2.nodes[0].labels = vec!["P".into()];
    b2.edges[0].types = vec!["R".into()];
    b2.edges[1].types = vec!["R".into()];
    v.push((chain_graph(2), b2, no9.clone()));
    let mut c = a.clone();
    c.ret = Ret::Agg { keys: vec![], aggs: vec![Agg { f: AggFn::Count, arg: AggArg::Var(Var::N(0)), distinct: false }] };
    v.push((chain_graph(2), c, no9.clone()));
    let mut d = base_query(3);
    d.nodes[1].labels = vec!["P".into()];
    d.ret = Ret::Plain { items: vec![Proj::Prop(Var::N(0), "uid".into())], distinct: false };
    v.push((chain_graph(2), d, no9.clone()));
    // C08-F10: GQL applies SKIP/LIMIT before aggregation
    let no10 = dev.without(Rule::GqlWindowFirst);
    let mut e = base_query(0);
    e.ret = Ret::Agg { keys: vec![], aggs: vec![Agg { f: AggFn::Count, arg: AggArg::Var(Var::N(0)), distinct: false }] };
    e.limit = Some(0);
    v.push((chain_graph(3), e.clone(), no10.clone()));
    e.limit = Some(1);
    v.push((chain_graph(3), e.clone(), no10.clone()));
    e.limit = None;
    e.skip = Some(1);
    v.push((chain_graph(3), e, no10.clone()));
    // C08-F27: edge predicate checked against the node zone map of the same key
    let mut f = base_query(1);
    f.ret = Ret::Plain { items: vec![Proj::Prop(Var::N(0), "uid".into())], distinct: false };
    f.pred = Some(Pred::Cmp(CmpOp::Gt, Term::Prop(Var::E(0), "uid".into()), Term::Const(grafeo_common::types::Value::Int64(500))));
    f.fix_names();
    v.push((chain_graph(2), f, dev.clone()));
    // C08-F27 (b): zone map of a mixed-kind column
    let gb = parse_graph("1/Q/k='b';2/P/k=true");
    let mut h = base_query(0);
    h.ret = Ret::Plain { items: vec![Proj::Prop(Var::N(0), "uid".into())], distinct: false };
    h.pred = Some(Pred::Cmp(CmpOp::Ne, Term::Prop(Var::N(0), "k".into()), Term::Const(crate::vals::s("b"))));
    v.push((gb, h, dev.clone()));
    v
}

// ------------------------------------------------------------------ range-pair matrix

/// Exhaustive directed matrix, run on every invocation: every ordered pair of two range
/// comparisons on one property `p` — each of < <= > >= with the property on the left or the
/// literal on the left (`20 > n.p`), first against LO then HI and first against HI then LO —
/// with Int, Float and mixed bounds, directly over an unlabelled and a labelled node scan,
/// below a one-hop expand and on the target of a one-hop expand, in GQL and Cypher. The graph
/// holds values exactly at, just below and just above both bounds, as Int and as Float, plus a
/// string, a stored null and a missing property. Judged like every other case (A_spec, A_dev);
/// an unexplained cell is reported under its own cell signature (no shrinking needed).
fn between_matrix(rep: &mut Report, dev: &Rules) {
    use grafeo_common::types::Value;
    let vals = ["9", "10", "11", "19", "20", "21", "9.5", "10.0", "10.5", "19.5", "20.0", "20.5", "'x'", "null", ""];
    let mut nodes = Vec::new();
    let mut edges = Vec::new();
    let mut uid = 0;
    for lab in ["P", ""] {
        for v in vals {
            uid += 1;
            nodes.push(format!("{uid}/{lab}/{}", if v.is_empty() { String::new() } else { format!("p={v}") }));
        }
    }
    let hub = uid + 1;
    nodes.push(format!("{hub}//"));
    for i in 1..=uid {
        edges.push(format!("{}/{hub}>{i}/R/", 1000 + 2 * i));
        edges.push(format!("{}/{i}>{hub}/R/", 1001 + 2 * i));
    }
    let g = parse_graph(&format!("{}|{}", nodes.join(";"), edges.join(";")));
    let b = build(&g);
    // the 8 spellings of one range comparison: (operator as written, literal on the left?)
    let spellings: Vec<(CmpOp, bool)> = [CmpOp::Lt, CmpOp::Le, CmpOp::Gt, CmpOp::Ge].iter().flat_map(|o| [(*o, false), (*o, true)]).collect();
    let bounds: [(&str, Value, Value); 3] = [
        ("int", Value::Int64(10), Value::Int64(20)),
        ("float", Value::Float64(10.0), Value::Float64(20.0)),
        ("mixed", Value::Int64(10), Value::Float64(20.0)),
    ];
    // (name, hops, labelled scan, variable carrying the predicate)
    let patterns: [(&str, usize, bool, usize); 4] = [("scan", 0, false, 0), ("label_scan", 0, true, 0), ("below_expand", 1, false, 0), ("after_expand", 1, false, 1)];
    let atom = |v: usize, (op, lit_left): (CmpOp, bool), c: &Value| -> Pred {
        let prop = Term::Prop(Var::N(v), "p".into());
        if lit_left { Pred::Cmp(op, Term::Const(c.clone()), prop) } else { Pred::Cmp(op, prop, Term::Const(c.clone())) }
    };
    let name = |(op, lit_left): (CmpOp, bool), which: &str| -> String {
        let o = render::cmp_text(op);
        if lit_left { format!("{which}{o}p") } else { format!("p{o}{which}") }
    };
    for (bk, lo, hi) in &bounds {
        for (pat, hops, labelled, var) in patterns {
            for s1 in &spellings {
                for s2 in &spellings {
                    for lo_first in [true, false] {
                        let (c1, c2, n1, n2) = if lo_first { (lo, hi, "LO", "HI") } else { (hi, lo, "HI", "LO") };
                        let mut q = base_query(hops);
                        if labelled {
                            q.nodes[0].labels = vec!["P".into()];
                        }
                        q.pred = Some(Pred::And(Box::new(atom(var, *s1, c1)), Box::new(atom(var, *s2, c2))));
                        q.ret = Ret::Plain { items: vec![Proj::Prop(Var::N(var), "uid".into())], distinct: false };
                        q.fix_names();
                        let cell = format!("{pat}|{} AND {}|{bk}", name(*s1, n1), name(*s2, n2));
                        for lang in [Lang::Gql, Lang::Cypher] {
                            let (v, text) = verdict(&b, &q, lang, dev);
                            rep.eval();
                            rep.nontrivial(hash_str(&format!("between|{cell}")));
                            match v {
                                Verdict::Agree => rep.count(&format!("between_matrix.agree.{}", lang.name()), 1),
                                Verdict::Known(rules) => {
                                    for r in rules {
                                        rep.count(&format!("between_matrix.explained_by.{}", eval::rule_id(r)), 1);
                                        rep.known_rule(eval::rule_id(r), &format!("cell {cell} {}: {text}", lang.name()));
                                    }
                                }
                                Verdict::Mismatch(kind, detail) => {
                                    rep.deviation(&format!("between|{}|{cell}|{kind}", lang.name()), json!({"query": text, "graph": "two nodes (one :P, one unlabelled) per value of p in 9,10,11,19,20,21,9.5,10.0,10.5,19.5,20.0,20.5,'x',null,missing; hub node linked to and from every node", "observed_vs_expected": detail}));
                                }
                                other => rep.count(&format!("between_matrix.not_judged.{}", format!("{other:?}").split('(').next().unwrap_or("x")), 1),
                            }
                        }
                    }
                }
            }
        }
    }
}

// ------------------------------------------------------------------ zone-boundary matrix

/// Fixed graph for the boundary cells of C08 and C11: `x` is an Int in 1..=5 and `y` a Float in
/// 0.5..=2.5 on every :P node and on as many unlabelled nodes (store-wide min/max = 1/5 and
/// 0.5/2.5); one unlabelled node has neither, one has a string under `x`.
pub fn boundary_graph() -> GraphSpec {
    let mut nodes = Vec::new();
    let mut uid = 0;
    for lab in ["P", ""] {
        for i in 1..=5 {
            uid += 1;
            nodes.push(format!("{uid}/{lab}/x={i},y={:?}", i as f64 * 0.5));
        }
    }
    nodes.push(format!("{}//", uid + 1));
    nodes.push(format!("{}//x='s'", uid + 2));
    parse_graph(&nodes.join(";"))
}

/// (key, literals at: below min, min, just inside, just inside, max, above max)
pub fn boundary_literals() -> Vec<(&'static str, Vec<grafeo_common::types::Value>)> {
    use grafeo_common::types::Value;
    vec![
        ("x", [0, 1, 2, 4, 5, 6].iter().map(|i| Value::Int64(*i)).collect()),
        ("y", [0.0, 0.5, 1.0, 2.0, 2.5, 3.0].iter().map(|f| Value::Float64(*f)).collect()),
    ]
}

/// Directed matrix, run on every invocation: every comparison operator, literal-first and
/// property-first, against literals exactly at, just inside and just outside the store-wide
/// minimum and maximum of the property, over a bare and a labelled node scan, GQL and Cypher
/// (the planner's zone-map pre-check and range path decide on exactly these bounds).
fn zone_boundary_matrix(rep: &mut Report, dev: &Rules) {
    let g = boundary_graph();
    let b = build(&g);
    for (key, lits) in boundary_literals() {
        for c in &lits {
            for op in [CmpOp::Eq, CmpOp::Ne, CmpOp::Lt, CmpOp::Le, CmpOp::Gt, CmpOp::Ge] {
                for lit_left in [true, false] {
                    for labelled in [false, true] {
                        let mut q = base_query(0);
                        if labelled {
                            q.nodes[0].labels = vec!["P".into()];
                        }
                        let prop = Term::Prop(Var::N(0), key.into());
                        q.pred = Some(if lit_left { Pred::Cmp(op, Term::Const(c.clone()), prop) } else { Pred::Cmp(op, prop, Term::Const(c.clone())) });
                        q.ret = Ret::Plain { items: vec![Proj::Prop(Var::N(0), "uid".into())], distinct: false };
                        let cell = format!("{}|{}", if labelled { "label_scan" } else { "scan" }, render::pred_text(q.pred.as_ref().unwrap()).replace("n0.", ""));
                        for lang in [Lang::Gql, Lang::Cypher] {
                            let (v, text) = verdict(&b, &q, lang, dev);
                            rep.eval();
                            rep.nontrivial(hash_str(&format!("zone|{cell}")));
                            match v {
                                Verdict::Agree => rep.count(&format!("zone_boundary_matrix.agree.{}", lang.name()), 1),
                                Verdict::Known(rules) => {
                                    for r in rules {
                                        rep.count(&format!("zone_boundary_matrix.explained_by.{}", eval::rule_id(r)), 1);
                                        rep.known_rule(eval::rule_id(r), &format!("cell {cell} {}: {text}", lang.name()));
                                    }
                                }
                                Verdict::Mismatch(kind, detail) => rep.deviation(
                                    &format!("zone_boundary|{}|{cell}|{kind}", lang.name()),
                                    json!({"query": text, "graph": "x = 1..5 (Int) and y = 0.5..2.5 (Float) on five :P and five unlabelled nodes, one node without both, one with x = 's'", "observed_vs_expected": detail}),
                                ),
                                other => rep.count(&format!("zone_boundary_matrix.not_judged.{}", format!("{other:?}").split('(').next().unwrap_or("x")), 1),
                            }
                        }
                    }
                }
            }
        }
    }
}

// ------------------------------------------------------------------ driver

fn case(seed: u64, i: u64, big: bool, dev: &Rules) -> CaseOut {
    let mut out = CaseOut::default();
    let mut gr = Rng::new(seed, if big { "c08.biggraph" } else { "c08.graph" }, i / 4);
    let g = if big { graph::random_graph(&mut gr, 70, 3.0) } else { graph::random_graph(&mut gr, 40, 1.2) };
    let mut qr = Rng::new(seed, if big { "c08.bigquery" } else { "c08.query" }, i);
    let cfg = if big { GenCfg { max_hops: 2, p_varlen: 0.05, ..GenCfg::default() } } else { GenCfg::default() };
    // three generator modes: the whole core (mostly GQL/Cypher), and the narrower subsets that
    // Gremlin and GraphQL can express (so that those front ends are exercised as well)
    let mut q = match if big { 0 } else { i % 10 } {
        0..=5 => gen_query(&mut qr, &cfg),
        6..=8 => gen_gremlin_query(&mut qr),
        _ => gen_graphql_query(&mut qr),
    };
    // a quarter of the predicates of the full-core mode get literals at the bounds of the
    // graph's actual values and literal-first spellings
    if matches!(if big { 0 } else { i % 10 }, 0..=5) && qr.chance(0.25) {
        if let Some(p) = q.pred.as_mut() {
            sharpen_pred(p, &|k| graph::key_bounds(&g, k), &mut qr);
        }
    }
    process(&g, &q, dev, &mut out, if big { "big" } else { "small" });
    out
}

/// graphs with more than 2048 nodes / edges: scans and expands span several chunks; windows
/// around the chunk boundary
fn huge_case(seed: u64, i: u64, dev: &Rules) -> CaseOut {
    let mut out = CaseOut::default();
    let mut gr = Rng::new(seed, "c08.hugegraph", i / 6);
    let g = graph::huge_graph(&mut gr);
    let mut qr = Rng::new(seed, "c08.hugequery", i);
    let cfg = GenCfg { max_hops: 1, p_varlen: 0.0, p_window: 0.6, p_order: 0.5, ..GenCfg::default() };
    let mut q = match i % 4 {
        0 | 1 => gen_query(&mut qr, &cfg),
        2 => gen_gremlin_query(&mut qr),
        _ => gen_graphql_query(&mut qr),
    };
    if q.edges.len() > 1 {
        q.nodes.truncate(2);
        q.edges.truncate(1);
        if !q.well_formed() || q.pred.as_ref().is_some_and(|p| {
            let mut s = std::collections::BTreeSet::new();
            pred_vars(p, &mut s);
            s.iter().any(|v| matches!(v, Var::N(i) if *i > 1) || matches!(v, Var::E(i) if *i > 0))
        }) {
            q = gen_query(&mut qr, &GenCfg { max_hops: 0, ..GenCfg::default() });
        }
    }
    // windows around the chunk size
    if q.skip.is_some() && qr.chance(0.7) {
        q.skip = Some(*qr.pick(&[0u64, 1, 2047, 2048, 2049, 2100, 4096]));
    }
    if q.limit.is_some() && qr.chance(0.7) {
        q.limit = Some(*qr.pick(&[0u64, 1, 2047, 2048, 2049, 2100, 4096]));
    }
    q.fix_names();
    if q.well_formed() {
        process(&g, &q, dev, &mut out, "huge");
    }
    out
}

pub fn run_parallel<T: Send>(n: u64, threads: usize, f: impl Fn(u64) -> T + Sync) -> Vec<T> {
    let mut all: Vec<(u64, T)> = Vec::new();
    std::thread::scope(|s| {
        let hs: Vec<_> = (0..threads as u64)
            .map(|w| {
                let f = &f;
                s.spawn(move || {
                    let mut v = Vec::new();
                    let mut i = w;
                    while i < n {
                        v.push((i, f(i)));
                        i += threads as u64;
                    }
                    v
                })
            })
            .collect();
        for h in hs {
            all.extend(h.join().expect("worker"));
        }
    });
    all.sort_by_key(|x| x.0);
    all.into_iter().map(|x| x.1).collect()
}

pub fn merge(rep: &mut Report, out: CaseOut) {
    rep.evals(out.evals);
    if let Some(h) = out.nontrivial {
        rep.nontrivial(h);
    }
    for (k, n) in out.counters {
        rep.count(&k, n);
    }
    if let Some(s) = out.sample {
        rep.sample(s);
    }
    for (sig, d) in out.deviations {
        rep.deviation(&sig, d);
    }
    for (id, ex) in out.known {
        rep.known_rule(&id, &ex);
    }
}

pub fn threads() -> usize {
    std::env::var("VH_THREADS").ok().and_then(|s| s.parse().ok()).unwrap_or_else(|| std::thread::available_parallelism().map(|n| n.get()).unwrap_or(8).min(16))
}

/// tiny DSL for hand-made graphs: "uid/labels/props;...|uid/src>dst/TYPE/props;..." e.g.
/// "1/P,Q/k=1,s='a';2//|10/1>2/R/w=2"
pub fn parse_graph(d: &str) -> GraphSpec {
    use grafeo_common::types::Value;
    fn val(s: &str) -> Value {
        let s = s.trim();
        if s == "null" {
            Value::Null
        } else if s == "true" || s == "false" {
            Value::Bool(s == "true")
        } else if let Some(x) = s.strip_prefix('\'') {
            crate::vals::s(x.trim_end_matches('\''))
        } else if s.contains('.') {
            Value::Float64(s.parse().unwrap())
        } else {
            Value::Int64(s.parse().unwrap())
        }
    }
    fn props(uid: &str, s: &str) -> Vec<(String, Value)> {
        let mut v = vec![("uid".to_string(), val(uid))];
        for kv in s.split(',').filter(|x| !x.trim().is_empty()) {
            let (k, x) = kv.split_once('=').unwrap();
            v.push((k.trim().to_string(), val(x)));
        }
        v
    }
    let (ns, es) = d.split_once('|').unwrap_or((d, ""));
    let mut g = GraphSpec::default();
    let mut uids = Vec::new();
    for n in ns.split(';').filter(|x| !x.trim().is_empty()) {
        let p: Vec<&str> = n.split('/').collect();
        uids.push(p[0].trim().to_string());
        g.nodes.push(graph::GNode { labels: p[1].split(',').filter(|x| !x.trim().is_empty()).map(|x| x.trim().to_string()).collect(), props: props(p[0], p.get(2).copied().unwrap_or("")) });
    }
    for e in es.split(';').filter(|x| !x.trim().is_empty()) {
        let p: Vec<&str> = e.split('/').collect();
        let (a, b) = p[1].split_once('>').unwrap();
        let pos = |u: &str| uids.iter().position(|x| x == u.trim()).unwrap();
        g.edges.push(graph::GEdge { src: pos(a), dst: pos(b), ty: p[2].trim().to_string(), props: props(p[0], p.get(3).copied().unwrap_or("")) });
    }
    g
}

fn playground() {
    // C08_PLAY="<lang>;;<graph seed>;;<query>": run one text on a generated epoch-0 graph
    let spec = std::env::var("C08_PLAY").unwrap();
    let parts: Vec<&str> = spec.split(";;").collect();
    let lang = match parts[0] {
        "gql" => Lang::Gql,
        "cypher" => Lang::Cypher,
        "gremlin" => Lang::Gremlin,
        _ => Lang::GraphQL,
    };
    let g = if let Ok(d) = std::env::var("C08_GRAPH") {
        parse_graph(&d)
    } else {
        let mut r = Rng::new(parts[1].parse().unwrap_or(1), "c08.play", 0);
        graph::random_graph(&mut r, 8, 1.2)
    };
    println!("{}", serde_json::to_string_pretty(&g.to_json()).unwrap());
    let b = build(&g);
    for t in &parts[2..] {
        match exec::execute(&b.db, lang, t) {
            Ok(Ok(res)) => {
                println!("{t}\n  columns={:?} rows={}", res.columns, res.rows.len());
                for row in res.rows.iter().take(40) {
                    println!("    {row:?}");
                }
            }
            Ok(Err(e)) => println!("{t}\n  ERR {e}"),
            Err(p) => println!("{t}\n  PANIC {} at {}", p.msg, p.at),
        }
    }
    std::process::exit(0);
}

pub fn assumptions() -> Vec<String> {
    vec![
        "pattern semantics: all bindings (homomorphism): node and edge variables may repeat entities; variable-length patterns enumerate walks (edges may repeat), one row per walk — this is what expand.rs / variable_length_expand.rs implement".into(),
        "undirected pattern -[]-: one binding per (edge, way it connects the two nodes); a self-loop connects its node to itself in one way".into(),
        "WHERE keeps a binding only when the predicate is true under Kleene logic; a missing property and a property stored as null are both null".into(),
        "= / <> between values of different kinds is false / true; < <= > >= between different kinds, and between booleans, is unknown; arithmetic on a non-number is null".into(),
        "freedoms compared modulo: order among ties, placement of nulls in ORDER BY (any of first/last/smallest/largest), order between values of different kinds (not checked), sum of ints may be Int or Float, sum of an empty group is 0, avg/min/max of an empty group is null, order of labels(n) and of collect() lists".into(),
        "sum/avg ignore non-numeric values (A-sum); min/max over values of different kinds is not judged (case skipped)".into(),
        "with SKIP/LIMIT and no total order any n rows of the full result are accepted; with ORDER BY the returned sort keys must equal keys s..s+n of the ordered full result".into(),
        "projection of a missing property is null in every language (Gremlin values() on a missing key: the engine emits null, compared under that convention)".into(),
        "not generated because every front end rejects it with Err (re-checked by probes on each run): UNION ALL in Cypher / union() in Gremlin (GQL accepts the text but ignores the second branch: C11-F28), grouping by type()/labels()/id(), arithmetic in RETURN, ORDER BY a group key in an aggregating RETURN, ORDER BY id()/type()/labels(), Gremlin repeat()/select().by()".into(),
        "Gremlin subset: linear traversal, has()/hasNot()/hasLabel() per vertex (conjunctions of single-property tests), values()/id()/label() of the last vertex, dedup, one order().by(key), skip/limit, one ungrouped aggregate; GraphQL subset: root type = label, nested fields = outgoing typed edges, where-arguments (conjunctions), scalar property selections, orderBy/skip/first on the root".into(),
        "directed range-pair matrix on every run (3072 cells): all ordered pairs of two range comparisons on one property in every spelling, Int/Float/mixed bounds, over a bare and a labelled node scan, below and after a one-hop expand, GQL and Cypher; values at, just below and just above both bounds".into(),
        "directed zone-boundary matrix on every run (576 cells): all six comparison operators, literal-first and property-first, against literals at / just inside / just outside the store-wide min and max of an Int and a Float property, bare and labelled scan, GQL and Cypher; a quarter of the random full-core predicates are re-written with such boundary literals taken from the generated graph and literal-first spellings".into(),
        "limits (DESIGN L): only the generated core — a single path pattern with 0-3 hops; no OPTIONAL MATCH, WITH chains, subqueries, list comprehensions, path functions; epoch-0 data only".into(),
    ]
}

pub fn run(tier: Tier, seed: u64) -> ! {
    if std::env::var("C08_PLAY").is_ok() {
        playground();
    }
    let mut rep = Report::new("C08", tier, seed, "exploration");
    rep.rule = "random (graph 0-40 nodes, query from the core AST) pairs, each executed in every language that can express it and compared with the reference evaluator; non-trivial = query with >=1 edge pattern or >=1 predicate whose reference result has >=1 row; distinct by hash of (query AST, graph size)".into();
    rep.assumptions = assumptions();
    let dev = if std::env::var("C08_NO_RULES").is_ok() { Rules::none() } else { Rules::from_open(|id| rep.findings.rule_open(id)) };
    rep.extra.insert(
        "deviation_rules_on".into(),
        json!(eval::RULE_IDS.iter().filter(|x| dev.on(x.0)).map(|x| format!("{} ({:?})", x.1, x.0)).collect::<Vec<_>>()),
    );
    rep.extra.insert(
        "scheme".into(),
        json!("A_spec = reference evaluation; A_dev = reference evaluation with the named deviation rule of every open finding; obs == A_spec: agree; obs == A_dev != A_spec: KNOWN-FINDING of the minimal explaining rule set; otherwise the pair is shrunk and reported under language|kind|skeleton"),
    );
    probes(&mut rep);
    for (g, q, rules) in directed(&dev) {
        let mut out = CaseOut::default();
        process(&g, &q, &rules, &mut out, "directed");
        merge(&mut rep, out);
    }
    between_matrix(&mut rep, &dev);
    zone_boundary_matrix(&mut rep, &dev);
    let n: u64 = std::env::var("C08_CASES").ok().and_then(|s| s.parse().ok()).unwrap_or(tier.pick(15_000, 150_000));
    let nbig: u64 = tier.pick(24, 2000);
    let th = threads();
    for out in run_parallel(n, th, |i| case(seed, i, false, &dev)) {
        merge(&mut rep, out);
    }
    for out in run_parallel(nbig, th, |i| case(seed, i, true, &dev)) {
        merge(&mut rep, out);
    }
    let nhuge: u64 = std::env::var("C08_HUGE").ok().and_then(|s| s.parse().ok()).unwrap_or(tier.pick(16, 600));
    for out in run_parallel(nhuge, th, |i| huge_case(seed, i, &dev)) {
        merge(&mut rep, out);
    }
    rep.finish()
}
