//! Shared by C09 and C10: random small property graphs (direct API, epoch 0), a tiny query AST
//! with GQL / Cypher renderers, a random query generator, result normalisation and comparison,
//! canonical skeletons, and a cheap delta-debugging reducer for (graph, query) pairs.
#![allow(dead_code)]

use crate::rng::Rng;
use crate::vals;
use grafeo_common::types::{EdgeId, NodeId, Value};
use grafeo_engine::{Config, GrafeoDB};
use std::collections::{BTreeMap, BTreeSet};

pub const LABELS: [&str; 3] = ["L0", "L1", "L2"];
pub const TYPES: [&str; 2] = ["T0", "T1"];
/// node property keys; `k` and `w` also exist on edges
pub const NKEYS: [&str; 5] = ["k", "w", "z", "s", "b"];
pub const EKEYS: [&str; 2] = ["w", "k"];
/// keys that may carry a property index (<= 3)
pub const IDX_KEYS: [&str; 3] = ["k", "w", "z"];

// ------------------------------------------------------------------------------------------
// graphs
// ------------------------------------------------------------------------------------------

#[derive(Clone, Debug)]
pub struct NodeSpec {
    pub labels: Vec<String>,
    pub props: Vec<(String, Value)>,
}
#[derive(Clone, Debug)]
pub struct EdgeSpec {
    pub src: usize,
    pub dst: usize,
    pub ty: String,
    pub props: Vec<(String, Value)>,
}
#[derive(Clone, Debug, Default)]
pub struct GraphSpec {
    pub nodes: Vec<NodeSpec>,
    pub edges: Vec<EdgeSpec>,
}

fn small_num(r: &mut Rng) -> Value {
    match r.below(10) {
        0..=5 => Value::Int64(r.range(0, 3)),
        6 => Value::Float64(r.range(0, 3) as f64),
        7 => Value::Float64(r.range(0, 6) as f64 / 2.0),
        8 => Value::Int64(r.range(-1, 6)),
        _ => Value::Float64(r.range(-1, 5) as f64 + 0.5),
    }
}

fn hetero(r: &mut Rng) -> Value {
    match r.below(14) {
        0..=2 => Value::Int64(r.range(0, 4)),
        3 | 4 => Value::Float64(r.range(0, 8) as f64 / 2.0),
        5 => Value::Float64(f64::NAN),
        6 => Value::Float64(-0.0),
        7 => Value::Float64(0.0),
        8 | 9 => vals::s(*r.pick(&["a", "b", "ab", ""])),
        10 => Value::Bool(r.chance(0.5)),
        11 => Value::Null,
        12 => Value::Int64(0),
        _ => Value::Float64(r.range(0, 4) as f64),
    }
}

pub fn node_prop_value(r: &mut Rng, key: &str) -> Value {
    match key {
        "k" => {
            if r.chance(0.06) {
                Value::Null
            } else {
                small_num(r)
            }
        }
        "w" => match r.below(8) {
            0..=4 => Value::Int64(r.range(0, 9)),
            5 => Value::Float64(r.range(0, 9) as f64),
            6 => Value::Float64(r.range(0, 18) as f64 / 2.0),
            _ => Value::Int64(r.range(0, 3)),
        },
        "z" => hetero(r),
        "s" => vals::s(*r.pick(&["a", "b", "ab", "", "c"])),
        _ => Value::Bool(r.chance(0.5)),
    }
}

pub fn edge_prop_value(r: &mut Rng, key: &str) -> Value {
    match key {
        "w" => match r.below(8) {
            0..=3 => Value::Int64(r.range(0, 12)),
            4 => Value::Float64(r.range(0, 12) as f64),
            5 => Value::Float64(r.range(0, 24) as f64 / 2.0),
            6 => Value::Int64(r.range(7, 12)),
            _ => hetero(r),
        },
        _ => small_num(r),
    }
}

pub fn gen_node(r: &mut Rng, uid: i64) -> NodeSpec {
    let mut labels = Vec::new();
    match r.below(10) {
        0 => {}
        1..=6 => labels.push((*r.pick(&LABELS)).to_string()),
        _ => {
            let a = r.below(3);
            let b = (a + 1 + r.below(2)) % 3;
            labels.push(LABELS[a].to_string());
            labels.push(LABELS[b].to_string());
        }
    }
    let mut props = vec![("uid".to_string(), Value::Int64(uid))];
    let present = [0.9, 0.65, 0.6, 0.7, 0.45];
    for (i, k) in NKEYS.iter().enumerate() {
        if r.chance(present[i]) {
            props.push(((*k).to_string(), node_prop_value(r, k)));
        }
    }
    NodeSpec { labels, props }
}

pub fn gen_edge(r: &mut Rng, n: usize, uid: i64) -> EdgeSpec {
    let src = r.below(n);
    let dst = if r.chance(0.12) { src } else { r.below(n) };
    let mut props = vec![("uid".to_string(), Value::Int64(uid))];
    if r.chance(0.75) {
        props.push(("w".to_string(), edge_prop_value(r, "w")));
    }
    if r.chance(0.4) {
        props.push(("k".to_string(), edge_prop_value(r, "k")));
    }
    EdgeSpec { src, dst, ty: (*r.pick(&TYPES)).to_string(), props }
}

pub fn gen_graph(r: &mut Rng, max_nodes: usize, max_edges: usize) -> GraphSpec {
    let n = 2 + r.below(max_nodes.max(3) - 1);
    let mut g = GraphSpec::default();
    for i in 0..n {
        g.nodes.push(gen_node(r, i as i64));
    }
    let m = r.below(max_edges + 1);
    for j in 0..m {
        let mut e = gen_edge(r, n, 100 + j as i64);
        // parallel edges: sometimes copy the endpoints of an earlier edge
        if j > 0 && r.chance(0.15) {
            let p = r.below(j);
            e.src = g.edges[p].src;
            e.dst = g.edges[p].dst;
        }
        g.edges.push(e);
    }
    g
}

pub fn config(factorized: bool) -> Config {
    if factorized { Config::in_memory() } else { Config::in_memory().without_factorized_execution() }
}

pub struct Built {
    pub db: GrafeoDB,
    pub nodes: Vec<NodeId>,
    pub edges: Vec<EdgeId>,
}

/// Load `g` through the direct API (epoch 0). Node / edge ids are assigned in spec order.
pub fn build_into(db: &GrafeoDB, g: &GraphSpec) -> (Vec<NodeId>, Vec<EdgeId>) {
    let mut nodes = Vec::with_capacity(g.nodes.len());
    for n in &g.nodes {
        let labels: Vec<&str> = n.labels.iter().map(|s| s.as_str()).collect();
        let id = db.create_node_with_props(&labels, n.props.iter().map(|(k, v)| (k.as_str(), v.clone())));
        nodes.push(id);
    }
    let mut edges = Vec::with_capacity(g.edges.len());
    for e in &g.edges {
        let id = db.create_edge_with_props(nodes[e.src], nodes[e.dst], &e.ty, e.props.iter().map(|(k, v)| (k.as_str(), v.clone())));
        edges.push(id);
    }
    (nodes, edges)
}

pub fn build(g: &GraphSpec, factorized: bool) -> Built {
    let db = GrafeoDB::with_config(config(factorized)).expect("in-memory db");
    let (nodes, edges) = build_into(&db, g);
    Built { db, nodes, edges }
}

/// bit-exact digest of the whole graph as the direct API shows it (used to compare the
/// effect of read-write statements)
pub fn digest(db: &GrafeoDB) -> u64 {
    let mut lines: Vec<String> = Vec::new();
    for n in db.iter_nodes() {
        let mut labels: Vec<String> = n.labels.iter().map(|l| l.to_string()).collect();
        labels.sort();
        let mut props: Vec<String> = n.properties.iter().map(|(k, v)| format!("{}={}", k.as_str(), vals::key(v))).collect();
        props.sort();
        lines.push(format!("N{}|{}|{}", n.id.as_u64(), labels.join(","), props.join(",")));
    }
    for e in db.iter_edges() {
        let mut props: Vec<String> = e.properties.iter().map(|(k, v)| format!("{}={}", k.as_str(), vals::key(v))).collect();
        props.sort();
        lines.push(format!("E{}|{}>{}|{}|{}", e.id.as_u64(), e.src.as_u64(), e.dst.as_u64(), e.edge_type, props.join(",")));
    }
    lines.sort();
    crate::rng::hash_str(&lines.join("\n"))
}

pub fn graph_json(g: &GraphSpec) -> serde_json::Value {
    let nodes: Vec<String> = g
        .nodes
        .iter()
        .enumerate()
        .map(|(i, n)| {
            format!(
                "#{i} :{} {{{}}}",
                n.labels.join(":"),
                n.props.iter().map(|(k, v)| format!("{k}: {}", lit_text(v))).collect::<Vec<_>>().join(", ")
            )
        })
        .collect();
    let edges: Vec<String> = g
        .edges
        .iter()
        .map(|e| {
            format!(
                "#{}-[:{} {{{}}}]->#{}",
                e.src,
                e.ty,
                e.props.iter().map(|(k, v)| format!("{k}: {}", lit_text(v))).collect::<Vec<_>>().join(", "),
                e.dst
            )
        })
        .collect();
    serde_json::json!({"nodes": nodes, "edges": edges})
}

// ------------------------------------------------------------------------------------------
// query AST
// ------------------------------------------------------------------------------------------

#[derive(Clone, Copy, Debug, PartialEq, Eq)]
pub enum Lang {
    Gql,
    Cypher,
}
impl Lang {
    pub fn name(self) -> &'static str {
        match self {
            Lang::Gql => "gql",
            Lang::Cypher => "cypher",
        }
    }
}

#[derive(Clone, Copy, Debug, PartialEq, Eq)]
pub enum Dir {
    Out,
    In,
    Both,
}

#[derive(Clone, Debug)]
pub struct NodePat {
    pub var: String,
    pub label: Option<String>,
    pub props: Vec<(String, Value)>,
}
#[derive(Clone, Debug)]
pub struct EdgePat {
    pub var: Option<String>,
    pub ty: Option<String>,
    pub dir: Dir,
    pub props: Vec<(String, Value)>,
    /// variable-length: (min, max)
    pub hops: Option<(u32, u32)>,
}
#[derive(Clone, Debug)]
pub struct PathPat {
    pub start: NodePat,
    pub steps: Vec<(EdgePat, NodePat)>,
}
#[derive(Clone, Debug)]
pub struct MatchClause {
    pub optional: bool,
    pub paths: Vec<PathPat>,
}

#[derive(Clone, Copy, Debug, PartialEq, Eq)]
pub enum Cmp {
    Eq,
    Ne,
    Lt,
    Le,
    Gt,
    Ge,
}
impl Cmp {
    pub fn text(self) -> &'static str {
        match self {
            Cmp::Eq => "=",
            Cmp::Ne => "<>",
            Cmp::Lt => "<",
            Cmp::Le => "<=",
            Cmp::Gt => ">",
            Cmp::Ge => ">=",
        }
    }
    pub fn name(self) -> &'static str {
        match self {
            Cmp::Eq => "eq",
            Cmp::Ne => "ne",
            Cmp::Lt => "lt",
            Cmp::Le => "le",
            Cmp::Gt => "gt",
            Cmp::Ge => "ge",
        }
    }
}

#[derive(Clone, Debug)]
pub enum Expr {
    Prop(String, String),
    Var(String),
    Lit(Value),
}

#[derive(Clone, Debug)]
pub enum Pred {
    Cmp(Expr, Cmp, Expr),
    And(Box<Pred>, Box<Pred>),
    Or(Box<Pred>, Box<Pred>),
    Not(Box<Pred>),
    IsNull(Expr, bool),
    In(Expr, Vec<Value>),
}

#[derive(Clone, Copy, Debug, PartialEq, Eq)]
pub enum Agg {
    Count,
    CountStar,
    Sum,
    Min,
    Max,
    Avg,
    Collect,
}
impl Agg {
    pub fn name(self) -> &'static str {
        match self {
            Agg::Count => "count",
            Agg::CountStar => "count*",
            Agg::Sum => "sum",
            Agg::Min => "min",
            Agg::Max => "max",
            Agg::Avg => "avg",
            Agg::Collect => "collect",
        }
    }
}

#[derive(Clone, Debug)]
pub struct RetItem {
    pub agg: Option<Agg>,
    pub expr: Expr,
    pub alias: String,
}

#[derive(Clone, Debug)]
pub struct With {
    /// (expression, alias); a bare variable is passed through under its own name
    pub items: Vec<(Expr, String)>,
    pub distinct: bool,
    pub filter: Option<Pred>,
}

#[derive(Clone, Debug)]
pub enum Mutation {
    /// SET v.key = literal
    Set(String, String, Value),
    /// DETACH DELETE v
    Delete(String),
    /// CREATE (v)-[:T]->(:L {uid: 999})
    CreateFrom(String),
}

#[derive(Clone, Debug)]
pub struct Query {
    pub lang: Lang,
    pub matches: Vec<MatchClause>,
    pub unwind: Option<(Vec<Value>, String)>,
    pub filter: Option<Pred>,
    pub mutation: Option<Mutation>,
    pub with: Option<With>,
    pub ret: Vec<RetItem>,
    /// (expression, ascending)
    pub order: Vec<(Expr, bool)>,
    pub skip: Option<u32>,
    pub limit: Option<u32>,
    /// the ORDER BY keys identify every row uniquely (sequence comparison is meaningful)
    pub total_order: bool,
}

pub fn lit_text(v: &Value) -> String {
    match v {
        Value::Null => "null".into(),
        Value::Bool(b) => b.to_string(),
        Value::Int64(i) => i.to_string(),
        Value::Float64(f) => {
            if f.is_nan() {
                "NaN".into()
            } else {
                format!("{f:?}")
            }
        }
        Value::String(s) => format!("'{}'", s.as_str()),
        Value::List(l) => format!("[{}]", l.iter().map(lit_text).collect::<Vec<_>>().join(", ")),
        other => format!("{other:?}"),
    }
}

/// literal type name used in skeletons and matrix cells
pub fn lit_type(v: &Value) -> &'static str {
    match v {
        Value::Null => "null",
        Value::Bool(_) => "Bool",
        Value::Int64(_) => "Int",
        Value::Float64(f) => {
            if f.is_nan() {
                "NaN"
            } else if f.fract() == 0.0 {
                "FloatIntegral"
            } else {
                "Float"
            }
        }
        Value::String(_) => "String",
        Value::List(_) => "List",
        _ => "other",
    }
}

impl Expr {
    pub fn text(&self) -> String {
        match self {
            Expr::Prop(v, k) => format!("{v}.{k}"),
            Expr::Var(v) => v.clone(),
            Expr::Lit(v) => lit_text(v),
        }
    }
    pub fn vars(&self, out: &mut BTreeSet<String>) {
        match self {
            Expr::Prop(v, _) | Expr::Var(v) => {
                out.insert(v.clone());
            }
            Expr::Lit(_) => {}
        }
    }
    fn rename(&mut self, f: &dyn Fn(&str) -> String) {
        match self {
            Expr::Prop(v, _) | Expr::Var(v) => *v = f(v),
            Expr::Lit(_) => {}
        }
    }
    fn skel(&self) -> String {
        match self {
            Expr::Prop(v, _) => format!("{v}.P"),
            Expr::Var(v) => v.clone(),
            Expr::Lit(v) => lit_type(v).to_string(),
        }
    }
}

impl Pred {
    pub fn text(&self) -> String {
        match self {
            Pred::Cmp(a, op, b) => format!("{} {} {}", a.text(), op.text(), b.text()),
            Pred::And(a, b) => format!("({} AND {})", a.text(), b.text()),
            Pred::Or(a, b) => format!("({} OR {})", a.text(), b.text()),
            Pred::Not(a) => format!("NOT ({})", a.text()),
            Pred::IsNull(e, true) => format!("{} IS NULL", e.text()),
            Pred::IsNull(e, false) => format!("{} IS NOT NULL", e.text()),
            Pred::In(e, l) => format!("{} IN [{}]", e.text(), l.iter().map(lit_text).collect::<Vec<_>>().join(", ")),
        }
    }
    /// top level without the outer parentheses
    pub fn top_text(&self) -> String {
        match self {
            Pred::And(a, b) => format!("{} AND {}", a.text(), b.text()),
            Pred::Or(a, b) => format!("{} OR {}", a.text(), b.text()),
            other => other.text(),
        }
    }
    pub fn vars(&self, out: &mut BTreeSet<String>) {
        match self {
            Pred::Cmp(a, _, b) => {
                a.vars(out);
                b.vars(out);
            }
            Pred::And(a, b) | Pred::Or(a, b) => {
                a.vars(out);
                b.vars(out);
            }
            Pred::Not(a) => a.vars(out),
            Pred::IsNull(e, _) | Pred::In(e, _) => e.vars(out),
        }
    }
    fn rename(&mut self, f: &dyn Fn(&str) -> String) {
        match self {
            Pred::Cmp(a, _, b) => {
                a.rename(f);
                b.rename(f);
            }
            Pred::And(a, b) | Pred::Or(a, b) => {
                a.rename(f);
                b.rename(f);
            }
            Pred::Not(a) => a.rename(f),
            Pred::IsNull(e, _) | Pred::In(e, _) => e.rename(f),
        }
    }
    fn skel(&self) -> String {
        match self {
            Pred::Cmp(a, op, b) => format!("{} {} {}", a.skel(), op.text(), b.skel()),
            Pred::And(a, b) => format!("({} AND {})", a.skel(), b.skel()),
            Pred::Or(a, b) => format!("({} OR {})", a.skel(), b.skel()),
            Pred::Not(a) => format!("NOT ({})", a.skel()),
            Pred::IsNull(e, true) => format!("{} IS NULL", e.skel()),
            Pred::IsNull(e, false) => format!("{} IS NOT NULL", e.skel()),
            Pred::In(e, l) => {
                let t: BTreeSet<&str> = l.iter().map(lit_type).collect();
                format!("{} IN [{}]", e.skel(), t.into_iter().collect::<Vec<_>>().join(","))
            }
        }
    }
    /// replace variables by expressions (aliases of a dropped WITH); None when a property of
    /// a substituted non-variable would be needed
    pub fn subst(&self, f: &dyn Fn(&str) -> Option<Expr>) -> Option<Pred> {
        let se = |e: &Expr| -> Option<Expr> {
            match e {
                Expr::Var(v) => Some(f(v).unwrap_or_else(|| e.clone())),
                Expr::Prop(v, k) => match f(v) {
                    None => Some(e.clone()),
                    Some(Expr::Var(v2)) => Some(Expr::Prop(v2, k.clone())),
                    Some(_) => None,
                },
                Expr::Lit(_) => Some(e.clone()),
            }
        };
        Some(match self {
            Pred::Cmp(a, op, b) => Pred::Cmp(se(a)?, *op, se(b)?),
            Pred::And(a, b) => Pred::And(Box::new(a.subst(f)?), Box::new(b.subst(f)?)),
            Pred::Or(a, b) => Pred::Or(Box::new(a.subst(f)?), Box::new(b.subst(f)?)),
            Pred::Not(a) => Pred::Not(Box::new(a.subst(f)?)),
            Pred::IsNull(e, n) => Pred::IsNull(se(e)?, *n),
            Pred::In(e, l) => Pred::In(se(e)?, l.clone()),
        })
    }

    /// immediate sub-predicates a reducer may put in this predicate's place
    pub fn children(&self) -> Vec<Pred> {
        match self {
            Pred::And(a, b) | Pred::Or(a, b) => vec![(**a).clone(), (**b).clone()],
            Pred::Not(a) => vec![(**a).clone()],
            _ => vec![],
        }
    }
}

fn props_text(props: &[(String, Value)]) -> String {
    if props.is_empty() {
        String::new()
    } else {
        format!(" {{{}}}", props.iter().map(|(k, v)| format!("{k}: {}", lit_text(v))).collect::<Vec<_>>().join(", "))
    }
}
fn props_skel(props: &[(String, Value)]) -> String {
    if props.is_empty() {
        String::new()
    } else {
        format!(" {{{}}}", props.iter().map(|(_, v)| format!("P: {}", lit_type(v))).collect::<Vec<_>>().join(", "))
    }
}

impl NodePat {
    fn text(&self) -> String {
        format!("({}{}{})", self.var, self.label.as_ref().map(|l| format!(":{l}")).unwrap_or_default(), props_text(&self.props))
    }
    fn skel(&self) -> String {
        format!("({}{}{})", self.var, if self.label.is_some() { ":L" } else { "" }, props_skel(&self.props))
    }
}
impl EdgePat {
    fn inner(&self, skel: bool) -> String {
        let mut s = String::new();
        if let Some(v) = &self.var {
            s.push_str(v);
        }
        if let Some(t) = &self.ty {
            s.push(':');
            s.push_str(if skel { "T" } else { t });
        }
        if let Some((a, b)) = self.hops {
            if skel {
                s.push_str("*m..n");
            } else {
                s.push_str(&format!("*{a}..{b}"));
            }
        }
        s.push_str(&if skel { props_skel(&self.props) } else { props_text(&self.props) });
        s
    }
    fn render(&self, skel: bool) -> String {
        let i = self.inner(skel);
        let mid = format!("[{i}]");
        match self.dir {
            Dir::Out => format!("-{mid}->"),
            Dir::In => format!("<-{mid}-"),
            Dir::Both => format!("-{mid}-"),
        }
    }
}
impl PathPat {
    fn render(&self, skel: bool) -> String {
        let mut s = if skel { self.start.skel() } else { self.start.text() };
        for (e, n) in &self.steps {
            s.push_str(&e.render(skel));
            s.push_str(&if skel { n.skel() } else { n.text() });
        }
        s
    }
    pub fn node_vars(&self) -> Vec<String> {
        let mut v = vec![self.start.var.clone()];
        v.extend(self.steps.iter().map(|(_, n)| n.var.clone()));
        v
    }
    pub fn edge_vars(&self) -> Vec<String> {
        self.steps.iter().filter(|(e, _)| e.hops.is_none()).filter_map(|(e, _)| e.var.clone()).collect()
    }
}

impl RetItem {
    fn text(&self) -> String {
        let e = match self.agg {
            None => self.expr.text(),
            Some(Agg::CountStar) => "count(*)".to_string(),
            Some(a) => format!("{}({})", a.name(), self.expr.text()),
        };
        format!("{e} AS {}", self.alias)
    }
    fn skel(&self) -> String {
        match self.agg {
            None => match &self.expr {
                Expr::Prop(..) => "prop".into(),
                Expr::Var(_) => "var".into(),
                Expr::Lit(_) => "lit".into(),
            },
            Some(a) => format!(
                "{}({})",
                a.name(),
                match &self.expr {
                    Expr::Prop(..) => "prop",
                    Expr::Var(_) => "var",
                    Expr::Lit(_) => "lit",
                }
            ),
        }
    }
}

impl Query {
    pub fn empty(lang: Lang) -> Query {
        Query { lang, matches: vec![], unwind: None, filter: None, mutation: None, with: None, ret: vec![], order: vec![], skip: None, limit: None, total_order: false }
    }

    pub fn has_agg(&self) -> bool {
        self.ret.iter().any(|r| r.agg.is_some())
    }

    /// sequence comparison is meaningful
    pub fn ordered(&self) -> bool {
        !self.order.is_empty() && self.total_order
    }

    fn unwind_text(&self, skel: bool) -> String {
        match &self.unwind {
            Some((list, v)) => {
                if skel {
                    let t: BTreeSet<&str> = list.iter().map(lit_type).collect();
                    format!("UNWIND [{}] AS {v} ", t.into_iter().collect::<Vec<_>>().join(","))
                } else {
                    format!("UNWIND [{}] AS {v} ", list.iter().map(lit_text).collect::<Vec<_>>().join(", "))
                }
            }
            None => String::new(),
        }
    }

    fn order_text(&self, skel: bool) -> String {
        let mut s = String::new();
        if !self.order.is_empty() {
            if skel {
                s.push_str(if self.total_order { " ORDER BY total" } else { " ORDER BY partial" });
            } else {
                s.push_str(" ORDER BY ");
                s.push_str(&self.order.iter().map(|(e, asc)| format!("{}{}", e.text(), if *asc { "" } else { " DESC" })).collect::<Vec<_>>().join(", "));
            }
        }
        if let Some(n) = self.skip {
            s.push_str(&if skel { " SKIP n".to_string() } else { format!(" SKIP {n}") });
        }
        if let Some(n) = self.limit {
            s.push_str(&if skel { " LIMIT n".to_string() } else { format!(" LIMIT {n}") });
        }
        s
    }

    fn render(&self, skel: bool) -> String {
        let mut s = String::new();
        // Cypher: UNWIND comes first (UNWIND after MATCH yields nothing in either front end)
        if self.lang == Lang::Cypher {
            s.push_str(&self.unwind_text(skel));
        }
        for m in &self.matches {
            if m.optional {
                s.push_str("OPTIONAL ");
            }
            s.push_str("MATCH ");
            s.push_str(&m.paths.iter().map(|p| p.render(skel)).collect::<Vec<_>>().join(", "));
            s.push(' ');
        }
        if self.lang == Lang::Gql {
            s.push_str(&self.unwind_text(skel));
        }
        if let Some(p) = &self.filter {
            s.push_str("WHERE ");
            s.push_str(&if skel { p.skel() } else { p.top_text() });
            s.push(' ');
        }
        if let Some(m) = &self.mutation {
            match m {
                Mutation::Set(v, k, val) => {
                    if skel {
                        s.push_str(&format!("SET {v}.P = {} ", lit_type(val)));
                    } else {
                        s.push_str(&format!("SET {v}.{k} = {} ", lit_text(val)));
                    }
                }
                Mutation::Delete(v) => s.push_str(&format!("DETACH DELETE {v} ")),
                Mutation::CreateFrom(v) => {
                    if skel {
                        s.push_str(&format!("CREATE ({v})-[:T]->(:L {{P: Int}}) "));
                    } else {
                        s.push_str(&format!("CREATE ({v})-[:TX]->(:LX {{uid: 999}}) "));
                    }
                }
            }
        }
        if let Some(w) = &self.with {
            s.push_str("WITH ");
            if w.distinct {
                s.push_str("DISTINCT ");
            }
            let items: Vec<String> = w
                .items
                .iter()
                .map(|(e, a)| match e {
                    Expr::Var(v) if v == a => v.clone(),
                    e => format!("{} AS {a}", if skel { e.skel() } else { e.text() }),
                })
                .collect();
            s.push_str(&items.join(", "));
            s.push(' ');
            if let Some(p) = &w.filter {
                s.push_str("WHERE ");
                s.push_str(&if skel { p.skel() } else { p.top_text() });
                s.push(' ');
            }
        }
        // Cypher sorts through a pass-through WITH (ORDER BY after RETURN cannot see the variables);
        // aggregate queries sort by an aggregate's alias after RETURN
        let cypher_with_order = self.lang == Lang::Cypher && !self.order.is_empty() && !self.has_agg();
        if cypher_with_order {
            let scope: Vec<String> = match &self.with {
                Some(w) => w.items.iter().map(|(_, a)| a.clone()).collect(),
                None => {
                    let (n, e, v) = self.bound();
                    n.into_iter().chain(e).chain(v).collect()
                }
            };
            s.push_str(&format!("WITH {}{} ", scope.join(", "), self.order_text(skel)));
        }
        s.push_str("RETURN ");
        if skel {
            let mut kinds: Vec<String> = self.ret.iter().map(|r| r.skel()).collect();
            kinds.sort();
            kinds.dedup();
            s.push_str(&kinds.join(","));
        } else {
            s.push_str(&self.ret.iter().map(|r| r.text()).collect::<Vec<_>>().join(", "));
        }
        if !cypher_with_order {
            s.push_str(&self.order_text(skel));
        }
        s
    }

    pub fn text(&self) -> String {
        self.render(false)
    }

    /// Canonical skeleton: variables renamed in order of first appearance, labels / types /
    /// property keys / constants abstracted, literal types and operators kept.
    pub fn skeleton(&self) -> String {
        let mut q = self.clone();
        let mut order: Vec<String> = Vec::new();
        let mut see = |v: &str| {
            if !order.iter().any(|x| x == v) {
                order.push(v.to_string());
            }
        };
        for m in &q.matches {
            for p in &m.paths {
                see(&p.start.var);
                for (e, n) in &p.steps {
                    if let Some(v) = &e.var {
                        see(v);
                    }
                    see(&n.var);
                }
            }
        }
        if let Some((_, v)) = &q.unwind {
            see(v);
        }
        if let Some(w) = &q.with {
            for (_, a) in &w.items {
                see(a);
            }
        }
        let map: BTreeMap<String, String> = order.iter().enumerate().map(|(i, v)| (v.clone(), format!("v{}", i + 1))).collect();
        let f = |v: &str| map.get(v).cloned().unwrap_or_else(|| v.to_string());
        q.rename(&f);
        // rendered with the GQL clause order so that both front ends share one skeleton
        q.lang = Lang::Gql;
        q.render(true)
    }

    fn rename(&mut self, f: &dyn Fn(&str) -> String) {
        for m in &mut self.matches {
            for p in &mut m.paths {
                p.start.var = f(&p.start.var);
                for (e, n) in &mut p.steps {
                    if let Some(v) = &mut e.var {
                        *v = f(v);
                    }
                    n.var = f(&n.var);
                }
            }
        }
        if let Some((_, v)) = &mut self.unwind {
            *v = f(v);
        }
        if let Some(p) = &mut self.filter {
            p.rename(f);
        }
        if let Some(m) = &mut self.mutation {
            match m {
                Mutation::Set(v, ..) | Mutation::Delete(v) | Mutation::CreateFrom(v) => *v = f(v),
            }
        }
        if let Some(w) = &mut self.with {
            for (e, a) in &mut w.items {
                e.rename(f);
                *a = f(a);
            }
            if let Some(p) = &mut w.filter {
                p.rename(f);
            }
        }
        for r in &mut self.ret {
            r.expr.rename(f);
        }
        for (e, _) in &mut self.order {
            e.rename(f);
        }
    }

    /// variables bound by the MATCH / UNWIND part: (node vars, edge vars, value vars)
    pub fn bound(&self) -> (Vec<String>, Vec<String>, Vec<String>) {
        let mut nodes: Vec<String> = Vec::new();
        let mut edges: Vec<String> = Vec::new();
        for m in &self.matches {
            for p in &m.paths {
                for v in p.node_vars() {
                    if !nodes.contains(&v) {
                        nodes.push(v);
                    }
                }
                for v in p.edge_vars() {
                    if !edges.contains(&v) {
                        edges.push(v);
                    }
                }
            }
        }
        let vals = self.unwind.iter().map(|(_, v)| v.clone()).collect();
        (nodes, edges, vals)
    }

    /// Remove everything that refers to variables no longer in scope (after a reduction step);
    /// returns false when nothing sensible is left.
    pub fn sanitize(&mut self) -> bool {
        if self.matches.is_empty() {
            return false;
        }
        self.matches[0].optional = false;
        let (nodes, edges, vals) = self.bound();
        let mut scope: BTreeSet<String> = nodes.iter().chain(edges.iter()).chain(vals.iter()).cloned().collect();
        let ok_pred = |p: &Pred, scope: &BTreeSet<String>| {
            let mut v = BTreeSet::new();
            p.vars(&mut v);
            v.is_subset(scope)
        };
        let ok_expr = |e: &Expr, scope: &BTreeSet<String>| {
            let mut v = BTreeSet::new();
            e.vars(&mut v);
            v.is_subset(scope)
        };
        if let Some(p) = &self.filter {
            if !ok_pred(p, &scope) {
                self.filter = None;
            }
        }
        if let Some(m) = &self.mutation {
            let v = match m {
                Mutation::Set(v, ..) | Mutation::Delete(v) | Mutation::CreateFrom(v) => v,
            };
            if !nodes.contains(v) {
                self.mutation = None;
            }
        }
        if let Some(w) = &mut self.with {
            w.items.retain(|(e, _)| ok_expr(e, &scope));
            if w.items.is_empty() {
                self.with = None;
            } else {
                scope = w.items.iter().map(|(_, a)| a.clone()).collect();
                if let Some(p) = &w.filter {
                    if !ok_pred(p, &scope) {
                        w.filter = None;
                    }
                }
            }
        }
        self.ret.retain(|r| ok_expr(&r.expr, &scope));
        self.order.retain(|(e, _)| ok_expr(e, &scope));
        if self.ret.is_empty() {
            // keep the query alive with a canonical RETURN: the uid of the first entity in scope
            let first = match &self.with {
                Some(w) => w.items.iter().find(|(e, a)| matches!(e, Expr::Var(v) if v == a && (nodes.contains(v) || edges.contains(v)))).map(|(_, a)| a.clone()),
                None => nodes.first().cloned(),
            };
            match first {
                Some(v) => self.ret.push(RetItem { agg: None, expr: Expr::Prop(v, "uid".to_string()), alias: "c1".to_string() }),
                None => return false,
            }
        }
        if self.order.is_empty() {
            self.skip = None;
            self.limit = None;
            self.total_order = false;
        }
        true
    }
}

// ------------------------------------------------------------------------------------------
// results
// ------------------------------------------------------------------------------------------

#[derive(Clone, Debug)]
pub enum Outcome {
    Rows(Vec<String>),
    Error(String),
    Panic(String, String),
}

impl Outcome {
    pub fn brief(&self) -> String {
        match self {
            Outcome::Rows(r) => {
                let mut s = format!("{} rows", r.len());
                for x in r.iter().take(12) {
                    s.push_str("\n  ");
                    s.push_str(x);
                }
                s
            }
            Outcome::Error(e) => format!("error: {e}"),
            Outcome::Panic(site, msg) => format!("panic at {site}: {msg}"),
        }
    }
}

/// Bit-exact key of a row. Lists only come from collect() here (the generated graphs hold no
/// list properties) and collect()'s element order is unspecified, so lists compare as multisets.
pub fn row_key(row: &[Value]) -> String {
    row.iter()
        .map(|v| match v {
            Value::List(l) => {
                let mut e: Vec<String> = l.iter().map(vals::key).collect();
                e.sort();
                format!("L{{{}}}", e.join(","))
            }
            other => vals::key(other),
        })
        .collect::<Vec<_>>()
        .join(" | ")
}

pub fn outcome_of(r: Result<Result<grafeo_engine::database::QueryResult, grafeo_common::utils::error::Error>, crate::util::Panic>) -> Outcome {
    match r {
        Ok(Ok(res)) => Outcome::Rows(res.rows.iter().map(|r| row_key(r)).collect()),
        Ok(Err(e)) => Outcome::Error(e.to_string()),
        Err(p) => Outcome::Panic(p.site, p.msg),
    }
}

/// How `got` differs from `base`; None = equal.
pub fn diff(base: &Outcome, got: &Outcome, ordered: bool) -> Option<String> {
    match (base, got) {
        (Outcome::Rows(a), Outcome::Rows(b)) => {
            if ordered {
                if a == b {
                    return None;
                }
            }
            let mut ca: BTreeMap<&String, i64> = BTreeMap::new();
            for x in a {
                *ca.entry(x).or_insert(0) += 1;
            }
            for x in b {
                *ca.entry(x).or_insert(0) -= 1;
            }
            let missing = ca.values().any(|c| *c > 0);
            let extra = ca.values().any(|c| *c < 0);
            match (missing, extra) {
                (false, false) => {
                    if ordered {
                        Some("wrong_order".into())
                    } else {
                        None
                    }
                }
                (true, false) => Some("missing_rows".into()),
                (false, true) => Some("extra_rows".into()),
                (true, true) => Some("wrong_value".into()),
            }
        }
        (Outcome::Error(_), Outcome::Error(_)) => None,
        (Outcome::Panic(..), Outcome::Panic(..)) => None,
        (_, Outcome::Panic(site, _)) => Some(format!("panic@{site}")),
        (Outcome::Panic(site, _), _) => Some(format!("baseline_panic@{site}")),
        (Outcome::Error(_), Outcome::Rows(_)) => Some("error_only_in_one:baseline".into()),
        (Outcome::Rows(_), Outcome::Error(_)) => Some("error_only_in_one:variant".into()),
    }
}

// ------------------------------------------------------------------------------------------
// reducer
// ------------------------------------------------------------------------------------------

fn pred_variants(p: &Pred) -> Vec<Pred> {
    // replace p by a child, or reduce inside one side
    let mut out = p.children();
    match p {
        Pred::And(a, b) => {
            for x in pred_variants(a) {
                out.push(Pred::And(Box::new(x), b.clone()));
            }
            for x in pred_variants(b) {
                out.push(Pred::And(a.clone(), Box::new(x)));
            }
        }
        Pred::Or(a, b) => {
            for x in pred_variants(a) {
                out.push(Pred::Or(Box::new(x), b.clone()));
            }
            for x in pred_variants(b) {
                out.push(Pred::Or(a.clone(), Box::new(x)));
            }
        }
        Pred::Not(a) => {
            for x in pred_variants(a) {
                out.push(Pred::Not(Box::new(x)));
            }
        }
        Pred::In(e, l) if l.len() > 1 => {
            for i in 0..l.len() {
                let mut l2 = l.clone();
                l2.remove(i);
                out.push(Pred::In(e.clone(), l2));
            }
        }
        _ => {}
    }
    out
}

/// Candidate one-step simplifications of a query, most drastic first.
pub fn query_candidates(q: &Query) -> Vec<Query> {
    let mut out: Vec<Query> = Vec::new();
    let mut push = |mut c: Query| {
        if c.sanitize() {
            out.push(c);
        }
    };
    if q.mutation.is_some() {
        let mut c = q.clone();
        c.mutation = None;
        push(c);
    }
    if q.skip.is_some() || q.limit.is_some() {
        let mut c = q.clone();
        c.skip = None;
        c.limit = None;
        push(c);
    }
    if !q.order.is_empty() {
        let mut c = q.clone();
        c.order.clear();
        c.skip = None;
        c.limit = None;
        push(c);
    }
    if let Some(w) = &q.with {
        // drop WITH: substitute aliases by their expressions
        let mut c = q.clone();
        c.with = None;
        let sub = |e: &Expr| -> Expr {
            match e {
                Expr::Var(v) => {
                    if let Some((x, _)) = w.items.iter().find(|(_, a)| a == v) {
                        return x.clone();
                    }
                }
                // a property of a renamed variable: back to the original name
                Expr::Prop(v, k) => {
                    if let Some((Expr::Var(x), _)) = w.items.iter().find(|(_, a)| a == v) {
                        return Expr::Prop(x.clone(), k.clone());
                    }
                }
                Expr::Lit(_) => {}
            }
            e.clone()
        };
        for r in &mut c.ret {
            r.expr = sub(&r.expr);
        }
        for (e, _) in &mut c.order {
            *e = sub(e);
        }
        // the WITH's own filter joins the WHERE (when its aliases can be substituted)
        let merged = w.filter.as_ref().and_then(|p| {
            p.subst(&|v: &str| w.items.iter().find(|(_, a)| a == v).map(|(x, _)| x.clone()))
        });
        if let Some(m) = merged {
            let mut c2 = c.clone();
            c2.filter = Some(match c2.filter.take() {
                Some(f) => Pred::And(Box::new(f), Box::new(m)),
                None => m,
            });
            push(c2);
        }
        push(c);
        if w.distinct {
            let mut c = q.clone();
            c.with.as_mut().unwrap().distinct = false;
            push(c);
        }
        if let Some(p) = &w.filter {
            let mut c = q.clone();
            c.with.as_mut().unwrap().filter = None;
            push(c);
            for v in pred_variants(p) {
                let mut c = q.clone();
                c.with.as_mut().unwrap().filter = Some(v);
                push(c);
            }
        }
        if w.items.len() > 1 {
            for i in 0..w.items.len() {
                let mut c = q.clone();
                c.with.as_mut().unwrap().items.remove(i);
                push(c);
            }
        }
    }
    if q.unwind.is_some() {
        let mut c = q.clone();
        c.unwind = None;
        push(c);
    }
    // drop a whole MATCH clause (never the first one alone)
    if q.matches.len() > 1 {
        for i in (0..q.matches.len()).rev() {
            let mut c = q.clone();
            c.matches.remove(i);
            push(c);
        }
    }
    for (mi, m) in q.matches.iter().enumerate() {
        if m.optional {
            let mut c = q.clone();
            c.matches[mi].optional = false;
            push(c);
        }
        if m.paths.len() > 1 {
            for pi in (0..m.paths.len()).rev() {
                let mut c = q.clone();
                c.matches[mi].paths.remove(pi);
                push(c);
            }
        }
        for (pi, p) in m.paths.iter().enumerate() {
            if !p.steps.is_empty() {
                // drop the last hop; drop the first hop
                let mut c = q.clone();
                c.matches[mi].paths[pi].steps.pop();
                push(c);
                let mut c = q.clone();
                let (_, n) = c.matches[mi].paths[pi].steps.remove(0);
                c.matches[mi].paths[pi].start = n;
                push(c);
            }
            if p.start.label.is_some() {
                let mut c = q.clone();
                c.matches[mi].paths[pi].start.label = None;
                push(c);
            }
            if !p.start.props.is_empty() {
                let mut c = q.clone();
                c.matches[mi].paths[pi].start.props.clear();
                push(c);
            }
            for (si, (e, n)) in p.steps.iter().enumerate() {
                if n.label.is_some() {
                    let mut c = q.clone();
                    c.matches[mi].paths[pi].steps[si].1.label = None;
                    push(c);
                }
                if !n.props.is_empty() {
                    let mut c = q.clone();
                    c.matches[mi].paths[pi].steps[si].1.props.clear();
                    push(c);
                }
                if e.ty.is_some() {
                    let mut c = q.clone();
                    c.matches[mi].paths[pi].steps[si].0.ty = None;
                    push(c);
                }
                if !e.props.is_empty() {
                    let mut c = q.clone();
                    c.matches[mi].paths[pi].steps[si].0.props.clear();
                    push(c);
                }
                if e.hops.is_some() {
                    let mut c = q.clone();
                    c.matches[mi].paths[pi].steps[si].0.hops = None;
                    push(c);
                }
                if e.dir != Dir::Out {
                    let mut c = q.clone();
                    c.matches[mi].paths[pi].steps[si].0.dir = Dir::Out;
                    push(c);
                }
            }
        }
    }
    if let Some(p) = &q.filter {
        let mut c = q.clone();
        c.filter = None;
        push(c);
        for v in pred_variants(p) {
            let mut c = q.clone();
            c.filter = Some(v);
            push(c);
        }
    }
    if q.has_agg() {
        let mut c = q.clone();
        for r in &mut c.ret {
            if r.agg == Some(Agg::CountStar) {
                r.expr = Expr::Lit(Value::Int64(1));
            }
            r.agg = None;
        }
        c.ret.retain(|r| !matches!(r.expr, Expr::Lit(_)));
        push(c);
    }
    // canonical RETURN: only the uid of the first node variable in scope
    {
        let scope_first = match &q.with {
            Some(w) => w.items.iter().find(|(e, a)| matches!(e, Expr::Var(v) if v == a && !v.starts_with('r') && v != "x")).map(|(_, a)| a.clone()),
            None => q.bound().0.first().cloned(),
        };
        if let Some(v) = scope_first {
            let canon = RetItem { agg: None, expr: Expr::Prop(v, "uid".to_string()), alias: "c1".to_string() };
            let already = q.ret.len() == 1 && q.ret[0].agg.is_none() && q.ret[0].expr.text() == canon.expr.text();
            if !already {
                let mut c = q.clone();
                c.ret = vec![canon];
                c.order.clear();
                c.skip = None;
                c.limit = None;
                push(c);
            }
        }
    }
    // break cycles / shared variables: give a repeated target variable a fresh name
    {
        let mut seen: Vec<String> = Vec::new();
        for (mi, m) in q.matches.iter().enumerate() {
            for (pi, p) in m.paths.iter().enumerate() {
                if seen.contains(&p.start.var) && p.steps.is_empty() {
                    // a bare re-mention of a known variable: handled by dropping the pattern
                }
                if !seen.contains(&p.start.var) {
                    seen.push(p.start.var.clone());
                }
                for (si, (_, n)) in p.steps.iter().enumerate() {
                    if seen.contains(&n.var) {
                        let mut c = q.clone();
                        c.matches[mi].paths[pi].steps[si].1.var = format!("m{mi}{pi}{si}");
                        push(c);
                    } else {
                        seen.push(n.var.clone());
                    }
                }
            }
        }
    }
    // drop edge variables (anything that reads them goes with them)
    for (mi, m) in q.matches.iter().enumerate() {
        for (pi, p) in m.paths.iter().enumerate() {
            for (si, (e, _)) in p.steps.iter().enumerate() {
                if e.var.is_some() {
                    let mut c = q.clone();
                    c.matches[mi].paths[pi].steps[si].0.var = None;
                    c.matches[mi].paths[pi].steps[si].0.props.clear();
                    push(c);
                }
            }
        }
    }
    if q.ret.len() > 1 {
        for i in (0..q.ret.len()).rev() {
            let mut c = q.clone();
            c.ret.remove(i);
            push(c);
        }
    }
    out
}

/// Candidate one-step simplifications of a graph.
pub fn graph_candidates(g: &GraphSpec) -> Vec<GraphSpec> {
    let mut out = Vec::new();
    // halves first
    if g.edges.len() > 3 {
        let h = g.edges.len() / 2;
        let mut c = g.clone();
        c.edges.truncate(h);
        out.push(c);
        let mut c = g.clone();
        c.edges.drain(..h);
        out.push(c);
    }
    for i in (0..g.nodes.len()).rev() {
        if g.nodes.len() <= 1 {
            break;
        }
        let mut c = g.clone();
        c.nodes.remove(i);
        c.edges.retain(|e| e.src != i && e.dst != i);
        for e in &mut c.edges {
            if e.src > i {
                e.src -= 1;
            }
            if e.dst > i {
                e.dst -= 1;
            }
        }
        out.push(c);
    }
    for i in (0..g.edges.len()).rev() {
        let mut c = g.clone();
        c.edges.remove(i);
        out.push(c);
    }
    for i in 0..g.nodes.len() {
        for j in (0..g.nodes[i].props.len()).rev() {
            let mut c = g.clone();
            c.nodes[i].props.remove(j);
            out.push(c);
        }
        for j in (0..g.nodes[i].labels.len()).rev() {
            let mut c = g.clone();
            c.nodes[i].labels.remove(j);
            out.push(c);
        }
    }
    for i in 0..g.edges.len() {
        for j in (0..g.edges[i].props.len()).rev() {
            let mut c = g.clone();
            c.edges[i].props.remove(j);
            out.push(c);
        }
    }
    out
}

/// Greedy 1-minimal reduction. `fails(g, q)` must return true while the deviation of
/// interest is still present. `budget` bounds the number of `fails` calls.
pub fn reduce(g: &GraphSpec, q: &Query, budget: usize, fails: &mut dyn FnMut(&GraphSpec, &Query) -> bool) -> (GraphSpec, Query, usize) {
    let mut g = g.clone();
    let mut q = q.clone();
    let mut used = 0usize;
    // queries first (cheap, and decides the signature), then the graph, then queries again
    for _round in 0..3 {
        let mut progress = false;
        'q: loop {
            for c in query_candidates(&q) {
                if used >= budget {
                    break 'q;
                }
                used += 1;
                if fails(&g, &c) {
                    q = c;
                    progress = true;
                    continue 'q;
                }
            }
            break;
        }
        'g: loop {
            for c in graph_candidates(&g) {
                if used >= budget {
                    break 'g;
                }
                used += 1;
                if fails(&c, &q) {
                    g = c;
                    progress = true;
                    continue 'g;
                }
            }
            break;
        }
        if !progress || used >= budget {
            break;
        }
    }
    (g, q, used)
}

// ------------------------------------------------------------------------------------------
// random queries
// ------------------------------------------------------------------------------------------

#[derive(Clone, Copy, Debug, PartialEq, Eq)]
pub enum Profile {
    /// wide: everything the front ends accept (C09)
    Wide,
    /// biased to the physical optimisation patterns and their near misses (C10)
    Physical,
}

pub fn lit_for_key(r: &mut Rng, key: &str) -> Value {
    match key {
        "s" => vals::s(*r.pick(&["a", "b", "ab", "", "c", "zz"])),
        "b" => Value::Bool(r.chance(0.5)),
        "z" => match r.below(8) {
            0..=2 => Value::Int64(r.range(0, 4)),
            3 => Value::Float64(r.range(0, 4) as f64),
            4 => Value::Float64(r.range(0, 8) as f64 / 2.0),
            5 => vals::s(*r.pick(&["a", "b", ""])),
            6 => Value::Bool(r.chance(0.5)),
            _ => Value::Float64(0.0),
        },
        "uid" => Value::Int64(r.range(0, 8)),
        "k" => match r.below(8) {
            0..=3 => Value::Int64(r.range(0, 4)),
            4 => Value::Float64(r.range(0, 3) as f64),
            5 => Value::Float64(r.range(0, 6) as f64 / 2.0 + 0.25),
            6 => Value::Int64(r.range(2, 7)),
            _ => Value::Float64(r.range(0, 6) as f64 / 2.0),
        },
        _ => match r.below(8) {
            0..=3 => Value::Int64(r.range(0, 9)),
            4 => Value::Float64(r.range(0, 9) as f64),
            5 => Value::Float64(r.range(0, 18) as f64 / 2.0 + 0.25),
            6 => Value::Int64(r.range(6, 13)),
            _ => Value::Float64(r.range(0, 18) as f64 / 2.0),
        },
    }
}

fn pick_key(r: &mut Rng, is_edge: bool) -> String {
    if is_edge {
        (*r.pick(&["w", "w", "w", "k", "uid"])).to_string()
    } else {
        (*r.pick(&["k", "k", "k", "w", "w", "z", "z", "s", "b", "uid"])).to_string()
    }
}

/// an atomic predicate over one of the (variable, is_edge) pairs
fn gen_atom(r: &mut Rng, lang: Lang, vars: &[(String, bool)], vals_vars: &[String]) -> Pred {
    if !vals_vars.is_empty() && r.chance(0.15) {
        let v = r.pick(vals_vars).clone();
        let (n, e) = r.pick(vars).clone();
        let key = pick_key(r, e);
        return match r.below(3) {
            0 => Pred::Cmp(Expr::Prop(n, key), *r.pick(&[Cmp::Eq, Cmp::Lt, Cmp::Ge]), Expr::Var(v)),
            1 => Pred::Cmp(Expr::Var(v), *r.pick(&[Cmp::Gt, Cmp::Le, Cmp::Ne]), Expr::Lit(Value::Int64(r.range(0, 5)))),
            _ => Pred::Cmp(Expr::Var(v), Cmp::Eq, Expr::Prop(n, key)),
        };
    }
    let (v, is_edge) = r.pick(vars).clone();
    let key = pick_key(r, is_edge);
    let e = Expr::Prop(v.clone(), key.clone());
    // GQL's WHERE accepts neither IS [NOT] NULL nor IN
    let mut choice = r.below(16);
    if lang == Lang::Gql && (choice == 10 || choice == 11) {
        choice = r.below(10);
    }
    match choice {
        0..=3 => Pred::Cmp(e, Cmp::Eq, Expr::Lit(lit_for_key(r, &key))),
        4 => Pred::Cmp(e, Cmp::Ne, Expr::Lit(lit_for_key(r, &key))),
        5..=8 => Pred::Cmp(e, *r.pick(&[Cmp::Lt, Cmp::Le, Cmp::Gt, Cmp::Ge]), Expr::Lit(lit_for_key(r, &key))),
        9 => {
            // literal on the left
            Pred::Cmp(Expr::Lit(lit_for_key(r, &key)), *r.pick(&[Cmp::Lt, Cmp::Le, Cmp::Gt, Cmp::Ge, Cmp::Eq]), e)
        }
        10 => Pred::IsNull(e, r.chance(0.6)),
        11 => {
            let n = 1 + r.below(3);
            Pred::In(e, (0..n).map(|_| lit_for_key(r, &key)).collect())
        }
        12 => {
            // BETWEEN-like range on one property
            let a = lit_for_key(r, &key);
            let b = lit_for_key(r, &key);
            let (lo, hi) = (*r.pick(&[Cmp::Gt, Cmp::Ge]), *r.pick(&[Cmp::Lt, Cmp::Le]));
            if r.chance(0.5) {
                Pred::And(Box::new(Pred::Cmp(e.clone(), lo, Expr::Lit(a))), Box::new(Pred::Cmp(e, hi, Expr::Lit(b))))
            } else {
                Pred::And(Box::new(Pred::Cmp(e.clone(), hi, Expr::Lit(b))), Box::new(Pred::Cmp(e, lo, Expr::Lit(a))))
            }
        }
        13 => {
            // property against property (join-like predicate)
            let (v2, e2) = r.pick(vars).clone();
            let k2 = pick_key(r, e2);
            Pred::Cmp(e, *r.pick(&[Cmp::Eq, Cmp::Lt, Cmp::Ne, Cmp::Ge]), Expr::Prop(v2, k2))
        }
        _ => Pred::Cmp(e, *r.pick(&[Cmp::Eq, Cmp::Gt, Cmp::Le]), Expr::Lit(lit_for_key(r, &key))),
    }
}

pub fn gen_pred(r: &mut Rng, lang: Lang, vars: &[(String, bool)], vals_vars: &[String], depth: u32) -> Pred {
    if depth == 0 || r.chance(0.45) {
        return gen_atom(r, lang, vars, vals_vars);
    }
    match r.below(7) {
        0..=3 => Pred::And(Box::new(gen_pred(r, lang, vars, vals_vars, depth - 1)), Box::new(gen_pred(r, lang, vars, vals_vars, depth - 1))),
        4 | 5 => Pred::Or(Box::new(gen_pred(r, lang, vars, vals_vars, depth - 1)), Box::new(gen_pred(r, lang, vars, vals_vars, depth - 1))),
        _ => Pred::Not(Box::new(gen_pred(r, lang, vars, vals_vars, depth - 1))),
    }
}

struct Names {
    n: usize,
    e: usize,
}
impl Names {
    fn node(&mut self) -> String {
        self.n += 1;
        format!("n{}", self.n)
    }
    fn edge(&mut self) -> String {
        self.e += 1;
        format!("r{}", self.e)
    }
}

fn gen_node_pat(r: &mut Rng, var: String, p_label: f64, p_props: f64) -> NodePat {
    let label = if r.chance(p_label) { Some((*r.pick(&LABELS)).to_string()) } else { None };
    let mut props = Vec::new();
    if r.chance(p_props) {
        let key = (*r.pick(&["k", "w", "z", "s"])).to_string();
        let v = lit_for_key(r, &key);
        props.push((key, v));
        if r.chance(0.2) {
            let key = (*r.pick(&["k", "w", "b"])).to_string();
            if props[0].0 != key {
                let v = lit_for_key(r, &key);
                props.push((key, v));
            }
        }
    }
    NodePat { var, label, props }
}

fn gen_edge_pat(r: &mut Rng, names: &mut Names, allow_varlen: bool) -> EdgePat {
    let var = if r.chance(0.55) { Some(names.edge()) } else { None };
    let ty = if r.chance(0.45) { Some((*r.pick(&TYPES)).to_string()) } else { None };
    let dir = match r.below(10) {
        0..=6 => Dir::Out,
        7 | 8 => Dir::In,
        _ => Dir::Both,
    };
    let mut props = Vec::new();
    if var.is_some() && r.chance(0.1) {
        props.push(("w".to_string(), lit_for_key(r, "w")));
    }
    let hops = if allow_varlen && r.chance(0.08) { Some((r.range(1, 2) as u32, r.range(2, 3) as u32)) } else { None };
    EdgePat { var: if hops.is_some() { None } else { var }, ty, dir, props: if hops.is_some() { vec![] } else { props }, hops }
}

fn gen_path(r: &mut Rng, names: &mut Names, start_var: Option<String>, max_hops: usize, profile: Profile, known: &[String]) -> PathPat {
    let sv = start_var.unwrap_or_else(|| names.node());
    let reuse = known.contains(&sv);
    let (pl, pp) = if reuse { (0.0, 0.0) } else if profile == Profile::Physical { (0.3, 0.15) } else { (0.4, 0.12) };
    let start = gen_node_pat(r, sv, pl, pp);
    let hops = match profile {
        Profile::Wide => *r.pick(&[0usize, 1, 1, 1, 2, 2, 3]),
        Profile::Physical => *r.pick(&[0usize, 0, 0, 1, 1, 2, 2, 3]),
    }
    .min(max_hops);
    let mut steps = Vec::new();
    for _ in 0..hops {
        let e = gen_edge_pat(r, names, profile == Profile::Wide);
        // sometimes close a cycle / reuse a known variable as the target
        // re-mentioning a variable inside a path (cycles) only in the wide profile; C10 has directed texts for it
        let tv = if profile == Profile::Wide && !known.is_empty() && r.chance(0.08) { r.pick(known).clone() } else { names.node() };
        let fresh = !known.contains(&tv);
        let n = gen_node_pat(r, tv, if fresh { 0.3 } else { 0.0 }, if fresh { 0.08 } else { 0.0 });
        steps.push((e, n));
    }
    PathPat { start, steps }
}

pub fn gen_query(r: &mut Rng, profile: Profile, lang: Lang, allow_mutation: bool) -> Query {
    let mut q = Query::empty(lang);
    #[allow(unused_assignments)]
    let mut names = Names { n: 0, e: 0 };
    // ---- MATCH part
    let n_match = match profile {
        Profile::Wide => *r.pick(&[1usize, 1, 1, 2, 2, 3]),
        Profile::Physical => *r.pick(&[1usize, 1, 1, 1, 2]),
    };
    let mut known: Vec<String> = Vec::new();
    // bound the size of the intermediate results: every pattern element multiplies the row count
    let cap = if profile == Profile::Wide { 6 } else { 5 };
    loop {
    q.matches.clear();
    known.clear();
    names = Names { n: 0, e: 0 };
    for mi in 0..n_match {
        let optional = mi > 0 && r.chance(0.4);
        let n_paths = if r.chance(if profile == Profile::Wide { 0.3 } else { 0.15 }) { 2 } else { 1 };
        let mut paths = Vec::new();
        for _ in 0..n_paths {
            // later patterns start from a shared variable most of the time (join graphs)
            let start = if !known.is_empty() && r.chance(0.7) { Some(r.pick(&known).clone()) } else { None };
            let p = gen_path(r, &mut names, start, 3, profile, &known);
            for v in p.node_vars() {
                if !known.contains(&v) {
                    known.push(v);
                }
            }
            paths.push(p);
        }
        q.matches.push(MatchClause { optional, paths });
    }
    let weight: u32 = q
        .matches
        .iter()
        .flat_map(|m| m.paths.iter())
        .map(|p| 1 + p.steps.iter().map(|(e, _)| e.hops.map_or(1, |h| h.1)).sum::<u32>())
        .sum();
    if weight <= cap {
        break;
    }
    }
    let (nodes, edges, _) = q.bound();
    let mut vars: Vec<(String, bool)> = nodes.iter().map(|v| (v.clone(), false)).collect();
    vars.extend(edges.iter().map(|v| (v.clone(), true)));
    // ---- UNWIND
    let mut val_vars: Vec<String> = Vec::new();
    if lang == Lang::Cypher && r.chance(if profile == Profile::Wide { 0.2 } else { 0.06 }) {
        let n = 1 + r.below(3);
        let mut list: Vec<Value> = Vec::new();
        for i in 0..n {
            list.push(Value::Int64(i as i64 * 2 + r.range(0, 1)));
        }
        q.unwind = Some((list, "x".to_string()));
        val_vars.push("x".to_string());
    }
    // ---- WHERE
    let p_where = if profile == Profile::Physical { 0.92 } else { 0.75 };
    if r.chance(p_where) {
        let depth = if profile == Profile::Physical { *r.pick(&[0u32, 0, 0, 1, 1, 2]) } else { *r.pick(&[0u32, 0, 1, 1, 2, 3]) };
        q.filter = Some(gen_pred(r, lang, &vars, &val_vars, depth));
    }
    // ---- mutation (read-write statement)
    if allow_mutation && r.chance(0.1) {
        let v = r.pick(&nodes).clone();
        // CREATE below a variable-length expand feeds the expand its own output (never ends)
        // CREATE feeds the scans / expands below it with its own output (the statement never
        // ends) unless what it creates cannot match any pattern: only when every node pattern
        // carries a label (the created node is :LX, its edge :TX) and no hop is variable-length
        let varlen = q.matches.iter().flat_map(|m| m.paths.iter()).any(|p| p.steps.iter().any(|(e, _)| e.hops.is_some()));
        let all_labelled = q.matches.iter().flat_map(|m| m.paths.iter()).all(|p| {
            p.start.label.is_some() && p.steps.iter().all(|(_, n)| n.label.is_some())
        });
        q.mutation = Some(match if varlen || !all_labelled { r.below(2) } else { r.below(4) } {
            0 | 1 => {
                let key = (*r.pick(&["k", "w", "q"])).to_string();
                let val = lit_for_key(r, "k");
                Mutation::Set(v, key, val)
            }
            2 => Mutation::CreateFrom(v),
            _ => Mutation::Delete(v),
        });
    }
    // ---- WITH
    let mut scope_nodes = nodes.clone();
    let mut scope_edges = edges.clone();
    let mut scope_vals: Vec<String> = val_vars.clone();
    let p_with = if profile == Profile::Wide { 0.3 } else { 0.12 };
    if r.chance(p_with) && !matches!(q.mutation, Some(Mutation::Delete(_))) {
        let mut items: Vec<(Expr, String)> = Vec::new();
        let mut new_nodes = Vec::new();
        let mut new_edges = Vec::new();
        let mut new_vals = Vec::new();
        for v in &nodes {
            if r.chance(0.7) {
                items.push((Expr::Var(v.clone()), v.clone()));
                new_nodes.push(v.clone());
            }
        }
        for v in &edges {
            if r.chance(0.5) {
                items.push((Expr::Var(v.clone()), v.clone()));
                new_edges.push(v.clone());
            }
        }
        for v in &val_vars {
            if r.chance(0.7) {
                items.push((Expr::Var(v.clone()), v.clone()));
                new_vals.push(v.clone());
            }
        }
        let n_alias = r.below(3);
        for i in 0..n_alias {
            let (v, e) = r.pick(&vars).clone();
            let key = pick_key(r, e);
            let a = format!("a{i}");
            items.push((Expr::Prop(v, key), a.clone()));
            new_vals.push(a);
        }
        if items.is_empty() {
            let v = nodes[0].clone();
            items.push((Expr::Var(v.clone()), v.clone()));
            new_nodes.push(v);
        }
        // WITH <var> AS <other>: a fresh name, the name of a variable that is not passed on
        // (shadowing), or two names swapped — followed by a WHERE on the new names most of the
        // time (wide profile only; the physical profile's random stream is left as it was)
        let mut renamed: Vec<(String, bool)> = Vec::new();
        if profile == Profile::Wide && r.chance(0.4) {
            let use_edges = !new_edges.is_empty() && r.chance(0.25);
            let (group, all) = if use_edges { (&mut new_edges, &edges) } else { (&mut new_nodes, &nodes) };
            if !group.is_empty() {
                let gi = r.below(group.len());
                let v = group[gi].clone();
                let dropped: Vec<String> = all.iter().filter(|u| !group.contains(u)).cloned().collect();
                let mode = r.below(3);
                if mode == 2 && group.len() >= 2 {
                    let mut gj = r.below(group.len() - 1);
                    if gj >= gi {
                        gj += 1;
                    }
                    let u = group[gj].clone();
                    for it in items.iter_mut() {
                        let src = match &it.0 {
                            Expr::Var(x) if *x == it.1 => x.clone(),
                            _ => continue,
                        };
                        if src == v {
                            it.1 = u.clone();
                        } else if src == u {
                            it.1 = v.clone();
                        }
                    }
                    renamed.push((v.clone(), use_edges));
                    renamed.push((u, use_edges));
                } else {
                    let alias = if mode == 1 && !dropped.is_empty() { r.pick(&dropped).clone() } else { "m1".to_string() };
                    for it in items.iter_mut() {
                        if matches!(&it.0, Expr::Var(x) if *x == v) && it.1 == v {
                            it.1 = alias.clone();
                        }
                    }
                    group[gi] = alias.clone();
                    renamed.push((alias, use_edges));
                }
            }
        }
        let distinct = r.chance(0.35);
        let mut w = With { items, distinct, filter: None };
        if r.chance(if renamed.is_empty() { 0.4 } else { 0.85 }) {
            let mut wv: Vec<(String, bool)> = new_nodes.iter().map(|v| (v.clone(), false)).collect();
            wv.extend(new_edges.iter().map(|v| (v.clone(), true)));
            if !renamed.is_empty() {
                // a WHERE that reads a new name, alone or with one more conjunct
                let on_new = gen_pred(r, lang, &renamed, &[], 0);
                w.filter = Some(if r.chance(0.3) { Pred::And(Box::new(on_new), Box::new(gen_pred(r, lang, &wv, &new_vals, 0))) } else { on_new });
            } else if !wv.is_empty() {
                w.filter = Some(gen_pred(r, lang, &wv, &new_vals, 1));
            } else if !new_vals.is_empty() {
                let v = r.pick(&new_vals).clone();
                w.filter = Some(Pred::Cmp(Expr::Var(v), *r.pick(&[Cmp::Gt, Cmp::Le, Cmp::Eq, Cmp::Ne]), Expr::Lit(Value::Int64(r.range(0, 5)))));
            }
        }
        q.with = Some(w);
        scope_nodes = new_nodes;
        scope_edges = new_edges;
        scope_vals = new_vals;
    }
    // ---- RETURN
    let ents: Vec<(String, bool)> = scope_nodes.iter().map(|v| (v.clone(), false)).chain(scope_edges.iter().map(|v| (v.clone(), true))).collect();
    let agg = r.chance(if profile == Profile::Wide { 0.25 } else { 0.3 }) && q.mutation.is_none();
    let mut alias_i = 0;
    let mut alias = || {
        alias_i += 1;
        format!("c{alias_i}")
    };
    if agg {
        // optional group key + 1..2 aggregates
        if r.chance(0.5) && !ents.is_empty() {
            let (v, e) = r.pick(&ents).clone();
            let key = pick_key(r, e);
            q.ret.push(RetItem { agg: None, expr: Expr::Prop(v, key), alias: alias() });
        }
        let n = 1 + r.below(2);
        for _ in 0..n {
            let f = *r.pick(&[Agg::Count, Agg::Count, Agg::Count, Agg::Sum, Agg::Min, Agg::Max, Agg::Avg, Agg::Collect]);
            let expr = if f == Agg::CountStar {
                Expr::Lit(Value::Int64(1))
            } else if ents.is_empty() {
                Expr::Var(scope_vals[0].clone())
            } else if matches!(f, Agg::Count) && r.chance(0.6) {
                Expr::Var(r.pick(&ents).0.clone())
            } else {
                let (v, e) = r.pick(&ents).clone();
                let key = if e { "w".to_string() } else { (*r.pick(&["k", "w", "uid"])).to_string() };
                Expr::Prop(v, key)
            };
            q.ret.push(RetItem { agg: Some(f), expr, alias: alias() });
        }
    } else {
        for (v, _) in &ents {
            if r.chance(0.8) {
                q.ret.push(RetItem { agg: None, expr: Expr::Prop(v.clone(), "uid".to_string()), alias: alias() });
            }
        }
        let extra = r.below(3);
        for _ in 0..extra {
            if ents.is_empty() {
                break;
            }
            let (v, e) = r.pick(&ents).clone();
            let key = pick_key(r, e);
            q.ret.push(RetItem { agg: None, expr: Expr::Prop(v, key), alias: alias() });
        }
        for v in &scope_vals {
            if r.chance(0.8) {
                q.ret.push(RetItem { agg: None, expr: Expr::Var(v.clone()), alias: alias() });
            }
        }
        if q.ret.is_empty() {
            if let Some((v, _)) = ents.first() {
                q.ret.push(RetItem { agg: None, expr: Expr::Prop(v.clone(), "uid".to_string()), alias: alias() });
            } else {
                q.ret.push(RetItem { agg: None, expr: Expr::Var(scope_vals[0].clone()), alias: alias() });
            }
        }
    }
    // ---- ORDER BY / SKIP / LIMIT
    let distinct = q.with.as_ref().is_some_and(|w| w.distinct);
    if r.chance(0.3) && !agg && !distinct && q.mutation.is_none() {
        // total order: optional leading key, then the uid of every entity in scope and every value
        if r.chance(0.5) && !ents.is_empty() {
            let (v, e) = r.pick(&ents).clone();
            let key = pick_key(r, e);
            q.order.push((Expr::Prop(v, key), r.chance(0.6)));
        }
        for (v, _) in &ents {
            q.order.push((Expr::Prop(v.clone(), "uid".to_string()), r.chance(0.7)));
        }
        for v in &scope_vals {
            q.order.push((Expr::Var(v.clone()), true));
        }
        // aliases computed by WITH and a dropped entity make the order partial
        let all_in_scope = q.with.is_none() || (scope_nodes.len() == nodes.len() && scope_edges.len() == edges.len() && scope_vals.len() >= val_vars.len());
        // anonymous edges / variable-length hops: parallel edges give indistinguishable rows, which is fine for sequences
        q.total_order = all_in_scope;
        // GQL applies SKIP / LIMIT before ORDER BY (translator), so which rows survive depends on
        // the physical row order: only Cypher gets SKIP / LIMIT here (C10 has one directed GQL text)
        if q.total_order && lang == Lang::Cypher && r.chance(0.6) {
            if r.chance(0.5) {
                q.skip = Some(r.below(3) as u32);
            }
            q.limit = Some(1 + r.below(4) as u32);
        }
    } else if lang == Lang::Cypher && r.chance(0.15) && agg {
        // ORDER BY an aggregate's alias: partial order, multiset comparison
        let a = q.ret.iter().find(|x| x.agg.is_some()).map(|x| x.alias.clone()).unwrap();
        q.order.push((Expr::Var(a), true));
        q.total_order = false;
    }
    q
}

// ------------------------------------------------------------------------------------------
// watchdog: a case that does not finish makes the run inconclusive instead of hanging it
// ------------------------------------------------------------------------------------------

static LAST_TICK: std::sync::Mutex<Option<(std::time::Instant, String)>> = std::sync::Mutex::new(None);

/// call at the start of every case
pub fn tick(desc: &str) {
    *LAST_TICK.lock().unwrap() = Some((std::time::Instant::now(), desc.to_string()));
}

pub fn watchdog(prop: &'static str, limit_s: u64) {
    std::thread::spawn(move || {
        loop {
            std::thread::sleep(std::time::Duration::from_secs(1));
            let g = LAST_TICK.lock().unwrap();
            if let Some((t, d)) = &*g {
                if t.elapsed().as_secs() > limit_s {
                    println!("INCONCLUSIVE property={prop} reason=one case did not finish within {limit_s} s (engine does not terminate?): {d}");
                    std::process::exit(2);
                }
            }
        }
    });
}
