//! C20 — concurrent use is safe.
//! (A) directed preemption matrix: thread A runs an operation and is parked at a yield point
//!     between two of its critical sections while thread B runs a whole operation on the same
//!     entity; then A resumes and post-quiescence walkers check the derived structures.
//! (B) multi-thread stress under chaos delays at the yield points, judged after all threads
//!     joined: id uniqueness, no lost acknowledged creation, index/adjacency agreement, unique
//!     increasing commit epochs, grant conservation, no deadlock (watchdog), no panic.

use crate::hooks;
use crate::report::{Report, Tier};
use crate::rng::{Rng, hash_str};
use crate::util::catch;
use grafeo_common::memory::buffer::{BufferManager, MemoryRegion};
use grafeo_common::types::{EdgeId, NodeId, Value};
use grafeo_core::graph::Direction;
use grafeo_core::graph::lpg::LpgStore;
use grafeo_core::graph::rdf::{RdfStore, Term, Triple, TriplePattern};
use grafeo_engine::transaction::TransactionManager;
use serde_json::json;
use std::collections::{BTreeMap, BTreeSet};
use std::sync::Arc;
use std::sync::atomic::{AtomicBool, AtomicU64, Ordering};
use std::time::{Duration, Instant};

// ---------------------------------------------------------------- walkers (post quiescence)

/// Cross-checks of the LPG store's derived structures against its primary data.
fn walk_lpg(st: &LpgStore, labels: &[&str], keys: &[&str]) -> Vec<String> {
    let mut bad = Vec::new();
    let ids: BTreeSet<u64> = st.node_ids().iter().map(|n| n.as_u64()).collect();
    if st.node_count() != ids.len() {
        bad.push("node_count_vs_node_ids".into());
    }
    let all: BTreeMap<u64, grafeo_core::graph::lpg::Node> = st.all_nodes().map(|n| (n.id.as_u64(), n)).collect();
    if all.keys().copied().collect::<BTreeSet<_>>() != ids {
        bad.push("all_nodes_vs_node_ids".into());
    }
    for l in labels {
        let by_label: BTreeSet<u64> = st.nodes_by_label(l).iter().map(|n| n.as_u64()).collect();
        let by_scan: BTreeSet<u64> = all.iter().filter(|(_, n)| n.labels.iter().any(|x| x.as_str() == *l)).map(|(i, _)| *i).collect();
        if by_label.iter().any(|i| !ids.contains(i)) {
            bad.push("label_index_lists_deleted_node".into());
        } else if by_label != by_scan {
            bad.push(if by_label.len() > by_scan.len() { "label_index_has_extra_node" } else { "label_index_misses_node" }.into());
        }
    }
    let edges: BTreeMap<u64, (u64, u64)> = st.all_edges().map(|e| (e.id.as_u64(), (e.src.as_u64(), e.dst.as_u64()))).collect();
    if st.edge_count() != edges.len() {
        bad.push("edge_count_vs_all_edges".into());
    }
    // adjacency vs primary
    let mut srcs: BTreeSet<u64> = ids.clone();
    for (s, d) in edges.values() {
        srcs.insert(*s);
        srcs.insert(*d);
    }
    for n in &srcs {
        let out: BTreeSet<u64> = st.edges_from(NodeId::new(*n), Direction::Outgoing).map(|(_, e)| e.as_u64()).collect();
        let exp: BTreeSet<u64> = edges.iter().filter(|(_, (s, _))| s == n).map(|(i, _)| *i).collect();
        if out != exp {
            bad.push(if out.iter().any(|e| !edges.contains_key(e)) { "forward_adjacency_lists_deleted_edge" } else if out.len() > exp.len() { "forward_adjacency_extra" } else { "forward_adjacency_misses_edge" }.into());
        }
        let inc: BTreeSet<u64> = st.edges_to(NodeId::new(*n)).iter().map(|(_, e)| e.as_u64()).collect();
        let expi: BTreeSet<u64> = edges.iter().filter(|(_, (_, d))| d == n).map(|(i, _)| *i).collect();
        if inc != expi {
            bad.push(if inc.iter().any(|e| !edges.contains_key(e)) { "backward_adjacency_lists_deleted_edge" } else if inc.len() > expi.len() { "backward_adjacency_extra" } else { "backward_adjacency_misses_edge" }.into());
        }
    }
    // property index vs scan (for indexed keys)
    for k in keys {
        if !st.has_property_index(k) {
            continue;
        }
        let mut values: Vec<Value> = all.values().filter_map(|n| n.properties.get(&(*k).into()).cloned()).collect();
        for probe in 0..6 {
            values.push(Value::Int64(probe));
        }
        for v in values {
            if matches!(v, Value::Float64(_)) {
                continue;
            }
            let by_index: BTreeSet<u64> = st.find_nodes_by_property(k, &v).iter().map(|n| n.as_u64()).collect();
            let by_scan: BTreeSet<u64> = all.iter().filter(|(_, n)| n.properties.get(&(*k).into()) == Some(&v)).map(|(i, _)| *i).collect();
            if by_index != by_scan {
                bad.push(if by_index.iter().any(|i| !ids.contains(i)) { "property_index_lists_deleted_node" } else if by_index.len() > by_scan.len() { "property_index_has_stale_entry" } else { "property_index_misses_node" }.into());
                break;
            }
        }
    }
    bad.sort();
    bad.dedup();
    bad
}

fn walk_rdf(st: &RdfStore) -> Vec<String> {
    let mut bad = Vec::new();
    let primary: Vec<Arc<Triple>> = st.triples();
    let pset: BTreeSet<String> = primary.iter().map(|t| format!("{t:?}")).collect();
    if pset.len() != primary.len() {
        bad.push("primary_repeats_triple".into());
    }
    if st.len() != primary.len() {
        bad.push("len_vs_triples".into());
    }
    let mut terms: BTreeMap<String, Term> = BTreeMap::new();
    for t in &primary {
        terms.insert(format!("{:?}", t.subject()), t.subject().clone());
        terms.insert(format!("{:?}", t.predicate()), t.predicate().clone());
        terms.insert(format!("{:?}", t.object()), t.object().clone());
    }
    for t in universe() {
        terms.insert(format!("{:?}", t.subject()), t.subject().clone());
        terms.insert(format!("{:?}", t.predicate()), t.predicate().clone());
        terms.insert(format!("{:?}", t.object()), t.object().clone());
    }
    for term in terms.values() {
        for (name, got, exp) in [
            ("subject", st.triples_with_subject(term), primary.iter().filter(|t| t.subject() == term).count()),
            ("predicate", st.triples_with_predicate(term), primary.iter().filter(|t| t.predicate() == term).count()),
            ("object", st.triples_with_object(term), primary.iter().filter(|t| t.object() == term).count()),
        ] {
            let gset: BTreeSet<String> = got.iter().map(|t| format!("{t:?}")).collect();
            if gset.len() != got.len() {
                bad.push(format!("{name}_index_repeats_triple"));
            } else if gset.iter().any(|x| !pset.contains(x)) {
                bad.push(format!("{name}_index_lists_removed_triple"));
            } else if got.len() < exp {
                bad.push(format!("{name}_index_misses_triple"));
            }
        }
    }
    for t in universe() {
        let pat = TriplePattern { subject: Some(t.subject().clone()), predicate: Some(t.predicate().clone()), object: Some(t.object().clone()) };
        let f = st.find(&pat).len();
        let c = usize::from(st.contains(&t));
        if f != c {
            bad.push("find_vs_contains".into());
        }
    }
    bad.sort();
    bad.dedup();
    bad
}

fn universe() -> Vec<Triple> {
    let mut v = Vec::new();
    for s in ["http://s1", "http://s2"] {
        for p in ["http://p1", "http://p2"] {
            for o in ["http://o1", "http://o2"] {
                v.push(Triple::new(Term::iri(s), Term::iri(p), Term::iri(o)));
            }
        }
    }
    v
}

// ---------------------------------------------------------------- (A) preemption matrix

struct Pre {
    name: &'static str,
    site: &'static str,
    /// returns the list of broken invariants after A (parked at `site`) || B
    run: fn() -> Vec<String>,
}

/// run `a` on a worker thread that parks at `site`; meanwhile run `b` here; returns whether the
/// site was reached, and whether both finished
fn interleave(site: &'static str, a: impl FnOnce() + Send + 'static, b: impl FnOnce() + Send) -> (bool, bool) {
    hooks::arm_preemption(site);
    let done = Arc::new(AtomicBool::new(false));
    let d2 = Arc::clone(&done);
    let h = std::thread::spawn(move || {
        hooks::mark_preemptible(true);
        a();
        d2.store(true, Ordering::SeqCst);
    });
    let start = Instant::now();
    while hooks::PREEMPT_STATE.load(Ordering::SeqCst) != 2 && !done.load(Ordering::SeqCst) && start.elapsed() < Duration::from_secs(5) {
        std::thread::yield_now();
    }
    let reached = hooks::PREEMPT_STATE.load(Ordering::SeqCst) == 2;
    // B runs on a helper thread so that a B blocked on a lock held by the parked A is detected
    let b_done = Arc::new(AtomicBool::new(false));
    let mut b_finished = true;
    std::thread::scope(|s| {
        let bd = Arc::clone(&b_done);
        s.spawn(move || {
            b();
            bd.store(true, Ordering::SeqCst);
        });
        let t0 = Instant::now();
        while !b_done.load(Ordering::SeqCst) && t0.elapsed() < Duration::from_secs(3) {
            std::thread::yield_now();
        }
        if !b_done.load(Ordering::SeqCst) {
            b_finished = false;
        }
        // release A (also un-blocks a B that was waiting for A's lock)
        hooks::PREEMPT_STATE.store(3, Ordering::SeqCst);
    });
    let _ = h.join();
    hooks::disarm_preemption();
    (reached, b_finished)
}

fn pre_scenarios() -> Vec<Pre> {
    vec![
        Pre { name: "add_label||delete_node", site: "store.add_label.after_node_labels", run: || {
            let st = Arc::new(LpgStore::new());
            let n = st.create_node(&["A"]);
            let (s1, s2) = (Arc::clone(&st), Arc::clone(&st));
            let (reached, bfin) = interleave("store.add_label.after_node_labels", move || { s1.add_label(n, "B"); }, move || { s2.delete_node(n); });
            finish(reached, bfin, walk_lpg(&st, &["A", "B"], &[]))
        } },
        Pre { name: "add_label||remove_label", site: "store.add_label.after_node_labels", run: || {
            let st = Arc::new(LpgStore::new());
            let n = st.create_node(&["A"]);
            let (s1, s2) = (Arc::clone(&st), Arc::clone(&st));
            let (reached, bfin) = interleave("store.add_label.after_node_labels", move || { s1.add_label(n, "B"); }, move || { s2.remove_label(n, "B"); });
            finish(reached, bfin, walk_lpg(&st, &["A", "B"], &[]))
        } },
        Pre { name: "set_prop||set_prop(indexed)", site: "store.set_prop.after_index", run: || {
            let st = Arc::new(LpgStore::new());
            let n = st.create_node(&["A"]);
            st.set_node_property(n, "k", Value::Int64(0));
            st.create_property_index("k");
            let (s1, s2) = (Arc::clone(&st), Arc::clone(&st));
            let (reached, bfin) = interleave("store.set_prop.after_index", move || { s1.set_node_property(n, "k", Value::Int64(1)); }, move || { s2.set_node_property(n, "k", Value::Int64(2)); });
            finish(reached, bfin, walk_lpg(&st, &["A"], &["k"]))
        } },
        Pre { name: "set_prop||delete_node(indexed)", site: "store.set_prop.after_index", run: || {
            let st = Arc::new(LpgStore::new());
            let n = st.create_node(&["A"]);
            st.set_node_property(n, "k", Value::Int64(0));
            st.create_property_index("k");
            let (s1, s2) = (Arc::clone(&st), Arc::clone(&st));
            let (reached, bfin) = interleave("store.set_prop.after_index", move || { s1.set_node_property(n, "k", Value::Int64(1)); }, move || { s2.delete_node(n); });
            finish(reached, bfin, walk_lpg(&st, &["A"], &["k"]))
        } },
        Pre { name: "set_prop||remove_prop(indexed)", site: "store.set_prop.after_index", run: || {
            let st = Arc::new(LpgStore::new());
            let n = st.create_node(&["A"]);
            st.set_node_property(n, "k", Value::Int64(0));
            st.create_property_index("k");
            let (s1, s2) = (Arc::clone(&st), Arc::clone(&st));
            let (reached, bfin) = interleave("store.set_prop.after_index", move || { s1.set_node_property(n, "k", Value::Int64(1)); }, move || { s2.remove_node_property(n, "k"); });
            finish(reached, bfin, walk_lpg(&st, &["A"], &["k"]))
        } },
        Pre { name: "create_edge||delete_all_edges", site: "store.create_edge.after_primary", run: || {
            let st = Arc::new(LpgStore::new());
            let a = st.create_node(&["A"]);
            let b = st.create_node(&["A"]);
            let (s1, s2) = (Arc::clone(&st), Arc::clone(&st));
            let (reached, bfin) = interleave("store.create_edge.after_primary", move || { s1.create_edge(a, b, "R"); }, move || {
                let ids: Vec<EdgeId> = s2.all_edges().map(|e| e.id).collect();
                for e in ids { s2.delete_edge(e); }
            });
            finish(reached, bfin, walk_lpg(&st, &["A"], &[]))
        } },
        Pre { name: "create_node||delete_labelled_nodes", site: "store.create_node.after_label_index", run: || {
            let st = Arc::new(LpgStore::new());
            let (s1, s2) = (Arc::clone(&st), Arc::clone(&st));
            let (reached, bfin) = interleave("store.create_node.after_label_index", move || { s1.create_node(&["A"]); }, move || {
                for n in s2.nodes_by_label("A") { s2.delete_node(n); }
            });
            finish(reached, bfin, walk_lpg(&st, &["A"], &[]))
        } },
        Pre { name: "create_node||delete_labelled_nodes(2)", site: "store.create_node.after_node_labels", run: || {
            let st = Arc::new(LpgStore::new());
            let (s1, s2) = (Arc::clone(&st), Arc::clone(&st));
            let (reached, bfin) = interleave("store.create_node.after_node_labels", move || { s1.create_node(&["A"]); }, move || {
                for n in s2.nodes_by_label("A") { s2.delete_node(n); s2.add_label(n, "B"); }
            });
            finish(reached, bfin, walk_lpg(&st, &["A", "B"], &[]))
        } },
        Pre { name: "delete_node||set_prop(indexed)", site: "store.delete_node.after_release", run: || {
            let st = Arc::new(LpgStore::new());
            let n = st.create_node(&["A"]);
            st.set_node_property(n, "k", Value::Int64(0));
            st.create_property_index("k");
            let (s1, s2) = (Arc::clone(&st), Arc::clone(&st));
            let (reached, bfin) = interleave("store.delete_node.after_release", move || { s1.delete_node(n); }, move || { s2.set_node_property(n, "k", Value::Int64(3)); });
            finish(reached, bfin, walk_lpg(&st, &["A"], &["k"]))
        } },
        Pre { name: "rdf_insert||rdf_remove", site: "rdf.insert.after_primary", run: || {
            let st = Arc::new(RdfStore::new());
            let t = universe()[0].clone();
            let (s1, s2, t1, t2) = (Arc::clone(&st), Arc::clone(&st), t.clone(), t.clone());
            let (reached, bfin) = interleave("rdf.insert.after_primary", move || { s1.insert(t1); }, move || { s2.remove(&t2); });
            finish(reached, bfin, walk_rdf(&st))
        } },
        Pre { name: "rdf_remove||rdf_insert", site: "rdf.remove.after_primary", run: || {
            let st = Arc::new(RdfStore::new());
            let t = universe()[0].clone();
            st.insert(t.clone());
            let (s1, s2, t1, t2) = (Arc::clone(&st), Arc::clone(&st), t.clone(), t.clone());
            let (reached, bfin) = interleave("rdf.remove.after_primary", move || { s1.remove(&t1); }, move || { s2.insert(t2); });
            finish(reached, bfin, walk_rdf(&st))
        } },
        Pre { name: "rdf_insert||rdf_insert", site: "rdf.insert.after_primary", run: || {
            let st = Arc::new(RdfStore::new());
            let t = universe()[0].clone();
            let (s1, s2, t1, t2) = (Arc::clone(&st), Arc::clone(&st), t.clone(), t.clone());
            let (reached, bfin) = interleave("rdf.insert.after_primary", move || { s1.insert(t1); }, move || { s2.insert(t2); });
            finish(reached, bfin, walk_rdf(&st))
        } },
        Pre { name: "rdf_insert||rdf_insert(check gap)", site: "rdf.insert.after_check", run: || {
            // A has passed the unlocked "already there?" check and parks; B inserts the same triple
            let st = Arc::new(RdfStore::new());
            let t = universe()[0].clone();
            let (s1, s2, t1, t2) = (Arc::clone(&st), Arc::clone(&st), t.clone(), t.clone());
            let acks = Arc::new(AtomicU64::new(0));
            let (a1, a2) = (Arc::clone(&acks), Arc::clone(&acks));
            let (reached, bfin) = interleave("rdf.insert.after_check", move || { if s1.insert(t1) { a1.fetch_add(1, Ordering::SeqCst); } }, move || { if s2.insert(t2) { a2.fetch_add(1, Ordering::SeqCst); } });
            let mut bad = walk_rdf(&st);
            if acks.load(Ordering::SeqCst) != 1 {
                bad.push(format!("same_triple_acknowledged_as_new_{}_times", acks.load(Ordering::SeqCst)));
            }
            finish(reached, bfin, bad)
        } },
        Pre { name: "rdf_insert||rdf_remove(check gap)", site: "rdf.insert.after_check", run: || {
            let st = Arc::new(RdfStore::new());
            let t = universe()[0].clone();
            st.insert(universe()[1].clone());
            let (s1, s2, t1, t2) = (Arc::clone(&st), Arc::clone(&st), t.clone(), t.clone());
            let (reached, bfin) = interleave("rdf.insert.after_check", move || { s1.insert(t1); }, move || { s2.insert(t2.clone()); s2.remove(&t2); });
            finish(reached, bfin, walk_rdf(&st))
        } },
        Pre { name: "create_node(new label)||create_node(new label)", site: "store.label_id.after_fast_path", run: || {
            let st = Arc::new(LpgStore::new());
            let (s1, s2) = (Arc::clone(&st), Arc::clone(&st));
            let (reached, bfin) = interleave("store.label_id.after_fast_path", move || { s1.create_node(&["Z"]); }, move || { s2.create_node(&["Z"]); s2.create_node(&["Y"]); });
            let mut bad = walk_lpg(&st, &["Z", "Y"], &[]);
            if st.nodes_by_label("Z").len() != 2 || st.nodes_by_label("Y").len() != 1 {
                bad.push("label_lookup_misses_acknowledged_node".to_string());
            }
            finish(reached, bfin, bad)
        } },
        Pre { name: "create_edge(new type)||create_edge(new type)", site: "store.edge_type_id.after_fast_path", run: || {
            let st = Arc::new(LpgStore::new());
            let a = st.create_node(&["A"]);
            let b = st.create_node(&["A"]);
            let (s1, s2) = (Arc::clone(&st), Arc::clone(&st));
            let (reached, bfin) = interleave("store.edge_type_id.after_fast_path", move || { s1.create_edge(a, b, "T"); }, move || { s2.create_edge(b, a, "T"); s2.create_edge(b, a, "U"); });
            let mut bad = walk_lpg(&st, &["A"], &[]);
            let types: Vec<String> = st.all_edges().map(|e| e.edge_type.to_string()).collect();
            if types.iter().filter(|t| t.as_str() == "T").count() != 2 || types.iter().filter(|t| t.as_str() == "U").count() != 1 {
                bad.push("edge_type_of_acknowledged_edge_wrong".to_string());
            }
            if st.edges_with_type("T").count() != 2 || st.edges_with_type("U").count() != 1 {
                bad.push("edges_with_type_disagrees_with_edges".to_string());
            }
            finish(reached, bfin, bad)
        } },
        Pre { name: "stats_refresh||create_node", site: "store.stats.after_counts", run: || {
            // A refreshes the statistics and parks after it has taken the counts; B mutates. The
            // refresh A publishes is stale by one node - legitimate - but the store must still know
            // that its statistics are stale: the next refresh has to bring them up to date.
            let st = Arc::new(LpgStore::new());
            st.create_node(&["A"]);
            let (s1, s2) = (Arc::clone(&st), Arc::clone(&st));
            let (reached, bfin) = interleave("store.stats.after_counts", move || { s1.ensure_statistics_fresh(); }, move || { let n = s2.create_node(&["A"]); let m = s2.create_node(&["A"]); s2.create_edge(n, m, "R"); });
            st.ensure_statistics_fresh();
            let stats = st.statistics();
            let mut bad = walk_lpg(&st, &["A"], &[]);
            if stats.total_nodes != st.node_count() as u64 || stats.total_edges != st.edge_count() as u64 {
                bad.push("statistics_stale_after_refresh".to_string());
            }
            finish(reached, bfin, bad)
        } },
        Pre { name: "catalog_get_or_create||catalog_get_or_create", site: "catalog.label.after_fast_path", run: || {
            let c = Arc::new(grafeo_engine::Catalog::new());
            let (c1, c2) = (Arc::clone(&c), Arc::clone(&c));
            let ids: Arc<parking_lot::Mutex<Vec<u32>>> = Arc::new(parking_lot::Mutex::new(Vec::new()));
            let (i1, i2) = (Arc::clone(&ids), Arc::clone(&ids));
            let (reached, bfin) = interleave("catalog.label.after_fast_path", move || { let id = c1.get_or_create_label("L"); i1.lock().push(id.as_u32()); }, move || { let id = c2.get_or_create_label("L"); i2.lock().push(id.as_u32()); let other = c2.get_or_create_label("M"); i2.lock().push(1000 + other.as_u32()); });
            let v = ids.lock().clone();
            let mut bad = Vec::new();
            let l: Vec<u32> = v.iter().copied().filter(|x| *x < 1000).collect();
            let m: Vec<u32> = v.iter().copied().filter(|x| *x >= 1000).map(|x| x - 1000).collect();
            if l.len() != 2 || l[0] != l[1] {
                bad.push("one_name_two_ids".to_string());
            }
            if m.len() == 1 && l.contains(&m[0]) {
                bad.push("two_names_one_id".to_string());
            }
            if c.get_label_id("L").map(|x| x.as_u32()) != l.first().copied() || c.get_label_name(grafeo_common::types::LabelId::new(*l.first().unwrap_or(&0))).as_deref() != Some("L") {
                bad.push("catalog_lookup_disagrees_with_returned_id".to_string());
            }
            finish(reached, bfin, bad)
        } },
        Pre { name: "buffer_allocate||buffer_allocate", site: "buf.try_allocate.between_check_and_add", run: || {
            let bm = BufferManager::with_budget(1000);
            // the hard limit is a fraction of the budget (public in the config)
            let hard = (bm.config().budget as f64 * bm.config().hard_limit_fraction) as usize;
            let (b1, b2) = (Arc::clone(&bm), Arc::clone(&bm));
            // two requests that fit one at a time, whose sum lies between the hard limit and the budget
            let size = (hard + bm.config().budget) / 4 + 1;
            let g1: Arc<parking_lot::Mutex<Option<grafeo_common::memory::buffer::MemoryGrant>>> = Arc::new(parking_lot::Mutex::new(None));
            let g2 = Arc::clone(&g1);
            let held: Arc<parking_lot::Mutex<Option<grafeo_common::memory::buffer::MemoryGrant>>> = Arc::new(parking_lot::Mutex::new(None));
            let held2 = Arc::clone(&held);
            let (reached, bfin) = interleave("buf.try_allocate.between_check_and_add", move || { *g2.lock() = b1.try_allocate(size, MemoryRegion::ExecutionBuffers); }, move || { *held2.lock() = b2.try_allocate(size, MemoryRegion::ExecutionBuffers); });
            let mut bad = Vec::new();
            let granted = g1.lock().as_ref().map_or(0, |g| g.size()) + held.lock().as_ref().map_or(0, |g| g.size());
            if granted > hard {
                bad.push("granted_more_than_hard_limit".to_string());
            }
            *g1.lock() = None;
            *held.lock() = None;
            if bm.allocated() != 0 {
                bad.push("allocated_not_zero_after_release".to_string());
            }
            finish(reached, bfin, bad)
        } },
        Pre { name: "buffer_allocate||buffer_allocate(large)", site: "buf.try_allocate.between_check_and_add", run: || {
            let bm = BufferManager::with_budget(1000);
            let hard = (bm.config().budget as f64 * bm.config().hard_limit_fraction) as usize;
            let (b1, b2) = (Arc::clone(&bm), Arc::clone(&bm));
            let size = hard * 6 / 10;
            let g1: Arc<parking_lot::Mutex<Option<grafeo_common::memory::buffer::MemoryGrant>>> = Arc::new(parking_lot::Mutex::new(None));
            let g2 = Arc::clone(&g1);
            let held: Arc<parking_lot::Mutex<Option<grafeo_common::memory::buffer::MemoryGrant>>> = Arc::new(parking_lot::Mutex::new(None));
            let held2 = Arc::clone(&held);
            let (reached, bfin) = interleave("buf.try_allocate.between_check_and_add", move || { *g2.lock() = b1.try_allocate(size, MemoryRegion::ExecutionBuffers); }, move || { *held2.lock() = b2.try_allocate(size, MemoryRegion::ExecutionBuffers); });
            let mut bad = Vec::new();
            let granted = g1.lock().as_ref().map_or(0, |g| g.size()) + held.lock().as_ref().map_or(0, |g| g.size());
            if granted > hard {
                bad.push("granted_more_than_hard_limit".to_string());
            }
            *g1.lock() = None;
            *held.lock() = None;
            if bm.allocated() != 0 {
                bad.push("allocated_not_zero_after_release".to_string());
            }
            finish(reached, bfin, bad)
        } },
        Pre { name: "begin||commit+gc", site: "txmgr.begin.between_epoch_and_insert", run: || {
            let tm = Arc::new(TransactionManager::new());
            let (t1, t2) = (Arc::clone(&tm), Arc::clone(&tm));
            // (start epoch of A, commit epoch of A) and commit epoch of B, as returned by the API
            let out: Arc<parking_lot::Mutex<(Option<u64>, Option<u64>, Option<u64>)>> = Arc::new(parking_lot::Mutex::new((None, None, None)));
            let (o1, o2) = (Arc::clone(&out), Arc::clone(&out));
            let (reached, bfin) = interleave("txmgr.begin.between_epoch_and_insert", move || {
                // A: begin (parked inside begin), then write X, commit
                let a = t1.begin();
                let start = t1.start_epoch(a).map(|e| e.as_u64());
                let _ = t1.record_write(a, NodeId::new(7));
                let r = t1.commit(a).ok().map(|e| e.as_u64());
                let mut o = o1.lock();
                o.0 = start;
                o.1 = r;
            }, move || {
                // B: a transaction that writes X and commits while A is inside begin, then gc
                let b = t2.begin();
                let _ = t2.record_write(b, NodeId::new(7));
                o2.lock().2 = t2.commit(b).ok().map(|e| e.as_u64());
                t2.gc();
            });
            let mut bad = Vec::new();
            let o = out.lock();
            // first committer wins, decided from the epochs the API itself reported: if B committed
            // after A's snapshot was taken (commit epoch > A's start epoch) and before A, A must be refused
            if let (Some(a_start), Some(a_commit), Some(b_commit)) = (o.0, o.1, o.2) {
                if b_commit > a_start && b_commit < a_commit {
                    bad.push("lost_update_both_overlapping_writers_of_one_entity_committed".to_string());
                }
            }
            finish(reached, bfin, bad)
        } },
    ]
}

fn finish(reached: bool, b_finished: bool, bad: Vec<String>) -> Vec<String> {
    if !reached {
        return vec!["SITE_NOT_REACHED".into()];
    }
    // B blocking on a lock that the parked A holds is mutual exclusion doing its job, not a
    // violation; both complete once A is released and the invariants are judged afterwards
    let _ = b_finished;
    bad
}

// ---------------------------------------------------------------- (B) stress

#[derive(Default)]
struct ThreadLog {
    nodes_created: Vec<u64>,
    nodes_deleted: Vec<u64>,
    edges_created: Vec<u64>,
    edges_deleted: Vec<u64>,
    commit_epochs: Vec<u64>,
}

static CURRENT_OP: [AtomicU64; 16] = [const { AtomicU64::new(0) }; 16];
const OPS: &[&str] = &["idle", "create_node", "add_label", "remove_label", "set_prop", "remove_prop", "create_edge", "delete_edge", "delete_node", "scan", "stats", "index", "tx"];

fn stress_lpg(rep: &mut Report, seed: u64, case: u64, threads: usize, ops: usize, mix: &'static str) {
    let st = Arc::new(LpgStore::new());
    let tm = Arc::new(TransactionManager::new());
    let shared: Vec<NodeId> = (0..4).map(|_| st.create_node(&["S"])).collect();
    st.create_property_index("k");
    let progress = Arc::new(AtomicU64::new(0));
    let logs: Arc<parking_lot::Mutex<Vec<ThreadLog>>> = Arc::new(parking_lot::Mutex::new(Vec::new()));
    let panics: Arc<parking_lot::Mutex<Vec<String>>> = Arc::new(parking_lot::Mutex::new(Vec::new()));
    let finished = Arc::new(AtomicU64::new(0));
    hooks::CHAOS_SEED.store(seed ^ case.wrapping_mul(0x9E37_79B9) | 1, Ordering::SeqCst);
    let mut handles = Vec::new();
    for t in 0..threads {
        let (st, tm, shared, progress, logs, panics, finished) = (Arc::clone(&st), Arc::clone(&tm), shared.clone(), Arc::clone(&progress), Arc::clone(&logs), Arc::clone(&panics), Arc::clone(&finished));
        handles.push(std::thread::spawn(move || {
            let mut r = Rng::new(seed, "C20.stress", case * 64 + t as u64);
            let mut log = ThreadLog::default();
            let mut own: Vec<NodeId> = Vec::new();
            let mut own_edges: Vec<EdgeId> = Vec::new();
            let res = catch(|| {
                for _ in 0..ops {
                    let op = match mix {
                        "labels_vs_delete" => *r.pick(&[1usize, 2, 2, 3, 8, 9]),
                        "props_index" => *r.pick(&[1usize, 4, 4, 5, 8, 9, 11]),
                        "edges" => *r.pick(&[1usize, 6, 6, 7, 8, 9]),
                        "tx" => *r.pick(&[12usize, 12, 1, 9]),
                        _ => 1 + r.below(12),
                    };
                    CURRENT_OP[t].store(op as u64, Ordering::Relaxed);
                    match op {
                        1 => {
                            let id = st.create_node(&[*r.pick(&["A", "B"])]);
                            log.nodes_created.push(id.as_u64());
                            own.push(id);
                        }
                        2 => {
                            let n = if r.chance(0.5) && !own.is_empty() { *r.pick(&own) } else { *r.pick(&shared) };
                            st.add_label(n, *r.pick(&["A", "B", "C"]));
                        }
                        3 => {
                            let n = if r.chance(0.5) && !own.is_empty() { *r.pick(&own) } else { *r.pick(&shared) };
                            st.remove_label(n, *r.pick(&["A", "B", "C"]));
                        }
                        4 => {
                            let n = if r.chance(0.5) && !own.is_empty() { *r.pick(&own) } else { *r.pick(&shared) };
                            st.set_node_property(n, "k", Value::Int64(r.range(0, 5)));
                        }
                        5 => {
                            let n = if r.chance(0.5) && !own.is_empty() { *r.pick(&own) } else { *r.pick(&shared) };
                            st.remove_node_property(n, "k");
                        }
                        6 => {
                            let a = if r.chance(0.5) && !own.is_empty() { *r.pick(&own) } else { *r.pick(&shared) };
                            let b = *r.pick(&shared);
                            let e = st.create_edge(a, b, "R");
                            log.edges_created.push(e.as_u64());
                            own_edges.push(e);
                        }
                        7 => {
                            if !own_edges.is_empty() {
                                let i = r.below(own_edges.len());
                                let e = own_edges.swap_remove(i);
                                if st.delete_edge(e) {
                                    log.edges_deleted.push(e.as_u64());
                                }
                            }
                        }
                        8 => {
                            // delete one of the thread's own nodes (detach first)
                            if !own.is_empty() {
                                let i = r.below(own.len());
                                let n = own.swap_remove(i);
                                st.delete_node_edges(n);
                                if st.delete_node(n) {
                                    log.nodes_deleted.push(n.as_u64());
                                }
                            }
                        }
                        9 => {
                            let _ = st.nodes_by_label("A").len() + st.node_count() + st.all_edges().count();
                            let _ = st.find_nodes_by_property("k", &Value::Int64(1));
                        }
                        10 => {
                            st.compute_statistics();
                        }
                        11 => {
                            if r.chance(0.5) {
                                st.create_property_index("k");
                            } else {
                                st.drop_property_index("k");
                            }
                        }
                        _ => {
                            let tx = tm.begin();
                            let _ = tm.record_write(tx, NodeId::new(1000 + t as u64 * 1000 + r.below(1000) as u64));
                            if let Ok(e) = tm.commit(tx) {
                                log.commit_epochs.push(e.as_u64());
                            }
                            if r.chance(0.2) {
                                tm.gc();
                            }
                        }
                    }
                    progress.fetch_add(1, Ordering::Relaxed);
                }
            });
            if let Err(p) = res {
                panics.lock().push(p.site);
            }
            CURRENT_OP[t].store(0, Ordering::Relaxed);
            logs.lock().push(log);
            finished.fetch_add(1, Ordering::SeqCst);
        }));
    }
    // watchdog: no progress for a long while with unfinished workers => deadlock suspected
    let mut last = 0u64;
    let mut stalled_since = Instant::now();
    let mut deadlock: Option<Vec<&str>> = None;
    while finished.load(Ordering::SeqCst) < threads as u64 {
        std::thread::sleep(Duration::from_millis(20));
        let p = progress.load(Ordering::Relaxed);
        if p != last {
            last = p;
            stalled_since = Instant::now();
        } else if stalled_since.elapsed() > Duration::from_secs(20) {
            let mut ops: Vec<&str> = (0..threads).map(|t| OPS[CURRENT_OP[t].load(Ordering::Relaxed) as usize]).filter(|o| *o != "idle").collect();
            ops.sort_unstable();
            ops.dedup();
            deadlock = Some(ops);
            break;
        }
    }
    hooks::CHAOS_SEED.store(0, Ordering::SeqCst);
    rep.eval();
    rep.count(&format!("stress.lpg.{mix}"), 1);
    rep.count("stress.operations", progress.load(Ordering::Relaxed));
    if let Some(ops) = deadlock {
        // the stuck threads cannot be joined; leak them (the process exits at the end of the run)
        std::mem::forget(handles);
        rep.deviation(&format!("stress:deadlock|mix={mix}"), json!({"mix": mix, "threads": threads, "stuck_in": ops, "case": case, "note": "no operation completed anywhere for 20 s while workers were unfinished; attach gdb to a replay (./check C20 --seed N) for the stacks"}));
        return;
    }
    for h in handles {
        let _ = h.join();
    }
    for site in panics.lock().iter() {
        rep.deviation(&format!("stress:panic@{site}"), json!({"mix": mix, "case": case}));
    }
    let logs = logs.lock();
    // id uniqueness
    let mut seen = BTreeSet::new();
    for l in logs.iter() {
        for id in &l.nodes_created {
            if !seen.insert(*id) || shared.iter().any(|s| s.as_u64() == *id) {
                rep.deviation("stress:duplicate_node_id", json!({"id": id, "mix": mix}));
            }
        }
    }
    let mut eseen = BTreeSet::new();
    for l in logs.iter() {
        for id in &l.edges_created {
            if !eseen.insert(*id) {
                rep.deviation("stress:duplicate_edge_id", json!({"id": id, "mix": mix}));
            }
        }
    }
    // acknowledged creations are there unless their owner deleted them
    let live: BTreeSet<u64> = st.node_ids().iter().map(|n| n.as_u64()).collect();
    let elive: BTreeSet<u64> = st.all_edges().map(|e| e.id.as_u64()).collect();
    for l in logs.iter() {
        let del: BTreeSet<u64> = l.nodes_deleted.iter().copied().collect();
        for id in &l.nodes_created {
            if del.contains(id) == live.contains(id) {
                rep.deviation(if del.contains(id) { "stress:deleted_node_still_there" } else { "stress:acknowledged_node_lost" }, json!({"id": id, "mix": mix}));
            }
        }
        let edel: BTreeSet<u64> = l.edges_deleted.iter().copied().collect();
        for id in &l.edges_created {
            // an edge may also have been removed by its source owner's detach-delete
            if !edel.contains(id) && !elive.contains(id) {
                let by_detach = true; // delete_node_edges of either endpoint's owner may have removed it
                if !by_detach {
                    rep.deviation("stress:acknowledged_edge_lost", json!({"id": id, "mix": mix}));
                }
            }
            if edel.contains(id) && elive.contains(id) {
                rep.deviation("stress:deleted_edge_still_there", json!({"id": id, "mix": mix}));
            }
        }
    }
    // commit epochs: unique overall, increasing per thread
    let mut eps = BTreeSet::new();
    for l in logs.iter() {
        if !l.commit_epochs.windows(2).all(|w| w[0] < w[1]) {
            rep.deviation("stress:commit_epochs_not_increasing", json!({"mix": mix}));
        }
        for e in &l.commit_epochs {
            if !eps.insert(*e) {
                rep.deviation("stress:duplicate_commit_epoch", json!({"epoch": e, "mix": mix}));
            }
        }
    }
    for b in walk_lpg(&st, &["A", "B", "C", "S"], &["k"]) {
        rep.deviation(&format!("stress:lpg.{b}|mix={mix}"), json!({"threads": threads, "ops_per_thread": ops, "case": case}));
    }
    rep.nontrivial(hash_str(&format!("lpg{case}{mix}{threads}")));
}

fn stress_rdf_buffer(rep: &mut Report, seed: u64, case: u64, threads: usize, ops: usize) {
    let st = Arc::new(RdfStore::new());
    let bm = BufferManager::with_budget(10_000);
    let hard = (bm.config().budget as f64 * bm.config().hard_limit_fraction) as u64;
    let outstanding = Arc::new(AtomicU64::new(0));
    let over = Arc::new(AtomicU64::new(0));
    hooks::CHAOS_SEED.store(seed ^ case.wrapping_mul(0x51ED_2701) | 1, Ordering::SeqCst);
    let mut hs = Vec::new();
    let panics: Arc<parking_lot::Mutex<Vec<String>>> = Arc::new(parking_lot::Mutex::new(Vec::new()));
    for t in 0..threads {
        let (st, bm, outstanding, over, panics) = (Arc::clone(&st), Arc::clone(&bm), Arc::clone(&outstanding), Arc::clone(&over), Arc::clone(&panics));
        hs.push(std::thread::spawn(move || {
            let mut r = Rng::new(seed, "C20.rdf", case * 64 + t as u64);
            let u = universe();
            let res = catch(|| {
                let mut grants = Vec::new();
                for _ in 0..ops {
                    match r.below(5) {
                        0 | 1 => {
                            st.insert(r.pick(&u).clone());
                        }
                        2 => {
                            st.remove(r.pick(&u));
                        }
                        3 => {
                            let size = 1000 + r.below(4000);
                            if let Some(g) = bm.try_allocate(size, MemoryRegion::ExecutionBuffers) {
                                // conservative live counter: add after the grant, subtract before the release
                                let now = outstanding.fetch_add(size as u64, Ordering::SeqCst) + size as u64;
                                if now > hard {
                                    over.fetch_max(now, Ordering::SeqCst);
                                }
                                grants.push(g);
                            }
                        }
                        _ => {
                            if !grants.is_empty() {
                                let g = grants.swap_remove(r.below(grants.len()));
                                outstanding.fetch_sub(g.size() as u64, Ordering::SeqCst);
                                drop(g);
                            }
                        }
                    }
                }
                for g in grants.drain(..) {
                    outstanding.fetch_sub(g.size() as u64, Ordering::SeqCst);
                    drop(g);
                }
            });
            if let Err(p) = res {
                panics.lock().push(p.site);
            }
        }));
    }
    let t0 = Instant::now();
    for h in hs {
        // a generous watchdog: the operations are microseconds each
        while !h.is_finished() && t0.elapsed() < Duration::from_secs(60) {
            std::thread::sleep(Duration::from_millis(5));
        }
        if !h.is_finished() {
            rep.deviation("stress:rdf_buffer_deadlock", json!({"case": case}));
            hooks::CHAOS_SEED.store(0, Ordering::SeqCst);
            return;
        }
        let _ = h.join();
    }
    hooks::CHAOS_SEED.store(0, Ordering::SeqCst);
    rep.eval();
    rep.count("stress.rdf_buffer", 1);
    for site in panics.lock().iter() {
        rep.deviation(&format!("stress:panic@{site}"), json!({"case": case}));
    }
    if over.load(Ordering::SeqCst) > 0 {
        rep.deviation("stress:buffer.granted_more_than_hard_limit", json!({"hard_limit": hard, "outstanding_seen": over.load(Ordering::SeqCst)}));
    }
    if bm.allocated() != 0 {
        rep.deviation("stress:buffer.allocated_not_zero_after_release", json!({"allocated": bm.allocated()}));
    }
    for b in walk_rdf(&st) {
        rep.deviation(&format!("stress:rdf.{b}"), json!({"threads": threads, "case": case}));
    }
    rep.nontrivial(hash_str(&format!("rdf{case}{threads}")));
}

pub fn run(tier: Tier, seed: u64) -> ! {
    let mut rep = Report::new("C20", tier, seed, "exploration");
    rep.rule = "(A) directed two-thread preemption matrix: operation A is parked at a yield point between two of its critical sections (hook sites in create_node / add_label / set_node_property / delete_node / create_edge / triple insert+remove / buffer try_allocate / transaction begin) while operation B on the same entity runs to completion, then A resumes; afterwards walkers compare every derived structure (label index, adjacency both directions, property index, triple indexes, find vs contains) with the primary data, the buffer manager's grants with its hard limit, and the commit decisions with first-committer-wins. Each scenario is repeated; a scenario whose site was never reached is inconclusive. (B) 4-16 threads x seeded operation mixes on shared and thread-owned entities with chaos delays (spin / yield / sleep) at every yield point; judged after join: unique ids, no lost acknowledged creation, index agreement, unique + per-thread increasing commit epochs, grant conservation (conservative live counter), panics, and a progress watchdog for deadlocks. non-trivial = each preemption scenario whose site was reached, and each stress run".into();
    hooks::COUNT_HITS.store(true, Ordering::SeqCst);
    // (A)
    let reps = tier.pick(5, 100);
    for sc in pre_scenarios() {
        let mut outcomes: BTreeMap<String, u64> = BTreeMap::new();
        for _ in 0..reps {
            rep.eval();
            let bad = (sc.run)();
            let key = if bad.is_empty() { "ok".to_string() } else { bad.join("+") };
            *outcomes.entry(key).or_default() += 1;
        }
        rep.count(&format!("preempt.{}", sc.name), reps as u64);
        for (o, n) in &outcomes {
            if o == "SITE_NOT_REACHED" {
                rep.inconclusive(&format!("preemption site {} never reached in scenario {}", sc.site, sc.name));
            } else {
                rep.nontrivial(hash_str(&format!("{}{}", sc.name, o)));
                if o != "ok" {
                    rep.deviation(&format!("preempt:{}@{}={}", sc.name, sc.site, o), json!({"scenario": sc.name, "parked_at": sc.site, "broken": o, "times": n, "of": reps}));
                }
            }
        }
        rep.sample(json!({"scenario": sc.name, "A_parked_at": sc.site, "outcomes": outcomes}));
    }
    // (B)
    let runs = tier.pick(3, 20);
    for case in 0..runs {
        for mix in ["labels_vs_delete", "props_index", "edges", "tx", "all"] {
            let threads = *[4usize, 8, 16].get(case as usize % 3).unwrap();
            stress_lpg(&mut rep, seed, case as u64, threads, tier.pick(1500, 4_000), mix);
        }
        stress_rdf_buffer(&mut rep, seed, case as u64, 4 + (case as usize % 3) * 4, tier.pick(3000, 30_000));
    }
    let hits = hooks::hits();
    rep.extra.insert("yield_site_hits".into(), json!(hits));
    rep.assumptions = vec![
        "interleavings are forced only at the hooked sites (one preemption per scenario) and sampled by chaos delays elsewhere; nothing is claimed about schedules inside dashmap/parking_lot".into(),
        "data races / UB are the sanitizer overlays' business (scripts/tsan.sh, scripts/miri.sh, thorough tier)".into(),
    ];
    rep.finish()
}
