//! C17 — parallel, push-based and spilling execution equal sequential execution.
//!
//! One logical pipeline (chain of 1–4 operators) and one input table are evaluated by a plain
//! Vec-based reference (`c17_ref.rs`) and by every execution configuration the crate offers
//! (`c17_run.rs`): pull `Operator` tree, push `Pipeline`, pull prefix + push suffix through
//! `OperatorSource`, `ParallelPipeline` (workers 1..16, every pressure level = morsel size, several
//! chunk sizes) merged with the crate's own merge functions, spillable sort / aggregate push
//! operators, `ExternalSort`, `PartitionedState`. Outputs are compared as multisets (sortedness +
//! multiset for sorts; count + inclusion where row identity is undefined). Every failing case is
//! shrunk (operators, operator parameters, rows, columns) and the signature is built from the
//! shrunk witness: configuration class | operator skeleton | mismatch kind.

#[path = "c17_ref.rs"]
mod refm;
#[path = "c17_run.rs"]
mod runm;
#[path = "c17_direct.rs"]
mod direct;

use crate::report::{Report, Tier};
use crate::rng::{Rng, hash_str};
use crate::util::catch;
use crate::vals;
use grafeo_common::types::Value;
use refm::*;
use runm::*;
use serde_json::{Value as J, json};
use std::collections::HashMap;

// ---------------------------------------------------------------------------------------------
// events (cases are judged on several harness threads; events are merged in case order)
// ---------------------------------------------------------------------------------------------

pub enum Ev {
    Eval(u64),
    Nontrivial(u64),
    Count(String, u64),
    Dev(String, J),
    Sample(J),
    Inconclusive(String),
}

#[derive(Default)]
pub struct Ctx {
    pub ev: Vec<Ev>,
    pub reduce_budget: usize,
}

impl Ctx {
    pub fn count(&mut self, k: &str, n: u64) {
        self.ev.push(Ev::Count(k.to_string(), n));
    }
    pub fn eval(&mut self) {
        self.ev.push(Ev::Eval(1));
    }
    pub fn dev(&mut self, sig: &str, d: J) {
        self.ev.push(Ev::Dev(sig.to_string(), d));
    }
}

// ---------------------------------------------------------------------------------------------
// judging one (table, chain, configuration)
// ---------------------------------------------------------------------------------------------

#[derive(Clone)]
pub struct Case {
    pub table: Table,
    pub chain: Vec<Op>,
    pub cfg: Cfg,
}

#[derive(Clone, Debug)]
pub struct Mis {
    /// coarse category used while shrinking: rows / error / panic@site / hang / spill
    pub cat: String,
    /// full mismatch kind (goes into the signature)
    pub kind: String,
    pub detail: J,
}

/// Run the case once per repetition; first mismatch wins. `None` = all repetitions agreed.
pub fn judge(case: &Case, stats: Option<&mut Ctx>) -> Option<Mis> {
    judge_reps(case, stats, usize::MAX)
}

pub fn judge_reps(case: &Case, stats: Option<&mut Ctx>, max_reps: usize) -> Option<Mis> {
    let plan = case.cfg.plan(&case.chain);
    let Some(plan) = plan else { return None };
    let r = ref_eval(&case.table.rows, &case.chain[..plan.len], plan.unordered_from);
    let used = r.used;
    let chain = &case.chain[..used];
    let reps = case.cfg.reps().min(max_reps);
    let mut orders = std::collections::HashSet::new();
    let mut out_mis = None;
    let mut info = 0u64;
    for _ in 0..reps {
        let res = run_cfg(&case.cfg, &case.table, chain);
        let mis = match res {
            Outcome::Rows { rows, order_hash, leftover } => {
                orders.insert(order_hash);
                info = order_hash;
                if let Some(files) = leftover {
                    Some(Mis {
                        cat: "spill".into(),
                        kind: "spill_files_left".into(),
                        detail: json!({"files": files}),
                    })
                } else {
                    compare(&rows, &r).map(|(kind, detail)| Mis { cat: "rows".into(), kind, detail })
                }
            }
            Outcome::Error(e) => Some(Mis { cat: "error".into(), kind: format!("error:{}", err_class(&e)), detail: json!({"error": e}) }),
            Outcome::Panic(p) => Some(Mis {
                cat: format!("panic@{}", panic_file(&p.site)),
                kind: format!("panic@{}", panic_file(&p.site)),
                detail: json!({"at": p.at, "msg": p.msg}),
            }),
            Outcome::Hang(w) => Some(Mis { cat: "hang".into(), kind: "no_termination".into(), detail: json!({"where": w}) }),
            Outcome::NotApplicable => return None,
        };
        if mis.is_some() {
            out_mis = mis;
            break;
        }
    }
    if let Some(c) = stats {
        c.count(&format!("runs.{}", case.cfg.variant()), reps as u64);
        match &case.cfg {
            Cfg::Par { workers, pressure, chunk, .. } => {
                c.count("par.distinct_output_chunk_orders_seen", orders.len() as u64);
                c.count(&format!("par.workers.{workers:02}"), 1);
                c.count(&format!("par.morsel_size.{}", [65536, 32768, 16384, 1024][*pressure as usize & 3]), 1);
                c.count(&format!("par.chunk_size.{chunk}"), 1);
            }
            Cfg::SpillSort { threshold, .. } | Cfg::SpillAgg { threshold, .. } => {
                c.count(&format!("{}.spill_files_created", case.cfg.variant()), info);
                c.count(&format!("{}.cases_that_spilled", case.cfg.variant()), u64::from(info > 0));
                c.count(
                    &format!("{}.threshold.{}", case.cfg.variant(), match *threshold { 0 | 1 => "always", usize::MAX => "never", _ => "some" }),
                    1,
                );
            }
            _ => {}
        }
    }
    out_mis
}

/// Source file of a panic site (the function-name part of `util::Panic::site` is not always resolvable
/// under load; the file is).
pub fn panic_file(site: &str) -> String {
    match site.find(".rs") {
        Some(p) => site[..p + 3].to_string(),
        None => site.to_string(),
    }
}

fn err_class(e: &str) -> String {
    // strip numbers so the class is stable
    let s: String = e.chars().map(|c| if c.is_ascii_digit() { '#' } else { c }).collect();
    let mut out = String::new();
    let mut last_hash = false;
    for c in s.chars() {
        if c == '#' {
            if !last_hash {
                out.push('#');
            }
            last_hash = true;
        } else {
            last_hash = false;
            out.push(c);
        }
    }
    out.chars().take(60).collect()
}

// ---------------------------------------------------------------------------------------------
// shrinking
// ---------------------------------------------------------------------------------------------

/// Shrink budget is counted in row-units: a judge call costs the table size (at least 2500), so a
/// budget of 1000 allows few calls on a 100000-row table and up to 1000 on small ones.
const UNIT: usize = 2500;

fn still_fails_p(case: &Case, cat: &str, pinned: Option<&str>, budget: &mut usize) -> Option<Mis> {
    let cost = case.table.rows.len().div_ceil(UNIT).max(1) * if matches!(case.cfg, Cfg::Par { .. }) { 2 } else { 1 };
    if *budget < cost {
        *budget = 0;
        return None;
    }
    *budget -= cost;
    if !chain_valid(&case.table.kinds, &case.chain) {
        return None;
    }
    let m = judge_reps(case, None, 2)?;
    if m.cat != cat {
        return None;
    }
    // a named cell change (e.g. int->float) is a finer identification than "rows differ": once reached,
    // do not trade it for a different one
    if let Some(k) = pinned {
        if m.kind != k {
            return None;
        }
    }
    Some(m)
}

fn identity_project(width: usize) -> Op {
    Op::Project((0..width).map(PItem::Col).collect())
}

struct Shrinker {
    case: Case,
    mis: Mis,
    cat: String,
    budget: usize,
    progress: bool,
}

impl Shrinker {
    fn attempt(&mut self, c: Case) -> bool {
        self.attempt_x(c, true)
    }
    /// `pin`: keep a named cell change once reached (not applied when operators are removed: a shorter
    /// chain is always the better witness)
    fn attempt_x(&mut self, c: Case, pin: bool) -> bool {
        let pinned = if pin && self.mis.kind.starts_with("cell:") { Some(self.mis.kind.clone()) } else { None };
        match still_fails_p(&c, &self.cat, pinned.as_deref(), &mut self.budget) {
            Some(m) => {
                self.case = c;
                self.mis = m;
                self.progress = true;
                true
            }
            None => false,
        }
    }
}

/// Shrink a failing case: configuration first (towards the plain push / pull engines and default
/// settings), then table size shortcuts, operators (drop, inline projections, replace by the identity
/// projection, simplify parameters), rows, columns; repeated to a fixpoint or until the budget of
/// judge calls is spent.
pub fn shrink(case: Case, mis: Mis, budget: usize) -> (Case, Mis) {
    let cat = mis.cat.clone();
    let mut s = Shrinker { case, mis, cat, budget, progress: true };
    while s.progress && s.budget > 0 {
        s.progress = false;
        // 0. configuration
        loop {
            let mut improved = false;
            for alt in s.case.cfg.simpler() {
                let mut c = s.case.clone();
                c.cfg = alt;
                if s.attempt_x(c, false) {
                    improved = true;
                    break;
                }
            }
            if !improved {
                break;
            }
        }
        // 1. table size shortcuts (before anything expensive)
        for cut in [0usize, 1, 2, 8, 64, 2049, 4097] {
            if s.case.table.rows.len() > cut * 2 + 8 {
                let mut c = s.case.clone();
                c.table.rows.truncate(cut);
                if s.attempt(c) {
                    break;
                }
            }
        }
        // 2. drop operators (a projection is inlined into its successors when they refer to it)
        let mut i = 0;
        while i < s.case.chain.len() {
            let mut c = s.case.clone();
            c.chain.remove(i);
            c.cfg = c.cfg.on_remove_op(i);
            if s.attempt_x(c, false) {
                continue;
            }
            if let Some(ch) = inline_project(&s.case.chain, i) {
                let mut c = s.case.clone();
                c.chain = ch;
                c.cfg = c.cfg.on_remove_op(i);
                if s.attempt_x(c, false) {
                    continue;
                }
            }
            i += 1;
        }
        // 2b. materialise a prefix of the chain with the reference and keep only the suffix
        {
            let mut k = s.case.chain.len();
            while k >= 1 {
                if k < s.case.chain.len() {
                    let r = ref_eval(&s.case.table.rows, &s.case.chain[..k], None);
                    if r.used == k && r.approx.is_none() {
                        let mut kinds = s.case.table.kinds.clone();
                        let mut ok = true;
                        for op in &s.case.chain[..k] {
                            match apply_schema(&kinds, op) {
                                Some(k2) => kinds = k2,
                                None => ok = false,
                            }
                        }
                        if ok {
                            let mut cfg = s.case.cfg.clone();
                            for _ in 0..k {
                                cfg = cfg.on_remove_op(0);
                            }
                            let c = Case { table: Table { kinds, rows: r.rows }, chain: s.case.chain[k..].to_vec(), cfg };
                            if s.attempt_x(c, false) {
                                break;
                            }
                        }
                    }
                }
                k -= 1;
            }
        }
        // 3. replace operators by the identity projection (canonical "some operator here")
        {
            let mut kinds = s.case.table.kinds.clone();
            for i in 0..s.case.chain.len() {
                let idp = identity_project(kinds.len());
                let next_kinds = apply_schema(&kinds, &s.case.chain[i]).unwrap_or_else(|| kinds.clone());
                if format!("{:?}", s.case.chain[i]) != format!("{idp:?}") {
                    let mut c = s.case.clone();
                    c.chain[i] = idp;
                    if s.attempt_x(c, false) {
                        continue; // schema unchanged by the identity
                    }
                }
                kinds = next_kinds;
            }
        }
        // 4. replace a column's values by the row number (distinct ints): removes value kinds that do not
        // matter for the failure
        for c in 0..s.case.table.kinds.len() {
            let already = s.case.table.kinds[c] == Kind::Int
                && s.case.table.rows.iter().enumerate().all(|(i, r)| matches!(r[c], Value::Int64(x) if x == i as i64));
            if already || s.case.table.rows.is_empty() {
                continue;
            }
            let mut cse = s.case.clone();
            cse.table.kinds[c] = Kind::Int;
            for (i, r) in cse.table.rows.iter_mut().enumerate() {
                r[c] = Value::Int64(i as i64);
            }
            s.attempt(cse);
        }
        // 5. columns
        let mut c_idx = 0;
        while c_idx < s.case.table.kinds.len() && s.case.table.kinds.len() > 1 {
            if let Some((t, ch)) = drop_column(&s.case.table, &s.case.chain, c_idx) {
                let c = Case { table: t, chain: ch, cfg: s.case.cfg.clone() };
                if s.attempt(c) {
                    continue;
                }
            }
            c_idx += 1;
        }
        // 6. simplify operator parameters
        for i in 0..s.case.chain.len() {
            loop {
                let mut improved = false;
                for alt in s.case.chain[i].simpler() {
                    let mut c = s.case.clone();
                    c.chain[i] = alt;
                    if s.attempt_x(c, false) {
                        improved = true;
                        break;
                    }
                }
                if !improved {
                    break;
                }
            }
        }
        // 7. rows: shortest failing prefix, then longest droppable front (bisection), then single rows
        {
            let n = s.case.table.rows.len();
            let (mut lo, mut hi) = (0usize, n); // prefix(hi) fails (hi == n is the current case)
            while hi - lo > 1 && s.budget > 0 {
                let mid = lo + (hi - lo) / 2;
                let mut c = s.case.clone();
                c.table.rows.truncate(mid);
                if s.attempt(c) {
                    hi = mid;
                } else {
                    lo = mid;
                }
            }
            let base = s.case.clone();
            let n = base.table.rows.len();
            let (mut lo, mut hi) = (0usize, n); // dropping the first `lo` rows of `base` still fails
            while hi - lo > 1 && s.budget > 0 {
                let mid = lo + (hi - lo) / 2;
                let mut c = base.clone();
                c.table.rows.drain(..mid);
                if s.attempt(c) {
                    lo = mid;
                } else {
                    hi = mid;
                }
            }
            if s.case.table.rows.len() <= 64 {
                let mut i = 0;
                while i < s.case.table.rows.len() && s.budget > 0 {
                    let mut c = s.case.clone();
                    c.table.rows.remove(i);
                    if !s.attempt(c) {
                        i += 1;
                    }
                }
            }
        }
    }
    (s.case, s.mis)
}

fn rows_class(n: usize) -> &'static str {
    match n {
        0 => "rows:0",
        1..=65535 => "rows<65536",
        _ => "rows>=65536",
    }
}

pub fn signature(case: &Case, mis: &Mis) -> String {
    let used = {
        let plan = case.cfg.plan(&case.chain);
        match plan {
            Some(p) => ref_eval(&case.table.rows, &case.chain[..p.len], p.unordered_from).used,
            None => case.chain.len(),
        }
    };
    let mut sk = skeleton(&case.table.kinds, &case.chain[..used.min(case.chain.len())]);
    if case.cfg.variant() == "par" {
        // failures that need the parallel configuration and involve distinct sit in the merge of the
        // per-worker sets (per-worker failures shrink to the push engine); which column kinds collide
        // there depends on the data
        let mut out = String::new();
        let mut rest = sk.as_str();
        while let Some(p) = rest.find("distinct[") {
            out.push_str(&rest[..p + "distinct".len()]);
            rest = &rest[p + "distinct".len()..];
            if let Some(q) = rest.find(']') {
                rest = &rest[q + 1..];
            }
        }
        out.push_str(rest);
        sk = out;
    }
    format!("{}|{}|{}|{}", case.cfg.class(), sk, mis.kind, rows_class(case.table.rows.len()))
}

fn witness_json(case: &Case, mis: &Mis) -> J {
    let rows: Vec<J> = case.table.rows.iter().take(12).map(|r| json!(r.iter().map(vals::key).collect::<Vec<_>>())).collect();
    json!({
        "config": format!("{:?}", case.cfg),
        "chain": case.chain.iter().map(|o| format!("{o:?}")).collect::<Vec<_>>(),
        "column_kinds": format!("{:?}", case.table.kinds),
        "n_rows": case.table.rows.len(),
        "rows_first12_exact_keys": rows,
        "mismatch": mis.kind,
        "detail": mis.detail,
    })
}

fn shrink_cache() -> &'static std::sync::Mutex<HashMap<String, Vec<String>>> {
    static C: std::sync::OnceLock<std::sync::Mutex<HashMap<String, Vec<String>>>> = std::sync::OnceLock::new();
    C.get_or_init(|| std::sync::Mutex::new(HashMap::new()))
}

/// Judge, and on failure shrink and report.
pub fn check_case(ctx: &mut Ctx, case: Case) {
    ctx.eval();
    let Some(mis) = judge(&case, Some(ctx)) else { return };
    // the same raw failure (full configuration class, full skeleton, category, size class) is shrunk once
    let raw = format!("{}|{}|{}|{}", case.cfg.class(), skeleton(&case.table.kinds, &case.chain), mis.cat, rows_class(case.table.rows.len()));
    let seen = shrink_cache().lock().unwrap().get(&raw).cloned().unwrap_or_default();
    if !seen.is_empty() {
        ctx.count("failures.reused_signature", 1);
        ctx.dev(&seen[0], json!({"unshrunk": witness_json(&case, &mis)}));
        return;
    }
    ctx.count("failures.shrunk", 1);
    let budget = ctx.reduce_budget;
    let t0 = std::time::Instant::now();
    let (small, m2) = shrink(case, mis, budget);
    ctx.count("failures.shrink_ms", t0.elapsed().as_millis() as u64);
    let sig = signature(&small, &m2);
    shrink_cache().lock().unwrap().entry(raw).or_default().push(sig.clone());
    ctx.dev(&sig, witness_json(&small, &m2));
}

// ---------------------------------------------------------------------------------------------
// workload
// ---------------------------------------------------------------------------------------------

fn table_sizes(tier: Tier) -> Vec<usize> {
    // sizes around 0, 1, chunk (2048) and morsel (1024 / 16384 / 32768 / 65536) boundaries, 10^5
    let mut v = vec![0, 1, 2, 3, 2047, 2048, 2049, 1023, 1024, 1025, 4096, 4097];
    v.extend(tier.pick(vec![16385, 65535, 65536, 65537, 100_000], vec![
        16383, 16384, 16385, 32767, 32768, 32769, 65535, 65536, 65537, 100_000, 131_073,
    ]));
    v
}

fn random_cfgs(rng: &mut Rng, tier: Tier, n: usize, chain: &[Op]) -> Vec<Cfg> {
    let reps = tier.pick(5, 50);
    let mut v = Vec::new();
    let chunk_sizes = [1usize, 7, 1024, 2048, 4096];
    let pick_chunk = |rng: &mut Rng, n: usize| -> usize {
        loop {
            let c = *rng.pick(&chunk_sizes);
            // tiny chunks only over small tables (every chunk allocates 2048-slot vectors in the crate)
            if (c == 1 && n <= 300) || (c == 7 && n <= 3000) || c >= 1024 {
                return c;
            }
        }
    };
    // pull
    v.push(Cfg::Pull { typed: false, chunk: pick_chunk(rng, n), simple_agg: rng.chance(0.5), adaptive: false });
    if rng.chance(0.15) {
        v.push(Cfg::Pull { typed: true, chunk: 2048, simple_agg: false, adaptive: false });
    }
    if rng.chance(0.3) {
        v.push(Cfg::Pull { typed: false, chunk: pick_chunk(rng, n), simple_agg: false, adaptive: true });
    }
    // push
    let src = match rng.below(3) {
        0 => PushSrc::Vector,
        1 => PushSrc::Chunks(pick_chunk(rng, n)),
        _ => PushSrc::Ragged(rng.next_u64()),
    };
    v.push(Cfg::Push { src, mat_distinct: rng.chance(0.3), tracked: rng.chance(0.3) });
    // pull prefix + push suffix
    if chain.len() >= 2 && rng.chance(0.5) {
        v.push(Cfg::Mixed { split: 1 + rng.below(chain.len() - 1), chunk: pick_chunk(rng, n) });
    }
    // parallel: two random points of workers x pressure x chunk size
    for _ in 0..2 {
        let big = n > 20_000;
        // every parallel configuration is repeated: 5x (quick) / 50x (thorough) on small tables, fewer on
        // larger ones to stay inside the time budget
        let reps_here = if big { reps.min(tier.pick(2, 5)) } else if n > 3000 { reps.min(10) } else if n > 300 { reps.min(20) } else { reps };
        v.push(Cfg::Par {
            workers: 1 + rng.below(16),
            pressure: rng.below(4) as u8,
            chunk: {
                let c = pick_chunk(rng, n);
                if c == 4096 { 2048 } else { c }
            },
            chunk_src: if rng.chance(0.4) { Some(rng.next_u64() | 1) } else { None },
            merge_rows: rng.chance(0.5),
            reps: reps_here,
        });
    }
    // spilling
    let thr = |rng: &mut Rng, n: usize| -> usize {
        match rng.below(6) {
            0 => 0,
            1 => 1,
            2 => 2 + rng.below(30),
            3 => (n / 3).max(1),
            4 => n.max(1),
            _ => usize::MAX,
        }
    };
    if chain.iter().any(|o| matches!(o, Op::Sort(_))) {
        v.push(Cfg::SpillSort { threshold: thr(rng, n), chunk: pick_chunk(rng, n).max(if n > 3000 { 1024 } else { 1 }), with_manager: rng.chance(0.85) });
    }
    if chain.iter().any(|o| matches!(o, Op::Agg { .. })) {
        v.push(Cfg::SpillAgg { threshold: thr(rng, n), chunk: pick_chunk(rng, n).max(if n > 3000 { 1024 } else { 1 }), with_manager: rng.chance(0.85) });
    }
    v
}

fn case_hash(t: &Table, chain: &[Op], cfg: &Cfg) -> u64 {
    hash_str(&format!("{:?}|{}|{:?}|{}", t.kinds, t.rows.len(), chain, cfg.variant()))
        ^ t.rows.iter().take(64).fold(0u64, |a, r| a.rotate_left(5) ^ hash_str(&rkey(r)))
}

/// One random exploration case: table + chain, judged under a set of configurations.
fn explore_case(ctx: &mut Ctx, tier: Tier, seed: u64, idx: u64, n: usize) {
    let mut rng = Rng::new(seed, "c17.explore", idx);
    let table = gen_table(&mut rng, n);
    let chain = gen_chain(&mut rng, &table);
    // trim the chain to what the reference can define sequentially
    let r = ref_eval(&table.rows, &chain, None);
    let chain: Vec<Op> = chain[..r.used].to_vec();
    let nontrivial = !chain.is_empty() && n >= 2;
    let cfgs = random_cfgs(&mut rng, tier, n, &chain);
    if idx < 6 {
        ctx.ev.push(Ev::Sample(json!({
            "rows": n, "kinds": format!("{:?}", table.kinds),
            "chain": chain.iter().map(|o| format!("{o:?}")).collect::<Vec<_>>(),
            "configs": cfgs.iter().map(|c| format!("{c:?}")).collect::<Vec<_>>(),
            "reference_rows": r.rows.len(),
        })));
    }
    ctx.count(&format!("chains.len{}", chain.len()), 1);
    for o in &chain {
        ctx.count(&format!("ops.{}", o.name()), 1);
    }
    for cfg in cfgs {
        if nontrivial {
            ctx.ev.push(Ev::Nontrivial(case_hash(&table, &chain, &cfg)));
        }
        check_case(ctx, Case { table: table.clone(), chain: chain.clone(), cfg });
    }
}

/// Deterministic directed matrix: every single operator variant and every ordered pair of operator
/// kinds on fixed tables under every configuration class. Runs on every invocation so that the set
/// of known signatures is closed by construction.
fn directed_cases(tier: Tier) -> Vec<Case> {
    let mut out = Vec::new();
    let reps = tier.pick(2, 10);
    let mk_tables = || -> Vec<Table> {
        let mut v = Vec::new();
        for (n, tag) in [(0usize, 0u64), (1, 1), (24, 2), (2100, 3)] {
            let mut rng = Rng::new(0xC17, "c17.directed.table", tag);
            v.push(gen_table_with(&mut rng, n, &[Kind::Int, Kind::Float, Kind::Str, Kind::Bool, Kind::Any]));
        }
        v
    };
    let tables = mk_tables();
    let cfgs = |n: usize, chain: &[Op], all: bool| -> Vec<Cfg> {
        if !all {
            // pairs: one configuration per engine
            let mut v = vec![
                Cfg::Pull { typed: false, chunk: 2048, simple_agg: false, adaptive: false },
                Cfg::Push { src: PushSrc::Vector, mat_distinct: false, tracked: false },
                Cfg::Par { workers: 4, pressure: 3, chunk: 1024, chunk_src: None, merge_rows: n % 2 == 0, reps },
                Cfg::Mixed { split: 1, chunk: 2048 },
            ];
            if chain.iter().any(|o| matches!(o, Op::Sort(_))) {
                v.push(Cfg::SpillSort { threshold: 1, chunk: if n > 1000 { 1024 } else { 3 }, with_manager: true });
            }
            if chain.iter().any(|o| matches!(o, Op::Agg { .. })) {
                v.push(Cfg::SpillAgg { threshold: 0, chunk: if n > 1000 { 1024 } else { 3 }, with_manager: true });
            }
            return v;
        }
        let mut v = vec![
            Cfg::Pull { typed: false, chunk: 2048, simple_agg: false, adaptive: false },
            Cfg::Pull { typed: false, chunk: if n > 1000 { 1024 } else { 7 }, simple_agg: true, adaptive: false },
            Cfg::Pull { typed: false, chunk: 4096, simple_agg: false, adaptive: true },
            Cfg::Pull { typed: true, chunk: 2048, simple_agg: false, adaptive: false },
            Cfg::Push { src: PushSrc::Vector, mat_distinct: false, tracked: false },
            Cfg::Push { src: PushSrc::Chunks(if n > 1000 { 1024 } else { 7 }), mat_distinct: true, tracked: true },
            Cfg::Push { src: PushSrc::Ragged(11), mat_distinct: false, tracked: false },
            Cfg::Par { workers: 1, pressure: 0, chunk: 2048, chunk_src: None, merge_rows: false, reps: 1 },
            Cfg::Par { workers: 4, pressure: 3, chunk: 1024, chunk_src: None, merge_rows: true, reps },
            Cfg::Par { workers: 16, pressure: 3, chunk: if n > 1000 { 1024 } else { 7 }, chunk_src: Some(5), merge_rows: false, reps },
        ];
        if chain.len() >= 2 {
            v.push(Cfg::Mixed { split: 1, chunk: 2048 });
            v.push(Cfg::Mixed { split: 1, chunk: if n > 1000 { 1024 } else { 7 } });
        }
        if chain.iter().any(|o| matches!(o, Op::Sort(_))) {
            for t in [0usize, 1, 10, usize::MAX] {
                v.push(Cfg::SpillSort { threshold: t, chunk: if n > 1000 { 1024 } else { 3 }, with_manager: true });
            }
            v.push(Cfg::SpillSort { threshold: 1, chunk: 1024, with_manager: false });
        }
        if chain.iter().any(|o| matches!(o, Op::Agg { .. })) {
            for t in [0usize, 1, 10, usize::MAX] {
                v.push(Cfg::SpillAgg { threshold: t, chunk: if n > 1000 { 1024 } else { 3 }, with_manager: true });
            }
            v.push(Cfg::SpillAgg { threshold: 1, chunk: 1024, with_manager: false });
        }
        v
    };
    for t in &tables {
        let n = t.rows.len();
        let singles = directed_ops(&t.kinds, n);
        // every single operator variant
        for op in &singles {
            let chain = vec![op.clone()];
            for cfg in cfgs(n, &chain, true) {
                out.push(Case { table: t.clone(), chain: chain.clone(), cfg });
            }
        }
        // every ordered pair of operator kinds (first variant of each kind), where the schema allows
        let firsts = first_of_each_kind(&singles);
        for a in &firsts {
            for b in &firsts {
                let Some(k2) = apply_schema(&t.kinds, a) else { continue };
                // re-target b onto the schema after a
                let Some(b2) = retarget(b, &k2, n) else { continue };
                let chain = vec![a.clone(), b2];
                if !chain_valid(&t.kinds, &chain) {
                    continue;
                }
                for cfg in cfgs(n, &chain, false) {
                    out.push(Case { table: t.clone(), chain: chain.clone(), cfg });
                }
            }
        }
    }
    // findings that the main matrix tables hide behind other findings (their Any column), pinned by
    // dedicated tables: distinct over one input chunk of more than 2048 distinct rows; min/max over
    // numeric-looking strings merged from per-worker accumulators
    {
        let mut rng = Rng::new(0xC17, "c17.directed.table", 50);
        let mut t = gen_table_with(&mut rng, 2100, &[Kind::Int, Kind::Str]);
        for (i, r) in t.rows.iter_mut().enumerate() {
            r[0] = Value::Int64(i as i64 * 3);
        }
        for chain in [vec![Op::Distinct(None)], vec![Op::Distinct(Some(vec![0]))]] {
            for chunk in [2048usize, 4096] {
                out.push(Case { table: t.clone(), chain: chain.clone(), cfg: Cfg::Pull { typed: false, chunk, simple_agg: false, adaptive: false } });
            }
            out.push(Case { table: t.clone(), chain: chain.clone(), cfg: Cfg::Push { src: PushSrc::Chunks(4096), mat_distinct: false, tracked: false } });
        }
        let mut rng = Rng::new(0xC17, "c17.directed.table", 51);
        let t = gen_table_with(&mut rng, 60, &[Kind::NumStr, Kind::Int]);
        for f in [AggF::Min, AggF::Max] {
            let chain = vec![Op::Agg { group: vec![], aggs: vec![(f, Some(0))] }];
            for cfg in [
                Cfg::Pull { typed: false, chunk: 2048, simple_agg: true, adaptive: false },
                Cfg::Push { src: PushSrc::Vector, mat_distinct: false, tracked: false },
                Cfg::Par { workers: 4, pressure: 3, chunk: 7, chunk_src: None, merge_rows: false, reps },
                Cfg::SpillAgg { threshold: 0, chunk: 7, with_manager: true },
            ] {
                out.push(Case { table: t.clone(), chain: chain.clone(), cfg });
            }
        }
    }
    // one huge table (beyond u16 and the default morsel size): sort / limit / filter combinations
    {
        let mut rng = Rng::new(0xC17, "c17.directed.table", 99);
        let t = gen_table_with(&mut rng, 66_000, &[Kind::Int, Kind::Str]);
        let chains: Vec<Vec<Op>> = vec![
            vec![Op::Sort(vec![SKey { col: 0, desc: false, nulls_first: false }])],
            vec![Op::Sort(vec![SKey { col: 0, desc: false, nulls_first: false }]), Op::Filter { col: 0, cmp: Cmp::Ge, val: Value::Int64(0) }],
            vec![Op::Sort(vec![SKey { col: 0, desc: true, nulls_first: true }]), Op::Skip(3)],
            vec![Op::Sort(vec![SKey { col: 1, desc: false, nulls_first: true }]), Op::Distinct(None)],
            vec![Op::Agg { group: vec![0], aggs: vec![(AggF::Count, None), (AggF::Min, Some(1))] }],
            vec![Op::Limit(65_900)],
            vec![Op::Sort(vec![SKey { col: 0, desc: false, nulls_first: false }]), Op::Limit(65_900)],
            vec![Op::Sort(vec![SKey { col: 0, desc: false, nulls_first: false }]), Op::SkipLimit(5, 65_000)],
            vec![Op::Sort(vec![SKey { col: 0, desc: false, nulls_first: true }]), Op::Filter { col: 0, cmp: Cmp::Ge, val: Value::Int64(0) }],
            vec![Op::Skip(65_800)],
        ];
        for chain in chains {
            let r = ref_eval(&t.rows, &chain, None);
            let chain = chain[..r.used].to_vec();
            let mut cs = vec![
                Cfg::Pull { typed: false, chunk: 2048, simple_agg: false, adaptive: false },
                Cfg::Push { src: PushSrc::Vector, mat_distinct: false, tracked: false },
                Cfg::Par { workers: 8, pressure: 0, chunk: 2048, chunk_src: if chain.len() % 2 == 0 { Some(3) } else { None }, merge_rows: chain.len() % 2 == 0, reps: tier.pick(1, 5) },
            ];
            if chain.iter().any(|o| matches!(o, Op::Sort(_))) {
                cs.push(Cfg::SpillSort { threshold: 10_000, chunk: 2048, with_manager: true });
            }
            if chain.iter().any(|o| matches!(o, Op::Agg { .. })) {
                cs.push(Cfg::SpillAgg { threshold: 50, chunk: 2048, with_manager: true });
            }
            for cfg in cs {
                out.push(Case { table: t.clone(), chain: chain.clone(), cfg });
            }
        }
    }
    out
}

// ---------------------------------------------------------------------------------------------
// entry
// ---------------------------------------------------------------------------------------------

pub fn run(tier: Tier, seed: u64) -> ! {
    let mut rep = Report::new("C17", tier, seed, "exploration");
    rep.rule = "case = (table, operator chain, execution configuration); non-trivial = table of >=2 rows and a \
                chain of >=1 operators; distinct by hash of (column kinds, row count, first 64 rows, chain, \
                configuration class). Tables: sizes 0,1,2,3, 1023..1025, 2047..2049, 4096/7, 16383..16385, \
                32767..32769, 65535..65537, 1e5 (+ random small), columns of int/float/string/numeric-string/bool \
                with duplicates and nulls plus payload columns of every value type. Chains: 1-4 of filter, project, \
                limit, skip, skip+limit, distinct (all / on columns), sort (1-2 keys, asc/desc, nulls first/last), \
                grouped and global count/sum/min/max/avg. Direct monitors: generate_morsels tiling grid, \
                ParallelSource partition coverage, MorselScheduler exactly-once, ExternalSort run-size sweep, \
                PartitionedState vs HashMap model, spill directory emptiness."
        .into();
    rep.assumptions = vec![
        "Reference dialect = the pull operators' value semantics where the statement is silent (SUM of ints is an \
         integer, SUM over no values is 0, `<>` passes NULL, NULL placement is applied before DESC reversal — the \
         last one is shared by all four sort implementations and therefore not flagged)."
            .into(),
        "Filters compare a homogeneous column with a constant of the same type; sort keys are homogeneous \
         columns without NaN/-0.0; float aggregates use dyadic values so sums are exact in any order."
            .into(),
        "ParallelPipeline ignores config.morsel_size (uses the pressure level), so morsel sizes are the four \
         pressure levels: 65536, 32768, 16384, 1024."
            .into(),
        "No scheduler hook exists in /repo (sched.morsel.after_get_work is not compiled in); schedule variety \
         comes from repetition (5x quick / 50x thorough) and from 8 harness threads competing for cores."
            .into(),
        "parallel/fold.rs needs rayon iterators; the harness has no rayon dependency, so fold.rs is not driven."
            .into(),
    ];

    let t0 = std::time::Instant::now();
    let mut ctx = Ctx { reduce_budget: 90, ..Default::default() };
    // ---- pipeline cases: directed matrix + random exploration, spread over harness threads
    enum Work {
        Direct(usize),
        Directed(Case),
        Explore(u64, usize),
    }
    // direct monitors first (the long ones overlap with the pipeline cases)
    let mut work: Vec<Work> = (0..7).map(Work::Direct).collect();
    let directed = directed_cases(tier);
    let n_directed = directed.len();
    work.extend(directed.into_iter().map(Work::Directed));
    {
        let mut rng = Rng::new(seed, "c17.plan", 0);
        let sizes = table_sizes(tier);
        let mut idx = 0u64;
        // boundary sizes: each once (quick) / 3 times (thorough)
        for _ in 0..tier.pick(1, 3) {
            for &n in &sizes {
                work.push(Work::Explore(idx, n));
                idx += 1;
            }
        }
        // morsel +-1 for the critical-pressure morsel and chunk +-1 once more with other chains
        for &n in &[1023usize, 1025, 2047, 2049] {
            work.push(Work::Explore(idx, n));
            idx += 1;
        }
        // random small / medium
        for _ in 0..tier.pick(260, 1300) {
            let n = match rng.below(10) {
                0 => rng.below(4),
                1..=5 => 2 + rng.below(40),
                6..=7 => 40 + rng.below(400),
                8 => 2000 + rng.below(200),
                _ => 1000 + rng.below(9000),
            };
            work.push(Work::Explore(idx, n));
            idx += 1;
        }
    }
    let n_threads = 8usize;
    let work = std::sync::Arc::new(work);
    let next = std::sync::Arc::new(std::sync::atomic::AtomicUsize::new(0));
    let mut per_item: Vec<Option<Vec<Ev>>> = (0..work.len()).map(|_| None).collect();
    let results = std::sync::Mutex::new(Vec::<(usize, Vec<Ev>)>::new());
    std::thread::scope(|s| {
        for _ in 0..n_threads {
            let work = work.clone();
            let next = next.clone();
            let results = &results;
            s.spawn(move || {
                let mut ctx = Ctx { reduce_budget: 700, ..Default::default() };
                loop {
                    let i = next.fetch_add(1, std::sync::atomic::Ordering::Relaxed);
                    if i >= work.len() {
                        break;
                    }
                    let t_item = std::time::Instant::now();
                    let r = catch(|| match &work[i] {
                        Work::Direct(k) => match k {
                            0 => direct::morsel_grid(&mut ctx, tier, seed),
                            1 => direct::source_partitions(&mut ctx, tier, seed),
                            2 => direct::scheduler_once(&mut ctx, tier, seed),
                            3 => direct::external_sort(&mut ctx, tier, seed),
                            4 => direct::partitioned_state(&mut ctx, tier, seed),
                            5 => direct::spill_lifecycle(&mut ctx, tier, seed),
                            _ => direct::merge_units(&mut ctx, tier, seed),
                        },
                        Work::Directed(c) => {
                            if c.table.rows.len() >= 2 {
                                ctx.ev.push(Ev::Nontrivial(case_hash(&c.table, &c.chain, &c.cfg)));
                            }
                            ctx.count("directed.cases", 1);
                            check_case(&mut ctx, c.clone())
                        }
                        Work::Explore(idx, n) => explore_case(&mut ctx, tier, seed, *idx, *n),
                    });
                    if let Err(p) = r {
                        ctx.ev.push(Ev::Inconclusive(format!("harness panic at {}: {}", p.at, p.msg)));
                    }
                    let ms = t_item.elapsed().as_millis() as u64;
                    match &work[i] {
                        Work::Direct(k) => ctx.count(&format!("time_ms.direct{k}"), ms),
                        Work::Directed(c) => ctx.count(&format!("time_ms.directed.rows{}", c.table.rows.len()), ms),
                        Work::Explore(_, n) => ctx.count(if *n > 20_000 { "time_ms.explore.big" } else { "time_ms.explore.small" }, ms),
                    }
                    let ev = std::mem::take(&mut ctx.ev);
                    results.lock().unwrap().push((i, ev));
                }
            });
        }
    });
    for (i, ev) in results.into_inner().unwrap() {
        per_item[i] = Some(ev);
    }
    for ev in per_item.into_iter().flatten() {
        ctx.ev.extend(ev);
    }

    // ---- merge events into the report
    for e in ctx.ev {
        match e {
            Ev::Eval(n) => rep.evals(n),
            Ev::Nontrivial(h) => rep.nontrivial(h),
            Ev::Count(k, n) => rep.count(&k, n),
            Ev::Dev(sig, d) => rep.deviation(&sig, d),
            Ev::Sample(j) => rep.sample(j),
            Ev::Inconclusive(w) => rep.inconclusive(&w),
        }
    }
    rep.count("directed.matrix_cases", n_directed as u64);
    rep.extra.insert("wall_pipeline_s".into(), json!(t0.elapsed().as_secs_f64()));
    rep.finish()
}
