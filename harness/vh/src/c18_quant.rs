//! C18 (d) quantiser monitors: scalar (bound derived from the trained step), binary (its
//! documented definition), product (documented nearest-centroid / ADC definitions).
//!
//! The crate's documentation states no numeric error bound for any quantiser ("~97%
//! accuracy", "rough estimate"). What is demanded therefore is:
//!   scalar  : for vectors inside the trained range every component is reproduced within one
//!             quantisation step ((max-min)/255, the resolution of 256 levels) and, by the
//!             triangle inequality, quantised Euclidean distances are within sqrt(sum step^2)
//!             (asymmetric) / twice that (symmetric) of the exact one; cosine_distance_u8
//!             ("less accurate", no bound): finite and in [0,2] only.
//!   binary  : bit i == (v[i] >= 0) as documented; hamming == number of differing bits;
//!             normalised / approximate_euclidean == their documented formulas.
//!   product : each code is the index of a nearest centroid of its sub-vector (documented);
//!             asymmetric distance == exact distance between query and reconstruct(codes).

use super::refs::*;
use crate::rng::{Rng, fnv};
use crate::util::catch;
use grafeo_core::index::vector::quantization::hamming_distance_simd;
use grafeo_core::index::vector::{BinaryQuantizer, ProductQuantizer, ScalarQuantizer};
use serde_json::json;

const QDIMS: &[usize] = &[1, 2, 3, 7, 8, 9, 15, 16, 17, 31, 33, 64, 65, 128];

fn euclid64(a: &[f32], b: &[f32]) -> f64 {
    a.iter().zip(b).map(|(x, y)| (f64::from(*x) - f64::from(*y)).powi(2)).sum::<f64>().sqrt()
}

pub fn scalar_case(acc: &mut Acc, seed: u64, case: u64) {
    let mut r = Rng::new(seed, "C18.quant.scalar", case);
    let dim = *r.pick(QDIMS);
    let ntrain = *r.pick(&[1usize, 2, 3, 10, 50]);
    let flavour = r.weighted(&[60, 15, 10, 15]);
    let kind = [VKind::Unit, VKind::Scaled, VKind::Huge, VKind::Grid][flavour];
    let mut train: Vec<Vec<f32>> = (0..ntrain).map(|_| gen_vec(&mut r, dim, kind)).collect();
    // shifted data (large |min| relative to the range) and constant dimensions
    let shift = if r.chance(0.2) { *r.pick(&[100.0f32, -1000.0, 1e4]) } else { 0.0 };
    let const_dim = if r.chance(0.3) { Some(r.below(dim)) } else { None };
    for v in &mut train {
        for (i, x) in v.iter_mut().enumerate() {
            *x += shift;
            if Some(i) == const_dim {
                *x = 0.25 + shift;
            }
        }
    }
    let flav = ["unit", "scaled", "huge", "grid"][flavour];
    acc.count(&format!("quant.scalar.cases.{flav}"), 1);
    let refs: Vec<&[f32]> = train.iter().map(|v| v.as_slice()).collect();
    let detail0 = json!({"dim": dim, "ntrain": ntrain, "flavour": flav, "shift": shift, "stream": "C18.quant.scalar", "case": case});
    acc.eval();
    let q = match catch(|| ScalarQuantizer::train(&refs)) {
        Err(p) => {
            acc.dev(&format!("quant:scalar.train.panic@{}", p.site), || json!({"at": p.at, "msg": p.msg, "case": detail0}));
            return;
        }
        Ok(q) => q,
    };
    // trained range and step from the definition
    let mut mn = vec![f64::INFINITY; dim];
    let mut mx = vec![f64::NEG_INFINITY; dim];
    for v in &train {
        for i in 0..dim {
            mn[i] = mn[i].min(f64::from(v[i]));
            mx[i] = mx[i].max(f64::from(v[i]));
        }
    }
    if mn.iter().chain(mx.iter()).any(|x| !x.is_finite() || x.abs() > 1e36) {
        acc.count("quant.scalar.skipped_overflowing_range", 1);
        return;
    }
    // per-dimension reproduction bound: one step (256 levels; the code truncates, rounding
    // would give half a step - the documentation promises neither) + f32 rounding slack
    let bound: Vec<f64> = (0..dim)
        .map(|i| {
            let step = ((mx[i] - mn[i]) / 255.0).max(F32_EPS);
            step * (1.0 + 1e-3) + 8.0 * U * (mn[i].abs() + mx[i].abs()) + 1e-30
        })
        .collect();
    let ebound = bound.iter().map(|b| b * b).sum::<f64>().sqrt();
    // vectors inside the trained range: the training vectors and random points of the box
    let mut inside: Vec<Vec<f32>> = train.iter().take(6).cloned().collect();
    for _ in 0..6 {
        inside.push(
            (0..dim)
                .map(|i| {
                    let t = r.f64();
                    let x = (mn[i] + t * (mx[i] - mn[i])) as f32;
                    x.clamp(mn[i] as f32, mx[i] as f32)
                })
                .collect(),
        );
    }
    let mut codes: Vec<Vec<u8>> = Vec::new();
    for v in &inside {
        acc.eval();
        let res = catch(|| {
            let c = q.quantize(v);
            let d = q.dequantize(&c);
            (c, d)
        });
        match res {
            Err(p) => acc.dev(&format!("quant:scalar.quantize.panic@{}", p.site), || json!({"at": p.at, "msg": p.msg, "case": detail0})),
            Ok((c, d)) => {
                if c.len() != dim || d.len() != dim {
                    acc.dev("quant:scalar.code_length", || json!({"case": detail0, "len": c.len()}));
                    continue;
                }
                acc.count("quant.scalar.roundtrips_in_range", 1);
                if let Some(i) = (0..dim).find(|&i| !((f64::from(d[i]) - f64::from(v[i])).abs() <= bound[i])) {
                    acc.dev(&format!("quant:scalar.reconstruction_beyond_one_step|{flav}"), || {
                        json!({"case": detail0, "component": i, "value": format!("{:e}", v[i]), "dequantized": format!("{:e}", d[i]), "code": c[i],
                               "trained_min": mn[i], "trained_max": mx[i], "bound": bound[i]})
                    });
                }
                codes.push(c);
            }
        }
    }
    if codes.len() != inside.len() {
        return;
    }
    // distances
    let queries: Vec<Vec<f32>> = (0..3).map(|_| { let kk = if r.chance(0.7) { kind } else { VKind::Unit }; gen_vec(&mut r, dim, kk) }).collect();
    for qv in &queries {
        for (j, v) in inside.iter().enumerate() {
            acc.eval();
            let exact = euclid64(qv, v);
            if !(exact * exact <= LIM) {
                acc.count("quant.scalar.skipped_overflow", 1);
                continue;
            }
            let kt = 4.0 * gamma(dim + 4) * (exact + ebound) + 1e-6;
            match catch(|| (q.asymmetric_distance(qv, &codes[j]), q.asymmetric_distance_squared(qv, &codes[j]))) {
                Err(p) => acc.dev(&format!("quant:scalar.asymmetric.panic@{}", p.site), || json!({"at": p.at, "msg": p.msg, "case": detail0})),
                Ok((d, d2)) => {
                    acc.count("quant.scalar.asymmetric_compared", 1);
                    if !((f64::from(d) - exact).abs() <= ebound + kt) {
                        acc.dev(&format!("quant:scalar.asymmetric_distance_beyond_bound|{flav}"), || {
                            json!({"case": detail0, "got": format!("{d:e}"), "exact": exact, "bound": ebound + kt, "query": show_vec(qv), "vector": show_vec(v)})
                        });
                    }
                    let e = ebound + kt;
                    if !((f64::from(d2) - exact * exact).abs() <= e * (2.0 * exact + e) * (1.0 + 1e-4) + 1e-6) {
                        acc.dev(&format!("quant:scalar.asymmetric_distance_squared_beyond_bound|{flav}"), || {
                            json!({"case": detail0, "got": format!("{d2:e}"), "exact_squared": exact * exact})
                        });
                    }
                }
            }
        }
    }
    for a in 0..inside.len().min(5) {
        for b in 0..inside.len().min(5) {
            acc.eval();
            let exact = euclid64(&inside[a], &inside[b]);
            if !(exact * exact <= LIM) {
                continue;
            }
            let e = 2.0 * ebound + 4.0 * gamma(dim + 4) * (exact + 2.0 * ebound) + 1e-6;
            match catch(|| (q.distance_u8(&codes[a], &codes[b]), q.distance_squared_u8(&codes[a], &codes[b]), q.cosine_distance_u8(&codes[a], &codes[b]))) {
                Err(p) => acc.dev(&format!("quant:scalar.distance_u8.panic@{}", p.site), || json!({"at": p.at, "msg": p.msg, "case": detail0})),
                Ok((d, d2, c)) => {
                    acc.count("quant.scalar.symmetric_compared", 1);
                    if !((f64::from(d) - exact).abs() <= e) {
                        acc.dev(&format!("quant:scalar.distance_u8_beyond_bound|{flav}"), || {
                            json!({"case": detail0, "got": format!("{d:e}"), "exact": exact, "bound": e, "a": show_vec(&inside[a]), "b": show_vec(&inside[b])})
                        });
                    }
                    if !((f64::from(d2) - exact * exact).abs() <= e * (2.0 * exact + e) * (1.0 + 1e-4) + 1e-6) {
                        acc.dev(&format!("quant:scalar.distance_squared_u8_beyond_bound|{flav}"), || json!({"case": detail0, "got": format!("{d2:e}"), "exact_squared": exact * exact}));
                    }
                    // no bound documented for the cosine variant: sanity only
                    if flav != "huge" && !(c.is_finite() && (-1e-3..=2.001).contains(&c)) {
                        acc.dev(&format!("quant:scalar.cosine_distance_u8_not_in_0_2|{flav}"), || json!({"case": detail0, "got": format!("{c:e}")}));
                    }
                }
            }
        }
    }
    // outside the trained range: no panic, right length (values are documented to be clamped)
    acc.eval();
    let out = gen_any(&mut r, dim, &[VKind::Huge, VKind::Scaled, VKind::Zero, VKind::Minus30]);
    match catch(|| q.quantize(&out)) {
        Err(p) => acc.dev(&format!("quant:scalar.quantize_out_of_range.panic@{}", p.site), || json!({"at": p.at, "msg": p.msg, "case": detail0})),
        Ok(c) => {
            if c.len() != dim {
                acc.dev("quant:scalar.code_length", || json!({"case": detail0}));
            }
        }
    }
    if ntrain >= 2 {
        acc.nontrivial(fnv(format!("qs{seed}{case}").as_bytes()));
    }
    if case == 0 {
        acc.sample(json!({"monitor": "scalar_quantizer", "case": detail0}));
    }
}

pub fn binary_case(acc: &mut Acc, seed: u64, case: u64) {
    let mut r = Rng::new(seed, "C18.quant.binary", case);
    let dim = *r.pick(&[1usize, 2, 7, 8, 63, 64, 65, 127, 128, 129, 385]);
    let mk = |r: &mut Rng| -> Vec<f32> {
        let k = *r.pick(&[VKind::Unit, VKind::Grid, VKind::Sparse, VKind::Huge, VKind::Minus30, VKind::Zero]);
        let mut v = gen_vec(r, dim, k);
        if r.chance(0.2) {
            let j = r.below(dim);
            v[j] = *r.pick(&[-0.0f32, 0.0, f32::NAN, f32::MIN_POSITIVE, -f32::MIN_POSITIVE]);
        }
        v
    };
    let (a, b) = (mk(&mut r), mk(&mut r));
    acc.eval();
    acc.count("quant.binary.cases", 1);
    let res = catch(|| {
        let (qa, qb) = (BinaryQuantizer::quantize(&a), BinaryQuantizer::quantize(&b));
        let h = BinaryQuantizer::hamming_distance(&qa, &qb);
        let hs = hamming_distance_simd(&qa, &qb);
        let hn = BinaryQuantizer::hamming_distance_normalized(&qa, &qb, dim);
        let ae = BinaryQuantizer::approximate_euclidean(&qa, &qb, dim);
        (qa, qb, h, hs, hn, ae)
    });
    let det = || json!({"dim": dim, "a": show_vec(&a), "b": show_vec(&b)});
    match res {
        Err(p) => acc.dev(&format!("quant:binary.panic@{}", p.site), || json!({"at": p.at, "msg": p.msg, "case": det()})),
        Ok((qa, qb, h, hs, hn, ae)) => {
            let bit = |v: &[f32], i: usize| v[i] >= 0.0;
            if qa.len() != dim.div_ceil(64) || qa.len() != BinaryQuantizer::words_needed(dim) {
                acc.dev("quant:binary.word_count", det);
                return;
            }
            for (v, qv) in [(&a, &qa), (&b, &qb)] {
                for i in 0..qv.len() * 64 {
                    let got = (qv[i / 64] >> (i % 64)) & 1 == 1;
                    let want = i < dim && bit(v, i);
                    if got != want {
                        acc.dev("quant:binary.bit_is_not_sign", det);
                        return;
                    }
                }
            }
            let want_h = (0..dim).filter(|&i| bit(&a, i) != bit(&b, i)).count() as u32;
            if h != want_h {
                acc.dev("quant:binary.hamming", || json!({"case": det(), "got": h, "expected": want_h}));
            }
            if hs != want_h {
                acc.dev("quant:binary.hamming_simd", || json!({"case": det(), "got": hs, "expected": want_h}));
            }
            let want_n = f64::from(want_h) / dim as f64;
            if !((f64::from(hn) - want_n).abs() <= 1e-6) {
                acc.dev("quant:binary.hamming_normalized", || json!({"case": det(), "got": hn, "expected": want_n}));
            }
            let want_e = (2.0 * f64::from(want_h) / dim as f64).sqrt();
            if !((f64::from(ae) - want_e).abs() <= 1e-5) {
                acc.dev("quant:binary.approximate_euclidean_formula", || json!({"case": det(), "got": ae, "expected": want_e}));
            }
            if dim > 1 {
                acc.nontrivial(fnv(format!("qb{seed}{case}").as_bytes()));
            }
        }
    }
}

pub fn product_case(acc: &mut Acc, seed: u64, case: u64, big: bool) {
    let mut r = Rng::new(seed, "C18.quant.product", case);
    let dim = *r.pick(&[1usize, 2, 4, 6, 8, 12, 16, 32, 33]);
    let divisors: Vec<usize> = (1..=dim).filter(|m| dim % m == 0).collect();
    let m = *r.pick(&divisors);
    let kc = if big { *r.pick(&[1usize, 2, 4, 16, 256]) } else { *r.pick(&[1usize, 2, 4, 16]) };
    let iters = *r.pick(&[0usize, 1, 5]);
    let ntrain = *r.pick(&[1usize, 2, 5, 17, 60]);
    let flavour = r.weighted(&[70, 15, 15]);
    let kind = [VKind::Unit, VKind::Grid, VKind::Huge][flavour];
    let flav = ["unit", "grid", "huge"][flavour];
    let train: Vec<Vec<f32>> = (0..ntrain).map(|_| gen_vec(&mut r, dim, kind)).collect();
    let refs: Vec<&[f32]> = train.iter().map(|v| v.as_slice()).collect();
    let d0 = json!({"dim": dim, "num_subvectors": m, "num_centroids": kc, "iterations": iters, "ntrain": ntrain, "flavour": flav, "stream": "C18.quant.product", "case": case});
    acc.eval();
    acc.count(&format!("quant.product.cases.{flav}"), 1);
    let pq = match catch(|| ProductQuantizer::train(&refs, m, kc, iters)) {
        Err(p) => {
            acc.dev(&format!("quant:product.train.panic@{}|{flav}", p.site), || json!({"at": p.at, "msg": p.msg, "case": d0}));
            return;
        }
        Ok(x) => x,
    };
    let sub = dim / m;
    let mut probes: Vec<Vec<f32>> = train.iter().take(5).cloned().collect();
    for _ in 0..4 {
        probes.push({ let kk = if r.chance(0.8) { kind } else { VKind::Scaled }; gen_vec(&mut r, dim, kk) });
    }
    let queries: Vec<Vec<f32>> = (0..2).map(|_| gen_vec(&mut r, dim, kind)).collect();
    for v in &probes {
        acc.eval();
        let res = catch(|| {
            let c = pq.quantize(v);
            let rec = pq.reconstruct(&c);
            let ds: Vec<(f32, f32, f32)> = queries
                .iter()
                .map(|q| {
                    let t = pq.build_distance_table(q);
                    (pq.asymmetric_distance_squared(q, &c), pq.distance_with_table(&t, &c), pq.asymmetric_distance(q, &c))
                })
                .collect();
            (c, rec, ds)
        });
        let (c, rec, ds) = match res {
            Err(p) => {
                acc.dev(&format!("quant:product.quantize.panic@{}|{flav}", p.site), || json!({"at": p.at, "msg": p.msg, "case": d0}));
                continue;
            }
            Ok(x) => x,
        };
        if c.len() != m || rec.len() != dim || c.iter().any(|x| usize::from(*x) >= kc) {
            acc.dev("quant:product.code_shape", || json!({"case": d0, "codes": c}));
            continue;
        }
        // nearest centroid per sub-vector (documented)
        let all_finite = v.iter().all(|x| x.abs() < 1e18);
        for p in 0..m {
            let cents = pq.get_partition_centroids(p);
            let sv = &v[p * sub..(p + 1) * sub];
            let d2 = |c: &[f32]| sv.iter().zip(c).map(|(x, y)| (f64::from(*x) - f64::from(*y)).powi(2)).sum::<f64>();
            let chosen = d2(cents[usize::from(c[p])]);
            let best = cents.iter().map(|c| d2(c)).fold(f64::INFINITY, f64::min);
            if all_finite && chosen.is_finite() && cents.iter().all(|c| c.iter().all(|x| x.abs() < 1e18)) {
                acc.count("quant.product.nearest_centroid_checked", 1);
                if !(chosen <= best + 4.0 * gamma(sub + 4) * (chosen + best) + 1e-6) {
                    acc.dev(&format!("quant:product.code_not_nearest_centroid|{flav}"), || {
                        json!({"case": d0, "partition": p, "code": c[p], "chosen_dist2": chosen, "best_dist2": best, "vector": show_vec(v)})
                    });
                }
            }
            // reconstruct == concatenated chosen centroids
            if rec[p * sub..(p + 1) * sub].iter().zip(cents[usize::from(c[p])]).any(|(x, y)| x.to_bits() != y.to_bits()) {
                acc.dev("quant:product.reconstruct_is_not_centroid", || json!({"case": d0, "partition": p}));
            }
        }
        // ADC == exact distance query <-> reconstruct(codes)
        for (q, (a2, t2, a1)) in queries.iter().zip(&ds) {
            let rf = reference(Fun::EuclidSq, q, &rec);
            if rf.demanded {
                acc.count("quant.product.adc_compared", 1);
                // the table sums M partial sums: same terms, same bound
                if !within(*a2, &rf) || !within(*t2, &rf) {
                    acc.dev(&format!("quant:product.adc_squared_is_not_distance_to_reconstruction|{flav}"), || {
                        json!({"case": d0, "asymmetric_distance_squared": format!("{a2:e}"), "distance_with_table": format!("{t2:e}"), "definition_f64": rf.val, "bound": rf.tol})
                    });
                }
                let r1 = reference(Fun::Euclid, q, &rec);
                if !within(*a1, &r1) {
                    acc.dev(&format!("quant:product.adc_is_not_distance_to_reconstruction|{flav}"), || {
                        json!({"case": d0, "asymmetric_distance": format!("{a1:e}"), "definition_f64": r1.val, "bound": r1.tol})
                    });
                }
            } else {
                acc.count("quant.product.adc_no_panic_only", 1);
            }
        }
    }
    if ntrain >= 2 && kc >= 2 {
        acc.nontrivial(fnv(format!("qp{seed}{case}").as_bytes()));
    }
    if case == 0 {
        acc.sample(json!({"monitor": "product_quantizer", "case": d0}));
    }
}
