//! C06 — a crash at any point loses at most the unsynced tail and never corrupts.
//! Fault enumeration over a recorded byte timeline: one instrumented run per history records,
//! after every step, the full content of the WAL directory, the fsync coverage of every file
//! (from the `wal.sync` hook events) and the reference state; crash images are then
//! materialised (per-file prefixes between synced and written length, old/new/torn checkpoint
//! metadata, single-bit flips), reopened with the real engine, judged, and continued.

use crate::c05::{self, Logged, MOp, Rec, Rules, StepKind};
use crate::hooks;
use crate::model::Model;
use crate::report::{Report, Tier};
use crate::rng::{Rng, hash_str};
use crate::util::scratch_dir;
use serde_json::json;
use std::collections::{BTreeMap, BTreeSet};
use std::path::Path;
use std::sync::atomic::Ordering;

/// One record as it sits in a log file.
#[derive(Clone, Debug)]
struct RecAt {
    file: u64,
    start: u64,
    end: u64,
    rec: Rec,
}

#[derive(Clone)]
struct Instant {
    /// file name -> bytes (whole wal directory, after flushing the writer's buffer)
    dir: BTreeMap<String, Vec<u8>>,
    /// file sequence -> length covered by an fsync so far
    synced: BTreeMap<u64, u64>,
    /// spec state after this step
    spec: Model,
    /// index of the last step (<= this) that was a successful sync / checkpoint / close
    durable_step: usize,
    /// index of the last step (<= this) that was a successful wal_checkpoint() / close(): those
    /// calls write a commit marker, so what they cover is not within finding V1's reach
    commit_step: usize,
    /// records written so far
    n_recs: usize,
    what: String,
}

fn read_dir(p: &Path) -> BTreeMap<String, Vec<u8>> {
    let mut m = BTreeMap::new();
    if let Ok(rd) = std::fs::read_dir(p) {
        for e in rd.flatten() {
            if e.path().is_file() {
                if let Ok(b) = std::fs::read(e.path()) {
                    m.insert(e.file_name().to_string_lossy().to_string(), b);
                }
            }
        }
    }
    m
}

fn seq_of(name: &str) -> Option<u64> {
    name.strip_prefix("wal_").and_then(|s| s.strip_suffix(".log")).and_then(|s| s.parse().ok())
}

struct Recorded {
    instants: Vec<Instant>,
    recs: Vec<RecAt>,
    hist: Vec<String>,
    mode: grafeo_engine::config::DurabilityMode,
    /// durability calls (sync / wal_checkpoint / close) that returned Ok although the last record
    /// logged so far was not covered by any fsync of its file: (call, step)
    uncovered: Vec<(String, usize)>,
}

/// Run one history and record the timeline.
fn record(seed: u64, case: u64, steps: usize) -> Option<Recorded> {
    let mut r = Rng::new(seed, "C06", case);
    let base = scratch_dir("c06rec");
    let path = base.join("db");
    let mode = c05::pick_mode(&mut r);
    let tiny = r.chance(0.3);
    hooks::WAL_MAX_LOG_SIZE.store(if tiny { *r.pick(&[64u64, 200, 600]) } else { 0 }, Ordering::SeqCst);
    hooks::RECORD_EVENTS.store(true, Ordering::SeqCst);
    hooks::take_events();
    let db = c05::open(&path, mode.clone()).ok()?;
    let wal_dir = path.join("wal");
    let mut m = Model::default();
    let mut events: Vec<Logged> = Vec::new();
    let mut recs: Vec<RecAt> = Vec::new();
    let mut synced: BTreeMap<u64, u64> = BTreeMap::new();
    let mut instants: Vec<Instant> = Vec::new();
    let mut hist = vec![format!("mode={} tiny_log={tiny}", c05::mode_name(&mode))];
    let mut kinds = BTreeSet::new();
    let mut durable_step = 0usize;
    let mut uncovered: Vec<(String, usize)> = Vec::new();
    let mut commit_step = 0usize;
    let mut rotated_since_last_record = false;
    // step 0: freshly opened, empty
    instants.push(Instant { dir: read_dir(&wal_dir), synced: synced.clone(), spec: Model::default(), durable_step: 0, commit_step: 0, n_recs: 0, what: "open".into() });
    let mut ok = true;
    for step in 1..=steps {
        let mut pushed: Vec<(MOp, u8)> = Vec::new();
        let last = step == steps;
        // every third history is durability-call heavy (several checkpoints / syncs / rotations in one
        // process, few writes in between): the same draw is mapped onto a denser set of such calls
        let roll = r.below(20);
        let roll = if case % 3 == 2 { match roll { 0..=3 => 0, 4 | 5 => 1, 6..=8 => 2, _ => 10 } } else { roll };
        let mut call_ok = false;
        let (kind, durable_call) = if last && r.chance(0.5) {
            call_ok = db.close().is_ok();
            hist.push("close()".into());
            (StepKind::Close, true)
        } else if roll == 0 {
            call_ok = db.wal_checkpoint().is_ok();
            hist.push("wal_checkpoint()".into());
            (StepKind::Checkpoint, true)
        } else if roll == 1 {
            if let Some(w) = db.wal() {
                let _ = w.rotate();
            }
            hist.push("wal.rotate()".into());
            (StepKind::Other, false)
        } else if roll <= 3 {
            if let Some(w) = db.wal() {
                call_ok = w.sync().is_ok();
            }
            hist.push("wal.sync()".into());
            (StepKind::Other, true)
        } else {
            c05::mutate_opt(&db, &mut m, &mut pushed, &mut r, &mut hist, &mut kinds, true);
            (StepKind::Mutation, false)
        };
        if let Some(w) = db.wal() {
            let _ = w.flush();
        }
        let evs = hooks::take_events();
        // byte ranges of the records of this step: wal.record events carry (file, size after)
        let before = events.len();
        if !c05::absorb(&mut events, pushed, &evs, kind) {
            ok = false;
            break;
        }
        let mut new_logged = events[before..].iter().filter(|e| match e {
            Logged::Op { logged, .. } => *logged,
            Logged::Commit | Logged::CkptRec => true,
            _ => false,
        });
        for e in &evs {
            match e.0 {
                "wal.record" => {
                    let (file, end) = (e.1, e.2);
                    let start = recs.iter().rev().find(|x| x.file == file).map_or_else(
                        || {
                            // first record of this file in this run: the file may have held bytes
                            // before (never in a single-open history)
                            0
                        },
                        |x| x.end,
                    );
                    let rec = match new_logged.next() {
                        Some(Logged::Op { op, .. }) => Rec::Op(op.clone()),
                        Some(Logged::Commit) => Rec::Commit,
                        Some(Logged::CkptRec) => Rec::Checkpoint,
                        _ => {
                            ok = false;
                            break;
                        }
                    };
                    recs.push(RecAt { file, start, end, rec });
                    rotated_since_last_record = false;
                }
                "wal.rotate" => {
                    rotated_since_last_record = true;
                }
                "wal.sync" => {
                    let cur = synced.entry(e.1).or_insert(0);
                    *cur = (*cur).max(e.2);
                }
                _ => {}
            }
        }
        if !ok {
            break;
        }
        if durable_call {
            durable_step = step;
            if call_ok && matches!(kind, StepKind::Close | StepKind::Checkpoint) {
                commit_step = step;
            }
            // client-boundary monitor: when the call returned Ok, every record logged so far must be
            // covered by an fsync of its file (the only thing that makes "durable" true on a crash)
            // (a rotation after the last record leaves it in an outgoing file, which rotate() does not
            // fsync - finding V4 - so only the active file is judged here)
            if call_ok && !rotated_since_last_record && let Some(lastrec) = recs.last() && synced.get(&lastrec.file).copied().unwrap_or(0) < lastrec.end {
                uncovered.push((hist.last().cloned().unwrap_or_default(), step));
            }
        }
        instants.push(Instant {
            dir: read_dir(&wal_dir),
            synced: synced.clone(),
            spec: c05::predict_spec(&events),
            durable_step,
            commit_step,
            n_recs: recs.len(),
            what: hist.last().cloned().unwrap_or_default(),
        });
        if kind == StepKind::Close {
            break;
        }
    }
    hooks::WAL_MAX_LOG_SIZE.store(0, Ordering::SeqCst);
    hooks::RECORD_EVENTS.store(false, Ordering::SeqCst);
    drop(db);
    hooks::take_events();
    let _ = std::fs::remove_dir_all(&base);
    if !ok {
        return None;
    }
    Some(Recorded { instants, recs, hist, mode, uncovered })
}

/// A crash image: for every log file present a prefix length; which checkpoint.meta bytes.
#[derive(Clone, Debug)]
struct Image {
    instant: usize,
    cuts: BTreeMap<u64, u64>,
    meta: Option<Vec<u8>>,
    /// (file, byte offset, bit) flipped after cutting
    flip: Option<(u64, u64, u8)>,
    tmp: Option<Vec<u8>>,
    kind: &'static str,
}

fn images_for(rec: &Recorded, k: usize, r: &mut Rng, budget: usize) -> Vec<Image> {
    let inst = &rec.instants[k];
    let mut out = Vec::new();
    let files: Vec<(u64, u64)> = inst.dir.iter().filter_map(|(n, b)| seq_of(n).map(|s| (s, b.len() as u64))).collect();
    let full: BTreeMap<u64, u64> = files.iter().copied().collect();
    let meta_now = inst.dir.get("checkpoint.meta").cloned();
    let meta_prev = if k > 0 { rec.instants[k - 1].dir.get("checkpoint.meta").cloned() } else { None };
    // 1. nothing lost beyond what was never written
    out.push(Image { instant: k, cuts: full.clone(), meta: meta_now.clone(), flip: None, tmp: None, kind: "all_written" });
    // 2. everything unsynced lost, per file independently
    let synced_cut: BTreeMap<u64, u64> = files.iter().map(|(s, len)| (*s, inst.synced.get(s).copied().unwrap_or(0).min(*len))).collect();
    out.push(Image { instant: k, cuts: synced_cut.clone(), meta: meta_now.clone(), flip: None, tmp: None, kind: "only_synced" });
    // 3. each file cut alone at its synced length (gap shapes), others full
    for (s, _) in &files {
        if synced_cut[s] < full[s] {
            let mut c = full.clone();
            c.insert(*s, synced_cut[s]);
            out.push(Image { instant: k, cuts: c, meta: meta_now.clone(), flip: None, tmp: None, kind: "one_file_unsynced_lost" });
        }
    }
    // 4. cuts inside / at the boundaries of the last records of each file (torn prefix, payload, crc)
    for (s, len) in &files {
        let lo = synced_cut[s];
        let rs: Vec<&RecAt> = rec.recs[..inst.n_recs].iter().filter(|x| x.file == *s && x.end > lo && x.end <= *len).collect();
        for x in rs.iter().rev().take(3) {
            let mut offs = vec![x.start, x.start + 1, x.start + 3, x.start + 4, x.start + 5, x.end - 5, x.end - 4, x.end - 1];
            if x.end - x.start > 12 {
                offs.push((x.start + x.end) / 2);
            }
            for o in offs {
                if o >= lo && o < *len && o >= x.start && o < x.end {
                    let mut c = full.clone();
                    c.insert(*s, o);
                    out.push(Image { instant: k, cuts: c, meta: meta_now.clone(), flip: None, tmp: None, kind: if o == x.start { "record_boundary" } else { "torn_record" } });
                }
            }
        }
    }
    // 5. checkpoint metadata: old content with new logs, torn tmp file present
    if meta_now != meta_prev {
        out.push(Image { instant: k, cuts: full.clone(), meta: meta_prev.clone(), flip: None, tmp: meta_now.clone(), kind: "meta_old_tmp_complete" });
        if let Some(b) = &meta_now {
            out.push(Image { instant: k, cuts: full.clone(), meta: meta_prev.clone(), flip: None, tmp: Some(b[..b.len() / 2].to_vec()), kind: "meta_old_tmp_torn" });
        }
    }
    // 6. a freshly rotated (empty) file missing
    if let Some((s, 0)) = files.last() {
        let mut c = full.clone();
        c.remove(s);
        out.push(Image { instant: k, cuts: c, meta: meta_now.clone(), flip: None, tmp: None, kind: "rotated_file_absent" });
    }
    // 7. single-bit flips inside records (payload, crc; length field handled in a child process elsewhere)
    let all: Vec<&RecAt> = rec.recs[..inst.n_recs].iter().collect();
    for _ in 0..4.min(all.len()) {
        let x = all[r.below(all.len())];
        if x.end - x.start < 9 || full.get(&x.file).copied().unwrap_or(0) < x.end {
            continue;
        }
        // never touch the 4-byte length prefix here (an inflated length makes the engine
        // allocate up to 4 GiB; that image class needs process isolation)
        let off = x.start + 4 + r.below((x.end - x.start - 4) as usize) as u64;
        out.push(Image { instant: k, cuts: full.clone(), meta: meta_now.clone(), flip: Some((x.file, off, r.below(8) as u8)), tmp: None, kind: "bit_flip" });
    }
    if out.len() > budget {
        // keep the structural ones, sample the rest
        let mut keep: Vec<Image> = out.iter().filter(|i| !matches!(i.kind, "torn_record" | "record_boundary")).cloned().collect();
        let mut rest: Vec<Image> = out.into_iter().filter(|i| matches!(i.kind, "torn_record" | "record_boundary")).collect();
        r.shuffle(&mut rest);
        rest.truncate(budget.saturating_sub(keep.len()));
        keep.extend(rest);
        return keep;
    }
    out
}

/// What the engine should recover from this image if it behaved as the open findings say.
fn predict_image(rec: &Recorded, img: &Image, rules: Rules) -> Model {
    let inst = &rec.instants[img.instant];
    let mut files: BTreeMap<u64, Vec<Rec>> = BTreeMap::new();
    for s in img.cuts.keys() {
        files.insert(*s, Vec::new());
    }
    for x in &rec.recs[..inst.n_recs] {
        let Some(cut) = img.cuts.get(&x.file) else { continue };
        let v = files.get_mut(&x.file).unwrap();
        if matches!(v.last(), Some(Rec::Torn)) {
            continue;
        }
        let flipped = img.flip.is_some_and(|(f, o, _)| f == x.file && o >= x.start && o < x.end);
        if x.end <= *cut && !flipped {
            v.push(x.rec.clone());
        } else if x.start + 4 <= *cut || flipped {
            // the length prefix is there but the record is incomplete / corrupt: an error
            v.push(Rec::Torn);
        } else {
            // fewer than 4 bytes of the length prefix: the engine takes it as end of file
            v.push(Rec::Torn);
        }
    }
    // checkpoint metadata: which sequence does it name?
    let ckpt = img.meta.as_ref().and_then(|b| decode_meta_seq(b));
    c05::recover_sim(&files, ckpt, rules)
}

/// bincode standard config of CheckpointMetadata { epoch: u64, log_sequence: u64, .. }: two varints
fn decode_meta_seq(b: &[u8]) -> Option<u64> {
    fn varint(b: &[u8], pos: &mut usize) -> Option<u64> {
        let first = *b.get(*pos)?;
        *pos += 1;
        match first {
            0..=250 => Some(u64::from(first)),
            251 => {
                let v = u16::from_le_bytes(b.get(*pos..*pos + 2)?.try_into().ok()?);
                *pos += 2;
                Some(u64::from(v))
            }
            252 => {
                let v = u32::from_le_bytes(b.get(*pos..*pos + 4)?.try_into().ok()?);
                *pos += 4;
                Some(u64::from(v))
            }
            253 => {
                let v = u64::from_le_bytes(b.get(*pos..*pos + 8)?.try_into().ok()?);
                *pos += 8;
                Some(v)
            }
            _ => None,
        }
    }
    let mut pos = 0;
    let _epoch = varint(b, &mut pos)?;
    varint(b, &mut pos)
}

fn materialise(rec: &Recorded, img: &Image, dir: &Path) {
    let wal = dir.join("db").join("wal");
    let _ = std::fs::create_dir_all(&wal);
    let inst = &rec.instants[img.instant];
    for (s, cut) in &img.cuts {
        let name = format!("wal_{s:08}.log");
        let mut b = inst.dir.get(&name).cloned().unwrap_or_default();
        b.truncate(*cut as usize);
        if let Some((f, off, bit)) = img.flip {
            if f == *s && (off as usize) < b.len() {
                b[off as usize] ^= 1 << bit;
            }
        }
        let _ = std::fs::write(wal.join(name), b);
    }
    if let Some(m) = &img.meta {
        let _ = std::fs::write(wal.join("checkpoint.meta"), m);
    }
    if let Some(t) = &img.tmp {
        let _ = std::fs::write(wal.join("checkpoint.meta.tmp"), t);
    }
}

fn run_history(rep: &mut Report, rules: Rules, seed: u64, case: u64, steps: usize, budget: usize) {
    let Some(rec) = record(seed, case, steps) else {
        rep.count("histories_abandoned_record_count_unexpected", 1);
        return;
    };
    let mut r = Rng::new(seed, "C06.img", case);
    rep.count("histories", 1);
    rep.count(&format!("histories.mode.{}", c05::mode_name(&rec.mode)), 1);
    rep.count("durability_calls_checked_for_fsync_coverage", rec.instants.iter().filter(|i| i.what.starts_with("wal.sync") || i.what.starts_with("wal_checkpoint") || i.what.starts_with("close")).count() as u64);
    for (call, step) in &rec.uncovered {
        rep.deviation(
            &format!("durability:{}_returned_ok_but_last_logged_record_not_fsynced", call.split('(').next().unwrap_or("")),
            json!({"history": rec.hist, "step": step, "mode": c05::mode_name(&rec.mode)}),
        );
    }
    let mut nontrivial_images = 0;
    for k in 0..rec.instants.len() {
        let imgs = images_for(&rec, k, &mut r, budget);
        for img in imgs {
            rep.eval();
            rep.count(&format!("images.{}", img.kind), 1);
            let dir = scratch_dir("c06img");
            materialise(&rec, &img, &dir);
            let inst = &rec.instants[k];
            let detail = |extra: serde_json::Value| {
                json!({"history": rec.hist, "crash_after_step": k, "step": inst.what, "image": format!("{:?}", img.kind), "cuts": img.cuts, "flip": format!("{:?}", img.flip), "extra": extra})
            };
            match c05::open(&dir.join("db"), rec.mode.clone()) {
                Err(e) => {
                    let sig = format!("crash:open_failed|{}|{}", img.kind, e.split(':').next().unwrap_or(""));
                    rep.deviation(&sig, detail(json!({"error": e})));
                }
                Ok(db) => {
                    let obs = c05::dump(&db);
                    // spec: some prefix state between the last durability point and the crash;
                    // for corruption images any prefix state at all
                    let lo = if img.flip.is_some() { 0 } else { inst.durable_step };
                    let in_spec = (lo..=k).any(|j| c05::diff_kind(&obs, &rec.instants[j].spec).is_none());
                    let dev = predict_image(&rec, &img, rules);
                    let as_rules = c05::diff_kind(&obs, &dev).is_none();
                    if in_spec {
                        if !as_rules {
                            rep.count("images_better_than_rules_predict", 1);
                        }
                    } else if as_rules {
                        // explained by open findings; name the most specific one
                        let older_prefix = (0..lo).any(|j| c05::diff_kind(&obs, &rec.instants[j].spec).is_none());
                        // V1 (no commit marker behind a plain sync) can only cost what was logged after the
                        // last wal_checkpoint() / close(); a recovered state older than THAT call needs
                        // another explanation: the skipped-files rule (U4 / V4), or it is new
                        let cs = inst.commit_step.min(lo);
                        let within_v1 = (cs..lo).any(|j| c05::diff_kind(&obs, &rec.instants[j].spec).is_none());
                        // (judged only while the log is a single file: once a rotation has happened the
                        // outgoing file is known not to be fsynced and to be skipped by recovery - V4 / U4)
                        if older_prefix && !within_v1 && img.flip.is_none() && img.cuts.len() == 1 {
                            let without_u4 = predict_image(&rec, &img, rules.without(4));
                            if c05::diff_kind(&without_u4, &dev).is_some() {
                                rep.known_rule("C06-V4", &format!("{} after '{}'", img.kind, inst.what.split('(').next().unwrap_or("")));
                            } else {
                                rep.deviation(
                                    &format!("crash:{}|state_older_than_last_checkpoint_or_close", img.kind),
                                    detail(json!({"last_checkpoint_or_close_step": inst.commit_step, "last_durability_call_step": inst.durable_step})),
                                );
                            }
                        } else {
                            let id = if older_prefix { "C06-V1" } else { "C06-V4" };
                            rep.known_rule(id, &format!("{} after '{}'", img.kind, inst.what.split('(').next().unwrap_or("")));
                        }
                    } else {
                        let (kd, d) = c05::diff_kind(&obs, &dev).unwrap();
                        rep.deviation(&format!("crash:{}|vs_rules:{kd}", img.kind), detail(json!({"vs_known_rules": d})));
                    }
                    // continuation: a recovered database keeps what is written afterwards
                    if r.chance(0.25) {
                        rep.count("continuations", 1);
                        let before = c05::dump(&db);
                        let n1 = db.create_node_with_props(&["Z"], [("z", grafeo_common::types::Value::Int64(k as i64))]).as_u64();
                        let n2 = db.create_node(&["Z"]).as_u64();
                        if before.nodes.contains_key(&n1) || before.nodes.contains_key(&n2) || n1 == n2 {
                            rep.deviation("continue:id_collision_after_recovery", detail(json!({"n1": n1, "n2": n2})));
                        }
                        let _ = db.close();
                        drop(db);
                        match c05::open(&dir.join("db"), rec.mode.clone()) {
                            Err(e) => rep.deviation(&format!("continue:open_failed|{}", e.split(':').next().unwrap_or("")), detail(json!({"error": e}))),
                            Ok(db2) => {
                                let after = c05::dump(&db2);
                                let kept = after.nodes.contains_key(&n1) && after.nodes.contains_key(&n2);
                                if !kept {
                                    // known: appended after a torn tail => unreadable (V2); or the
                                    // checkpoint/rotation skip (C05-U4) when close rotated
                                    let torn = img.kind == "torn_record" || img.kind == "bit_flip";
                                    if torn && rules_v2(rep) {
                                        rep.known_rule("C06-V2", &format!("continuation after {}", img.kind));
                                    } else {
                                        rep.deviation(&format!("continue:post_recovery_writes_lost|{}", img.kind), detail(json!({"n1": n1, "n2": n2})));
                                    }
                                }
                                drop(db2);
                            }
                        }
                    }
                }
            }
            if matches!(img.kind, "torn_record" | "meta_old_tmp_complete" | "meta_old_tmp_torn" | "one_file_unsynced_lost" | "bit_flip") {
                nontrivial_images += 1;
                rep.nontrivial(hash_str(&format!("{case}/{k}/{:?}/{:?}/{}", img.cuts, img.flip, img.kind)));
            }
            let _ = std::fs::remove_dir_all(&dir);
        }
    }
    if case < 2 {
        rep.sample(json!({"case": case, "history": rec.hist, "instants": rec.instants.len(), "records": rec.recs.len(), "nontrivial_images": nontrivial_images,
            "record_layout": rec.recs.iter().take(6).map(|x| format!("file {} bytes {}..{} {:?}", x.file, x.start, x.end, std::mem::discriminant(&x.rec))).collect::<Vec<_>>()}));
    }
}

fn rules_v2(rep: &Report) -> bool {
    rep.findings.rule_open("C06-V2")
}

pub fn run(tier: Tier, seed: u64) -> ! {
    let mut rep = Report::new("C06", tier, seed, "fault_enumeration");
    rep.rule = "per history (direct-API mutations, checkpoints, rotations incl. size-triggered, syncs, optional close; every durability mode) the WAL directory bytes, per-file fsync coverage (wal.sync hook events) and the reference state are recorded after every step; crash images per instant: all written bytes, only synced bytes, each file alone cut to its synced length, cuts at and inside the last three records of every file (torn length prefix / payload / checksum), old checkpoint.meta with complete or torn .tmp, freshly rotated file absent, single-bit flips in record payload/checksum. Each image is opened with the real engine: open must succeed, the dump must be a prefix state no older than the last sync/checkpoint/close (any prefix for corruption), and a quarter of the images are continued (write, close, reopen: the new writes must be there, ids must not collide). non-trivial image = cut strictly inside a record, metadata mid-update, per-file loss, or bit flip; distinct by (history, instant, cuts, flip)".into();
    let rules = Rules::from_findings(&rep.findings);
    let n = tier.pick(30, 150);
    for case in 0..n {
        run_history(&mut rep, rules, seed, case, tier.pick(12, 24), tier.pick(24, 80));
    }
    rep.assumptions = vec![
        "crash model: per-file prefix between fsynced and written length + rename atomicity of checkpoint.meta; reordering of unsynced writes inside a file and directory-entry durability are not modelled".into(),
        "bit flips in the 4-byte length prefix are excluded here (the engine trusts the length up to 4 GiB); they need process isolation".into(),
        "mutating session statements are not part of these histories (C05-U1: they are not logged at all)".into(),
    ];
    rep.finish()
}
