//! C09 — the optimizer never changes the answer.
//!
//! Differential monitor. One query text is parsed / translated / bound ONCE into a logical plan
//! P; P is then optimized under every one of the 2^3 combinations of the public optimizer
//! switches (filter push-down, join reordering, projection push-down) x 3 statistics states
//! (fresh; computed on an earlier state of the graph; none) and every optimized plan is
//! executed by the same physical strategy. Oracle: the rows of the un-rewritten plan P.
//!
//! The physical strategy is pinned to "scan + generic filter, flat expand" (planner kill
//! switches on, factorized execution off, no property index) so that a difference can only be
//! caused by the logical rewrite; the physical alternatives are C10's subject (C10 runs the
//! default optimizer and varies the physical configuration).

#[path = "c09_gen.rs"]
mod qgen;

use crate::hooks;
use crate::report::{Report, Tier};
use crate::rng::{Rng, hash_str};
use crate::util::catch;
use qgen::{GraphSpec, Lang, Outcome, Profile, Query};
use grafeo_engine::GrafeoDB;
use grafeo_engine::query::binder::Binder;
use grafeo_engine::query::optimizer::{CardinalityEstimator, Optimizer};
use grafeo_engine::query::plan::LogicalPlan;
use grafeo_engine::query::{Executor, Planner, translate_cypher, translate_gql};
use serde_json::json;
use std::collections::BTreeMap;
use std::sync::Arc;
use std::sync::atomic::Ordering;

const STATS: [&str; 3] = ["fresh", "stale", "none"];

fn switch_name(c: usize) -> String {
    format!("{}{}{}", if c & 1 != 0 { "F" } else { "-" }, if c & 2 != 0 { "J" } else { "-" }, if c & 4 != 0 { "P" } else { "-" })
}

fn translate(q: &Query) -> Result<LogicalPlan, String> {
    let text = q.text();
    let r = catch(|| match q.lang {
        Lang::Gql => translate_gql(&text),
        Lang::Cypher => translate_cypher(&text),
    });
    let plan = match r {
        Ok(Ok(p)) => p,
        Ok(Err(e)) => return Err(format!("translate: {e}")),
        Err(p) => return Err(format!("translate panic {}", p.site)),
    };
    match catch(|| Binder::new().bind(&plan).map(|_| ())) {
        Ok(Ok(())) => Ok(plan),
        Ok(Err(e)) => Err(format!("bind: {e}")),
        Err(p) => Err(format!("bind panic {}", p.site)),
    }
}

/// statistics of an earlier state of the graph: the first half of the nodes and the edges among them
fn stale_statistics(g: &GraphSpec) -> grafeo_core::statistics::Statistics {
    let h = g.nodes.len().div_ceil(2);
    let mut g0 = GraphSpec { nodes: g.nodes[..h].to_vec(), edges: vec![] };
    g0.edges = g.edges.iter().filter(|e| e.src < h && e.dst < h).take(g.edges.len() / 2 + 1).cloned().collect();
    let b = qgen::build(&g0, false);
    b.db.store().ensure_statistics_fresh();
    b.db.store().statistics()
}

fn optimizer(stats: usize, c: usize, db: &GrafeoDB, stale: &grafeo_core::statistics::Statistics) -> Optimizer {
    let o = match stats {
        0 => Optimizer::from_store(db.store()),
        1 => Optimizer::new().with_cardinality_estimator(CardinalityEstimator::from_statistics(stale)),
        _ => Optimizer::new(),
    };
    o.with_filter_pushdown(c & 1 != 0).with_join_reorder(c & 2 != 0).with_projection_pushdown(c & 4 != 0)
}

fn execute(db: &GrafeoDB, plan: &LogicalPlan) -> Outcome {
    let store = Arc::clone(db.store());
    qgen::outcome_of(catch(|| {
        let planner = Planner::new(store).with_factorized_execution(false);
        let mut phys = planner.plan(plan)?;
        let ex = Executor::with_columns(phys.columns.clone());
        ex.execute(phys.operator.as_mut())
    }))
}

struct CaseRun {
    /// Debug string of P
    base_plan: String,
    base: Outcome,
    base_digest: u64,
    /// per (stats, switches): (rewritten, outcome, digest)
    runs: Vec<(usize, usize, bool, Outcome, u64)>,
    /// Debug string of the last optimized plan
    last_plan: String,
    last_optimized: Option<LogicalPlan>,
}

/// Run P under the given configurations. Read-only statements share one database; mutating
/// statements get a fresh copy per configuration.
fn run_case(g: &GraphSpec, mutating: bool, plan: &LogicalPlan, configs: &[(usize, usize)]) -> CaseRun {
    let stale = stale_statistics(g);
    let shared = qgen::build(g, false);
    let base_plan = format!("{:?}", plan.root);
    let (base, base_digest) = if mutating {
        let b = qgen::build(g, false);
        let o = execute(&b.db, plan);
        (o, qgen::digest(&b.db))
    } else {
        (execute(&shared.db, plan), 0)
    };
    let mut runs = Vec::new();
    let mut last_plan = String::new();
    let mut last_optimized = None;
    for &(s, c) in configs {
        let fresh;
        let db = if mutating {
            fresh = qgen::build(g, false);
            &fresh.db
        } else {
            &shared.db
        };
        let opt = optimizer(s, c, db, &stale);
        let optimized = match catch(|| opt.optimize(plan.clone())) {
            Ok(Ok(p)) => p,
            Ok(Err(e)) => {
                runs.push((s, c, false, Outcome::Error(format!("optimize: {e}")), 0));
                continue;
            }
            Err(p) => {
                runs.push((s, c, false, Outcome::Panic(p.site, p.msg), 0));
                continue;
            }
        };
        last_plan = format!("{:?}", optimized.root);
        let rewritten = last_plan != base_plan;
        let o = execute(db, &optimized);
        let d = if mutating { qgen::digest(db) } else { 0 };
        last_optimized = Some(optimized);
        runs.push((s, c, rewritten, o, d));
    }
    CaseRun { base_plan, base, base_digest, runs, last_plan, last_optimized }
}

fn all_configs() -> Vec<(usize, usize)> {
    let mut v = Vec::new();
    for s in 0..3 {
        for c in 0..8 {
            v.push((s, c));
        }
    }
    v
}

fn mismatch(run: &CaseRun, idx: usize, ordered: bool) -> Option<String> {
    let (_, _, _, o, d) = &run.runs[idx];
    if let Some(k) = qgen::diff(&run.base, o, ordered) {
        return Some(k);
    }
    if *d != run.base_digest {
        return Some("wrong_effect".into());
    }
    None
}

/// does (g, q) still differ under configuration (s, c)?
fn still_fails(g: &GraphSpec, q: &Query, s: usize, c: usize) -> Option<String> {
    let plan = translate(q).ok()?;
    let run = run_case(g, q.mutation.is_some(), &plan, &[(s, c)]);
    mismatch(&run, 0, q.ordered())
}


// ------------------------------------------------------------------------------------------
// plan-level description of what a rewrite did (canonical part of the signatures)
// ------------------------------------------------------------------------------------------

use grafeo_engine::query::plan::{LogicalExpression as LE, LogicalOperator as LO};

fn op_kind(op: &LO) -> &'static str {
    match op {
        LO::NodeScan(s) => {
            if s.input.is_some() {
                "NodeScan+input"
            } else {
                "NodeScan"
            }
        }
        LO::EdgeScan(_) => "EdgeScan",
        LO::Expand(e) => {
            if e.min_hops == 1 && e.max_hops == Some(1) {
                "Expand"
            } else {
                "VarExpand"
            }
        }
        LO::Filter(_) => "Filter",
        LO::Project(_) => "Project",
        LO::Join(_) => "Join",
        LO::Aggregate(_) => "Aggregate",
        LO::Limit(_) => "Limit",
        LO::Skip(_) => "Skip",
        LO::Sort(_) => "Sort",
        LO::Distinct(_) => "Distinct",
        LO::CreateNode(_) => "CreateNode",
        LO::CreateEdge(_) => "CreateEdge",
        LO::DeleteNode(_) => "DeleteNode",
        LO::DeleteEdge(_) => "DeleteEdge",
        LO::SetProperty(_) => "SetProperty",
        LO::AddLabel(_) => "AddLabel",
        LO::RemoveLabel(_) => "RemoveLabel",
        LO::Return(_) => "Return",
        LO::Empty => "Empty",
        LO::LeftJoin(_) => "LeftJoin",
        LO::AntiJoin(_) => "AntiJoin",
        LO::Unwind(_) => "Unwind",
        LO::Merge(_) => "Merge",
        LO::ShortestPath(_) => "ShortestPath",
        _ => "other",
    }
}

fn op_children(op: &LO) -> Vec<&LO> {
    match op {
        LO::NodeScan(s) => s.input.iter().map(|b| b.as_ref()).collect(),
        LO::EdgeScan(s) => s.input.iter().map(|b| b.as_ref()).collect(),
        LO::Expand(e) => vec![e.input.as_ref()],
        LO::Filter(f) => vec![f.input.as_ref()],
        LO::Project(p) => vec![p.input.as_ref()],
        LO::Join(j) => vec![j.left.as_ref(), j.right.as_ref()],
        LO::Aggregate(a) => vec![a.input.as_ref()],
        LO::Limit(l) => vec![l.input.as_ref()],
        LO::Skip(l) => vec![l.input.as_ref()],
        LO::Sort(l) => vec![l.input.as_ref()],
        LO::Distinct(l) => vec![l.input.as_ref()],
        LO::CreateNode(c) => c.input.iter().map(|b| b.as_ref()).collect(),
        LO::CreateEdge(c) => vec![c.input.as_ref()],
        LO::DeleteNode(c) => vec![c.input.as_ref()],
        LO::DeleteEdge(c) => vec![c.input.as_ref()],
        LO::SetProperty(c) => vec![c.input.as_ref()],
        LO::AddLabel(c) => vec![c.input.as_ref()],
        LO::RemoveLabel(c) => vec![c.input.as_ref()],
        LO::Return(r) => vec![r.input.as_ref()],
        LO::LeftJoin(j) => vec![j.left.as_ref(), j.right.as_ref()],
        LO::AntiJoin(j) => vec![j.left.as_ref(), j.right.as_ref()],
        LO::Unwind(u) => vec![u.input.as_ref()],
        LO::Merge(m) => vec![m.input.as_ref()],
        LO::ShortestPath(m) => vec![m.input.as_ref()],
        _ => vec![],
    }
}

/// variable -> kind ("node" / "edge" / "value"), prefixed "opt_" when bound on the optional side of a LeftJoin
fn var_kinds(op: &LO, optional: bool, out: &mut BTreeMap<String, String>) {
    let tag = |k: &str| if optional { format!("opt_{k}") } else { k.to_string() };
    match op {
        LO::NodeScan(s) => {
            out.entry(s.variable.clone()).or_insert_with(|| tag("node"));
        }
        LO::Expand(e) => {
            out.entry(e.to_variable.clone()).or_insert_with(|| tag("node"));
            if let Some(v) = &e.edge_variable {
                out.entry(v.clone()).or_insert_with(|| tag("edge"));
            }
        }
        LO::Unwind(u) => {
            out.entry(u.variable.clone()).or_insert_with(|| tag("value"));
        }
        LO::Project(p) => {
            for x in &p.projections {
                if let Some(a) = &x.alias {
                    if !matches!(&x.expression, LE::Variable(v) if v == a) {
                        out.entry(a.clone()).or_insert_with(|| tag("value"));
                    }
                }
            }
        }
        _ => {}
    }
    if let LO::LeftJoin(j) = op {
        var_kinds(&j.left, optional, out);
        var_kinds(&j.right, true, out);
    } else {
        for c in op_children(op) {
            var_kinds(c, optional, out);
        }
    }
}

fn expr_vars(e: &LE, out: &mut Vec<String>) {
    match e {
        LE::Variable(v) | LE::Labels(v) | LE::Type(v) | LE::Id(v) => out.push(v.clone()),
        LE::Property { variable, .. } => out.push(variable.clone()),
        LE::Binary { left, right, .. } => {
            expr_vars(left, out);
            expr_vars(right, out);
        }
        LE::Unary { operand, .. } => expr_vars(operand, out),
        LE::FunctionCall { args, .. } => args.iter().for_each(|a| expr_vars(a, out)),
        LE::List(items) => items.iter().for_each(|a| expr_vars(a, out)),
        _ => {}
    }
}

/// every Filter of the plan: (predicate, kind of the operator it sits on)
fn filters(op: &LO, out: &mut Vec<(String, &'static str, Vec<String>)>) {
    if let LO::Filter(f) = op {
        let mut vars = Vec::new();
        expr_vars(&f.predicate, &mut vars);
        out.push((format!("{:?}", f.predicate), op_kind(&f.input), vars));
    }
    for c in op_children(op) {
        filters(c, out);
    }
}

/// the plan carries values through a WITH projection (typed vectors: NULLs may lose their null-ness)
fn has_projection(op: &LO) -> bool {
    matches!(op, LO::Project(_)) || op_children(op).into_iter().any(has_projection)
}

/// number of places that bind `v` (NodeScan variable, Expand target / edge variable, UNWIND variable)
fn binding_sites(op: &LO, v: &str) -> usize {
    let here = match op {
        LO::NodeScan(s) => usize::from(s.variable == v),
        LO::Expand(e) => usize::from(e.to_variable == v) + usize::from(e.edge_variable.as_deref() == Some(v)),
        LO::Unwind(u) => usize::from(u.variable == v),
        _ => 0,
    };
    here + op_children(op).into_iter().map(|c| binding_sites(c, v)).sum::<usize>()
}

/// every Filter of the plan with the scope below it: (predicate, child kind, variables read, variables bound below)
fn filters_scoped(op: &LO, out: &mut Vec<(String, Vec<String>, BTreeMap<String, String>)>) {
    if let LO::Filter(f) = op {
        let mut vars = Vec::new();
        expr_vars(&f.predicate, &mut vars);
        let mut below = BTreeMap::new();
        var_kinds(&f.input, false, &mut below);
        out.push((format!("{:?}", f.predicate), vars, below));
    }
    for c in op_children(op) {
        filters_scoped(c, out);
    }
}

/// Canonical description of what filter push-down did, coarse enough to name one root cause:
///  * `renamed_by_with` — a filter was moved below the WITH that renames a variable it reads;
///  * `scope=unbound`   — a filter now sits where a variable it reads is not bound;
///  * `scope=ambiguous` — a filter moved although a variable it reads is bound in several places;
///  * `onto=Filter`     — a filter now sits directly on another filter;
///  * `vars=<opt|edge|value|node>` otherwise — the most delicate kind of variable the moved
///    filter reads (opt = bound on the optional side of a left join, may be NULL).
/// A filter that sat on a WITH projection and read a name that the projection introduces by
/// renaming a variable (`WITH b AS a`, `WITH a AS x`, swaps) no longer sits on that projection:
/// it was moved below the rename without rewriting the name.
fn moved_through_rename(before: &LO, after: &LogicalPlan) -> bool {
    fn on_project(op: &LO, pred: &str) -> bool {
        if let LO::Filter(f) = op {
            if format!("{:?}", f.predicate) == pred && matches!(f.input.as_ref(), LO::Project(_)) {
                return true;
            }
        }
        op_children(op).into_iter().any(|c| on_project(c, pred))
    }
    if let LO::Filter(f) = before {
        if let LO::Project(p) = f.input.as_ref() {
            let renames: Vec<&String> = p.projections.iter().filter_map(|x| match (&x.expression, &x.alias) {
                (LE::Variable(v), Some(a)) if v != a => Some(a),
                _ => None,
            }).collect();
            let mut vars = Vec::new();
            expr_vars(&f.predicate, &mut vars);
            if vars.iter().any(|v| renames.contains(&v)) && !on_project(&after.root, &format!("{:?}", f.predicate)) {
                return true;
            }
        }
    }
    op_children(before).into_iter().any(|c| moved_through_rename(c, after))
}

fn moved_filters(before: &LogicalPlan, after: &LogicalPlan) -> String {
    if moved_through_rename(&before.root, after) {
        return "renamed_by_with".into();
    }
    let mut kinds = BTreeMap::new();
    var_kinds(&before.root, false, &mut kinds);
    let (mut a, mut b) = (Vec::new(), Vec::new());
    filters(&before.root, &mut a);
    filters(&after.root, &mut b);
    let mut scoped = Vec::new();
    filters_scoped(&after.root, &mut scoped);
    let mut descr: Vec<String> = Vec::new();
    let mut used = vec![false; a.len()];
    for (bi, (pred, onto, vars)) in b.iter().enumerate() {
        if let Some(i) = (0..a.len()).find(|i| !used[*i] && a[*i].0 == *pred && a[*i].1 == *onto) {
            used[i] = true;
            continue;
        }
        let from = (0..a.len()).find(|i| !used[*i] && a[*i].0 == *pred).map(|i| {
            used[i] = true;
            a[i].1
        });
        let below = &scoped[bi].2;
        if vars.iter().any(|v| !below.contains_key(v)) {
            descr.push("scope=unbound".into());
            continue;
        }
        if vars.iter().any(|v| binding_sites(&after.root, v) > 1) {
            descr.push("scope=ambiguous".into());
            continue;
        }
        if *onto == "Filter" {
            descr.push("onto=Filter".into());
            continue;
        }
        // what matters is the most delicate kind of variable the filter reads: one bound by an
        // OPTIONAL MATCH (may be NULL), an edge, a plain value, or only nodes
        let vk: Vec<String> = vars.iter().map(|v| kinds.get(v).cloned().unwrap_or_else(|| "unbound".into())).collect();
        let class = if vk.iter().any(|k| k.starts_with("opt_")) {
            "opt"
        } else if vk.iter().any(|k| k == "edge") {
            "edge"
        } else if vk.iter().any(|k| k == "value") {
            "value"
        } else {
            "node"
        };
        let _ = from;
        descr.push(format!("vars={class}"));
    }
    descr.sort();
    descr.dedup();
    if descr.is_empty() { "no_filter_moved".into() } else { descr.join(";") }
}

fn coarse_kind(what: &str, kind: &str) -> String {
    // a filter evaluated in the wrong scope can do anything to the rows, including turning an
    // error into rows or the reverse: one class
    if (what.contains("scope=") || what.contains("vars=opt") || what == "renamed_by_with" || what == "expand_from_null") && !kind.starts_with("panic@") && !kind.starts_with("baseline_panic@") {
        "differs".into()
    } else {
        kind.to_string()
    }
}

use grafeo_common::types::Value;

type DNode<'a> = &'a [(&'a str, Value)];
type DEdge<'a> = (usize, usize, &'a str, &'a [(&'a str, Value)]);

fn dgraph(nodes: &[DNode], edges: &[DEdge]) -> GraphSpec {
    let mut g = GraphSpec::default();
    for (i, n) in nodes.iter().enumerate() {
        let mut props = vec![("uid".to_string(), Value::Int64(i as i64))];
        props.extend(n.iter().map(|(k, v)| (k.to_string(), v.clone())));
        g.nodes.push(qgen::NodeSpec { labels: vec!["L0".to_string()], props });
    }
    for (j, (s, d, ty, p)) in edges.iter().enumerate() {
        let mut props = vec![("uid".to_string(), Value::Int64(100 + j as i64))];
        props.extend(p.iter().map(|(k, v)| (k.to_string(), v.clone())));
        g.edges.push(qgen::EdgeSpec { src: *s, dst: *d, ty: ty.to_string(), props });
    }
    g
}

/// Directed texts on fixed graphs: one per way filter push-down is known to matter, plus plain
/// ones. Enumerated on every run; they share the signature scheme of the random part.
fn directed() -> Vec<(Lang, &'static str, GraphSpec)> {
    let i = Value::Int64;
    let f = Value::Float64;
    let st = |x: &str| Value::String(x.into());
    let plain = dgraph(
        &[&[("k", i(2)), ("w", i(3))], &[("k", i(0)), ("w", i(1))], &[("k", i(5))], &[]],
        &[(0, 1, "T0", &[("w", i(9))]), (1, 2, "T0", &[("w", i(2))]), (2, 0, "T1", &[]), (0, 2, "T0", &[("w", i(4))])],
    );
    vec![
        (Lang::Gql, "MATCH (a)-[r]->(b) WHERE a.k > 1 RETURN a.uid AS c1, b.uid AS c2", plain.clone()),
        (Lang::Cypher, "MATCH (a)-[r]->(b) WHERE a.k > 1 RETURN a.uid AS c1, b.uid AS c2", plain.clone()),
        (Lang::Gql, "MATCH (a:L0)-[r:T0]->(b)-[s]->(c) WHERE a.w >= 2 RETURN a.uid AS c1, c.uid AS c2, r.w AS c3", plain.clone()),
        (Lang::Gql, "MATCH (a)-[r]->(b) MATCH (c:L0) WHERE c.k < 3 RETURN a.uid AS c1, c.uid AS c2", plain.clone()),
        // a pushed filter lands directly on another filter
        (Lang::Gql, "MATCH (a {s: 'a'})-[r]->(b) WHERE a.k <= 4 RETURN a.uid AS c1", dgraph(&[&[("s", st("a"))], &[("k", i(0))]], &[(1, 0, "T0", &[])])),
        (Lang::Cypher, "MATCH (a) WHERE a.w <= 5 WITH a WHERE a.s IS NULL RETURN a.uid AS c1", dgraph(&[&[("w", i(4)), ("s", st("a"))], &[]], &[])),
        // an edge variable's property read above a Join / a Project
        (Lang::Gql, "MATCH (a)-[r]->(b) MATCH (c) WHERE r.w > 4 RETURN a.uid AS c1, c.uid AS c2", dgraph(&[&[], &[]], &[(0, 1, "T1", &[("w", f(9.0))])])),
        (Lang::Gql, "MATCH (a)-[r]->(b) WITH r WHERE 7 < r.w RETURN r.w AS c1", dgraph(&[&[], &[]], &[(1, 0, "T1", &[("w", i(8))])])),
        // an optional variable read above a Project
        (
            Lang::Gql,
            "MATCH (a) OPTIONAL MATCH (a)-[r]->(b) WITH b WHERE b.k <> b.z RETURN b.uid AS c1",
            dgraph(&[&[("k", i(0)), ("z", i(1))], &[], &[]], &[(1, 2, "T0", &[])]),
        ),
        // a variable bound on both sides of the join the filter is pushed into
        (Lang::Gql, "MATCH (a) MATCH (a), (b) WHERE a.z = 0.0 RETURN a.uid AS c1", dgraph(&[&[], &[("z", f(0.0))]], &[])),
        // ---- WITH renames followed by WHERE on the new names (the filter must stay above the
        // projection: below it the name means another binding or nothing); the graph gives the
        // two ends of every edge different k, and edges their own w
    ]
    .into_iter()
    .chain(rename_family())
    .chain(vec![
        // a predicate over an OPTIONAL MATCH variable pushed into the other join side
        (
            Lang::Gql,
            "MATCH (a) OPTIONAL MATCH (a)-[r]->(b) MATCH (a) WHERE NOT (r.w = 0 AND a.w >= 9) RETURN a.uid AS c1",
            dgraph(&[&[("w", f(0.0))], &[]], &[(0, 1, "T1", &[])]),
        ),
    ])
    .collect()
}

fn rename_family() -> Vec<(Lang, &'static str, GraphSpec)> {
    let i = Value::Int64;
    let g = dgraph(
        &[&[("k", i(1)), ("w", i(9))], &[("k", i(5)), ("w", i(2))], &[("k", i(3)), ("w", i(7))], &[("k", i(8))]],
        &[(0, 1, "T0", &[("w", i(9))]), (1, 2, "T0", &[("w", i(2))]), (2, 3, "T1", &[("w", i(6))]), (0, 2, "T0", &[("w", i(4))]), (3, 0, "T1", &[("w", i(1))])],
    );
    const TEXTS: &[&str] = &[
        // fresh name
        "MATCH (a)-[r]->(b) WITH a AS x WHERE x.k > 2 RETURN x.uid AS c1",
        "MATCH (a)-[r]->(b) WITH a AS x, b WHERE x.k > 2 RETURN x.uid AS c1, b.uid AS c2",
        // shadowing an existing name
        "MATCH (a)-[r]->(b) WITH b AS a WHERE a.k > 2 RETURN a.uid AS c1",
        "MATCH (a)-[r]->(b) WITH b AS a WHERE a.k < 4 RETURN a.k AS c1",
        // swapping two names
        "MATCH (a)-[r]->(b) WITH a AS b, b AS a WHERE a.k > 2 RETURN a.uid AS c1, b.uid AS c2",
        "MATCH (a)-[r]->(b) WITH b AS a, a AS b WHERE b.k = 1 RETURN a.uid AS c1, b.uid AS c2",
        // renaming an edge variable
        "MATCH (a)-[r]->(b) WITH r AS e, a WHERE e.w > 3 RETURN a.uid AS c1",
        "MATCH (a)-[r]->(b)-[s]->(c) WITH s AS r, a WHERE r.w > 3 RETURN a.uid AS c1",
        // rename and property alias mixed
        "MATCH (a)-[r]->(b) WITH b AS a, b.w AS bw WHERE a.k > 2 RETURN a.uid AS c1, bw AS c2",
        "MATCH (a)-[r]->(b) WITH a AS x, a.k AS ak, b WHERE x.k > 2 AND b.k > 2 RETURN x.uid AS c1, ak AS c2, b.uid AS c3",
        // two hops
        "MATCH (a)-[r]->(b)-[s]->(c) WITH c AS a, b WHERE a.k > 2 RETURN a.uid AS c1, b.uid AS c2",
        "MATCH (a)-[r]->(b)-[s]->(c) WITH a AS c, c AS a, b WHERE a.k > 4 RETURN a.uid AS c1, b.uid AS c2, c.uid AS c3",
        "MATCH (a)-[r]->(b)-[s]->(c) WITH b AS x, c WHERE x.k >= 3 AND c.k > 3 RETURN x.uid AS c1, c.uid AS c2",
    ];
    let mut v = Vec::new();
    for t in TEXTS {
        for lang in [Lang::Gql, Lang::Cypher] {
            v.push((lang, *t, g.clone()));
        }
    }
    v
}

fn run_directed(rep: &mut Report) {
    let configs = all_configs();
    for (lang, text, g) in directed() {
        let plan = match lang {
            Lang::Gql => translate_gql(text),
            Lang::Cypher => translate_cypher(text),
        };
        let plan = match plan.and_then(|p| Binder::new().bind(&p).map(|_| p)) {
            Ok(p) => p,
            Err(e) => {
                rep.count("directed.rejected", 1);
                rep.extra.insert(format!("directed.rejected.{text}"), json!(e.to_string()));
                continue;
            }
        };
        rep.eval();
        rep.count("directed.plans", 1);
        let run = run_case(&g, false, &plan, &configs);
        rep.count("configurations_executed", run.runs.len() as u64);
        if run.runs.iter().any(|r| r.2) {
            rep.count("plans_rewritten", 1);
            rep.count("directed.rewritten", 1);
            rep.nontrivial(hash_str(text));
        }
        let failing: Vec<usize> = (0..run.runs.len()).filter(|i| mismatch(&run, *i, false).is_some()).collect();
        let Some(&first) = failing.first() else { continue };
        rep.count("directed.with_mismatch", 1);
        let (s0, c0, _, got, _) = &run.runs[first];
        let kind = mismatch(&run, first, false).unwrap();
        let fails_at = |s: usize, c: usize| run.runs.iter().position(|r| r.0 == s && r.1 == c).is_some_and(|i| mismatch(&run, i, false).is_some());
        let rules: Vec<&str> = [(1usize, "filter_pushdown"), (2, "join_reorder"), (4, "projection_pushdown")].into_iter().filter(|(b, _)| fails_at(0, *b)).map(|(_, n)| n).collect();
        let rule = if rules.is_empty() { format!("only_combination_{}", switch_name(*c0)) } else { rules.join("+") };
        let per: Vec<bool> = (0..3).map(|st| fails_at(st, *c0)).collect();
        let stats = if per.iter().all(|x| *x) { "any".to_string() } else { (0..3).filter(|i| per[*i]).map(|i| STATS[i]).collect::<Vec<_>>().join("+") };
        let one = run_case(&g, false, &plan, &[(*s0, *c0)]);
        let what = match &one.last_optimized {
            Some(o) if rule == "filter_pushdown" => moved_filters(&plan, o),
            _ => format!("directed:{text}"),
        };
        rep.deviation(
            &format!("c09:rule={rule}|{what}|stats={stats}|{}", coarse_kind(&what, &kind)),
            json!({"query": text, "lang": lang.name(), "graph": qgen::graph_json(&g), "switches": switch_name(*c0), "stats_state": STATS[*s0],
                   "expected_unrewritten": run.base.brief(), "got_rewritten": got.brief(), "plan_unrewritten": run.base_plan, "plan_rewritten": one.last_plan}),
        );
    }
}


// ------------------------------------------------------------------------------------------
// latent stratum: hand-built plans with join conditions (the only way to reach DPccp)
// ------------------------------------------------------------------------------------------

/// No LPG front end emits a Join with conditions, so join reordering never rewrites a
/// translated plan. These hand-built plans (the shape the repository's own planner tests use)
/// show what the rule would do; they lie outside the property's quantifier ("queries the
/// front ends accept"), hence they are reported as information, never as deviations.
fn latent_join_reorder(rep: &mut Report) {
    use grafeo_engine::query::plan::{BinaryOp, ExpandDirection, ExpandOp, FilterOp, JoinCondition, JoinOp, JoinType, NodeScanOp, ReturnItem, ReturnOp};
    let scan = |v: &str, label: Option<&str>| LO::NodeScan(NodeScanOp { variable: v.into(), label: label.map(String::from), input: None });
    let var = |v: &str| LE::Variable(v.into());
    let prop = |v: &str, k: &str| LE::Property { variable: v.into(), property: k.into() };
    let filter = |v: &str, k: &str, op: BinaryOp, x: i64, input: LO| {
        LO::Filter(FilterOp { predicate: LE::Binary { left: Box::new(prop(v, k)), op, right: Box::new(LE::Literal(Value::Int64(x))) }, input: Box::new(input) })
    };
    let join = |l: LO, r: LO, a: &str, b: &str| {
        LO::Join(JoinOp { left: Box::new(l), right: Box::new(r), join_type: JoinType::Inner, conditions: vec![JoinCondition { left: var(a), right: var(b) }] })
    };
    let ret = |vars: &[&str], input: LO| {
        LogicalPlan::new(LO::Return(ReturnOp {
            items: vars.iter().enumerate().map(|(i, v)| ReturnItem { expression: prop(v, "uid"), alias: Some(format!("c{}", i + 1)) }).collect(),
            distinct: false,
            input: Box::new(input),
        }))
    };
    let expand = |from: &str, to: &str, input: LO| {
        LO::Expand(ExpandOp {
            from_variable: from.into(),
            to_variable: to.into(),
            edge_variable: None,
            direction: ExpandDirection::Outgoing,
            edge_type: None,
            min_hops: 1,
            max_hops: Some(1),
            input: Box::new(input),
            path_alias: None,
        })
    };
    let plans: Vec<(&str, LogicalPlan)> = vec![
        ("join(a,b) on a=b", ret(&["a", "b"], join(scan("a", Some("L0")), scan("b", None), "a", "b"))),
        ("join(filter(a),b) on a=b", ret(&["a", "b"], join(filter("a", "k", BinaryOp::Gt, 1, scan("a", None)), scan("b", None), "a", "b"))),
        (
            "join(join(filter(a),b),filter(c)) on a=b, b=c",
            ret(&["a", "b", "c"], join(join(filter("a", "k", BinaryOp::Gt, 0, scan("a", None)), scan("b", None), "a", "b"), filter("c", "k", BinaryOp::Lt, 5, scan("c", None)), "b", "c")),
        ),
        ("join(expand(a->b),c) on b=c", ret(&["a", "b", "c"], join(expand("a", "b", scan("a", None)), scan("c", Some("L0")), "b", "c"))),
        (
            "join(join(a,b),join(c,d)) on a=b, c=d, b=c",
            ret(&["a", "d"], join(join(scan("a", None), scan("b", None), "a", "b"), join(scan("c", None), filter("d", "k", BinaryOp::Gt, 1, scan("d", None)), "c", "d"), "b", "c")),
        ),
    ];
    let g = directed().into_iter().next().unwrap().2;
    let configs = all_configs();
    let mut notes = Vec::new();
    for (name, plan) in plans {
        if Binder::new().bind(&plan).is_err() {
            notes.push(json!({"plan": name, "note": "binder rejects"}));
            continue;
        }
        let run = run_case(&g, false, &plan, &configs);
        rep.count("latent.plans", 1);
        let by_join = run.runs.iter().any(|r| r.0 == 0 && r.1 == 2 && r.2);
        if by_join {
            rep.count("latent.rewritten_by_join_reorder", 1);
        }
        let failing: Vec<String> = (0..run.runs.len())
            .filter_map(|i| mismatch(&run, i, false).map(|k| format!("{}/{}:{k}", STATS[run.runs[i].0], switch_name(run.runs[i].1))))
            .collect();
        if !failing.is_empty() {
            rep.count("latent.plans_with_mismatch", 1);
        }
        let one = run_case(&g, false, &plan, &[(0, 2)]);
        notes.push(json!({"plan": name, "rewritten_by_join_reorder": by_join, "unrewritten": run.base.brief(), "configurations_that_differ": failing,
                          "with_join_reorder_only": one.runs[0].3.brief(), "plan_after_join_reorder": one.last_plan}));
    }
    rep.extra.insert("latent_join_reorder(hand-built plans, information only)".into(), json!(notes));
}

/// Developer aid / manual replay: `C09_CASE=<n> vh C09 --tier T --seed S` re-generates random
/// case n and prints the rows on which the un-rewritten plan and filter push-down disagree.
fn replay_case(tier: Tier, seed: u64, case: u64) -> ! {
    hooks::NO_ZONE_MAP.store(true, Ordering::SeqCst);
    hooks::NO_INDEX_PATH.store(true, Ordering::SeqCst);
    hooks::NO_RANGE_PATH.store(true, Ordering::SeqCst);
    let mut r = Rng::new(seed, "c09", case);
    let g = qgen::gen_graph(&mut r, tier.pick(9, 12), tier.pick(16, 22));
    let lang = if r.chance(0.55) { Lang::Gql } else { Lang::Cypher };
    let q = qgen::gen_query(&mut r, Profile::Wide, lang, true);
    println!("{} [{}]\n{}", q.text(), lang.name(), serde_json::to_string(&qgen::graph_json(&g)).unwrap());
    let plan = translate(&q).expect("accepted");
    let run = run_case(&g, q.mutation.is_some(), &plan, &[(0, 1)]);
    println!("un-rewritten: {}\npush-down:    {}", run.base_plan, run.last_plan);
    if let (Outcome::Rows(a), Outcome::Rows(b)) = (&run.base, &run.runs[0].3) {
        let mut m: BTreeMap<&String, i64> = BTreeMap::new();
        for x in a {
            *m.entry(x).or_insert(0) += 1;
        }
        for x in b {
            *m.entry(x).or_insert(0) -= 1;
        }
        println!("{} vs {} rows", a.len(), b.len());
        for (k, v) in m {
            if v != 0 {
                println!("  {} x{}: {k}", if v > 0 { "only un-rewritten" } else { "only push-down   " }, v.abs());
            }
        }
    } else {
        println!("{}\n{}", run.base.brief(), run.runs[0].3.brief());
    }
    std::process::exit(0)
}

pub fn run(tier: Tier, seed: u64) -> ! {
    if let Some(case) = std::env::var("C09_CASE").ok().and_then(|c| c.parse().ok()) {
        replay_case(tier, seed, case);
    }
    let mut rep = Report::new("C09", tier, seed, "exploration");
    rep.rule = "one random small graph + one random GQL/Cypher text per case; translated and bound once; executed under 8 switch combinations x 3 statistics states against the un-rewritten plan. Non-trivial = some configuration's optimized plan differs structurally (Debug string) from P; distinct by canonical query skeleton".into();
    rep.assumptions = vec![
        "physical strategy pinned for every configuration: planner.no_zone_map / no_index_path / no_range_path on, factorized execution off, no property index (physical alternatives are C10's subject)".into(),
        "epoch-0 data loaded through the direct API; plans executed through Planner::new(store) + Executor as the repository's own tests do".into(),
        "mutating statements run on a fresh copy of the database per configuration; returned rows and a bit-exact digest of the resulting graph are compared".into(),
        "rows compared bit-exactly as multisets, as sequences when the ORDER BY keys identify every row".into(),
    ];
    hooks::NO_ZONE_MAP.store(true, Ordering::SeqCst);
    hooks::NO_INDEX_PATH.store(true, Ordering::SeqCst);
    hooks::NO_RANGE_PATH.store(true, Ordering::SeqCst);

    let n_cases = tier.pick(2000u64, 40_000u64);
    let budget = tier.pick(250usize, 400usize);
    let configs = all_configs();
    let mut reduced_cache: BTreeMap<String, String> = BTreeMap::new();
    let mut rejected_examples: BTreeMap<String, String> = BTreeMap::new();

    qgen::watchdog("C09", 120);
    run_directed(&mut rep);
    latent_join_reorder(&mut rep);

    for case in 0..n_cases {
        let mut r = Rng::new(seed, "c09", case);
        let g = qgen::gen_graph(&mut r, tier.pick(9, 12), tier.pick(16, 22));
        let (q, plan) = {
            let lang = if r.chance(0.55) { Lang::Gql } else { Lang::Cypher };
            let q = qgen::gen_query(&mut r, Profile::Wide, lang, true);
            match translate(&q) {
                Ok(p) => (q, p),
                Err(e) => {
                    rep.count(&format!("rejected.{}", lang.name()), 1);
                    let class: String = e.chars().take(60).collect();
                    rejected_examples.entry(class).or_insert_with(|| q.text());
                    continue;
                }
            }
        };
        qgen::tick(&q.text());
        if std::env::var("C09_TRACE").is_ok() {
            eprintln!("case {case}: {}", q.text());
        }
        rep.eval();
        rep.count(&format!("plans.{}", q.lang.name()), 1);
        if q.mutation.is_some() {
            rep.count("plans.mutating", 1);
        }
        if let Some(w) = &q.with {
            if w.items.iter().any(|(e, a)| matches!(e, qgen::Expr::Var(v) if v != a)) {
                rep.count("plans.with_rename", 1);
                if w.filter.is_some() {
                    rep.count("plans.with_rename_then_where", 1);
                }
            }
        }
        let text = q.text();
        let run = run_case(&g, q.mutation.is_some(), &plan, &configs);
        rep.count("configurations_executed", run.runs.len() as u64);
        match &run.base {
            Outcome::Rows(rows) => {
                rep.count("baseline.rows_total", rows.len() as u64);
                if !rows.is_empty() {
                    rep.count("baseline.nonempty", 1);
                }
            }
            Outcome::Error(_) => rep.count("baseline.error", 1),
            Outcome::Panic(..) => rep.count("baseline.panic", 1),
        }
        // which rule rewrote the plan (single-switch configurations, fresh statistics)
        let mut any_rewrite = false;
        for (s, c, rewritten, _, _) in &run.runs {
            if *rewritten {
                any_rewrite = true;
                rep.count(&format!("rewritten.stats={}.switches={}", STATS[*s], switch_name(*c)), 1);
                if *s == 0 {
                    match c {
                        1 => rep.count("rule_fired.filter_pushdown", 1),
                        2 => rep.count("rule_fired.join_reorder", 1),
                        4 => rep.count("rule_fired.projection_pushdown", 1),
                        _ => {}
                    }
                }
            }
        }
        if any_rewrite {
            rep.count("plans_rewritten", 1);
            let sk = q.skeleton();
            rep.nontrivial(hash_str(&sk));
            rep.sample(json!({"lang": q.lang.name(), "query": text, "plan_before": run.base_plan.chars().take(600).collect::<String>(), "baseline": run.base.brief().chars().take(300).collect::<String>()}));
        }
        // compare
        let ordered = q.ordered();
        let failing: Vec<usize> = (0..run.runs.len()).filter(|i| mismatch(&run, *i, ordered).is_some()).collect();
        if failing.is_empty() {
            continue;
        }
        rep.count("cases_with_mismatch", 1);
        rep.count("configurations_with_mismatch", failing.len() as u64);
        let first = failing[0];
        let (s, c, _, _, _) = &run.runs[first];
        let kind0 = mismatch(&run, first, ordered).unwrap();
        // reduce (graph, query) under the first failing configuration
        let pre = format!("{}|{}|{}|{kind0}", q.skeleton(), s, c);
        let sig = if let Some(sig) = reduced_cache.get(&pre) {
            sig.clone()
        } else {
            let (s0, c0) = (*s, *c);
            let mut fails = |g2: &GraphSpec, q2: &Query| still_fails(g2, q2, s0, c0).is_some();
            let (g2, q2, used) = qgen::reduce(&g, &q, budget, &mut fails);
            rep.count("reducer_steps", used as u64);
            let kind = still_fails(&g2, &q2, s0, c0).unwrap_or(kind0.clone());
            // minimal trigger: which single switches reproduce it, under which statistics
            let mut rules = Vec::new();
            for (bit, name) in [(1usize, "filter_pushdown"), (2, "join_reorder"), (4, "projection_pushdown")] {
                if still_fails(&g2, &q2, 0, bit).is_some() {
                    rules.push(name);
                }
            }
            let rule = if rules.is_empty() { format!("only_combination_{}", switch_name(c0)) } else { rules.join("+") };
            let per_stats: Vec<bool> = (0..3).map(|st| still_fails(&g2, &q2, st, c0).is_some()).collect();
            let stats = if per_stats.iter().all(|x| *x) {
                "any".to_string()
            } else {
                (0..3).filter(|i| per_stats[*i]).map(|i| STATS[i]).collect::<Vec<_>>().join("+")
            };
            let plan2 = translate(&q2).ok();
            let run2 = plan2.as_ref().map(|p| run_case(&g2, q2.mutation.is_some(), p, &[(s0, c0)]));
            // canonical part: what the rewrite did to the plan (filter push-down) or, for any
            // other rule, the skeleton of the reduced query
            let what = match (&plan2, run2.as_ref().and_then(|r| r.last_optimized.as_ref())) {
                (Some(p), Some(o)) if rule == "filter_pushdown" => moved_filters(p, o),
                _ => q2.skeleton(),
            };
            // an expand whose source is the NULL of an unmatched OPTIONAL MATCH raises an error;
            // whether rows reach it depends on where the filter sits (C09-F5), whatever the filter reads
            let null_source = run2.as_ref().is_some_and(|r| {
                [&r.base, &r.runs[0].3].into_iter().any(|o| matches!(o, Outcome::Error(e) if e.contains("Expected node ID in source column")))
            });
            let what = if null_source && rule == "filter_pushdown" && !what.contains("scope=") && what != "renamed_by_with" { "expand_from_null".to_string() } else { what };
            // same number of rows, other values, and the plan carries them through a WITH projection:
            // NULLs lose their null-ness there depending on the chunk layout (C09-F3)
            let projects = plan2.as_ref().is_some_and(|p| has_projection(&p.root));
            let what = if kind == "wrong_value" && projects && !what.contains("scope=") { "values_through_with".to_string() } else { what };
            let sig = format!("c09:rule={rule}|{what}|stats={stats}|{}", coarse_kind(&what, &kind));
            rep.deviation(
                &sig,
                json!({
                    "reduced_query": q2.text(), "reduced_graph": qgen::graph_json(&g2), "skeleton": q2.skeleton(),
                    "switches": switch_name(c0), "stats": STATS[s0],
                    "expected_unrewritten": run2.as_ref().map(|r| r.base.brief()),
                    "got_rewritten": run2.as_ref().map(|r| r.runs[0].3.brief()),
                    "plan_unrewritten": run2.as_ref().map(|r| r.base_plan.clone()),
                    "plan_rewritten": run2.as_ref().map(|r| r.last_plan.clone()),
                    "original_query": q.text(), "case": case, "reducer_steps": used,
                }),
            );
            reduced_cache.insert(pre, sig.clone());
            continue;
        };
        rep.deviation(&sig, json!({"query": q.text(), "case": case, "note": "same unreduced skeleton and configuration as an earlier reduced case"}));
    }

    rep.extra.insert("rejected_examples".into(), json!(rejected_examples));
    let fired = rep.counter("plans_rewritten");
    if fired == 0 {
        rep.inconclusive("the optimizer never rewrote any plan in this run");
    }
    for rule in ["join_reorder", "projection_pushdown"] {
        if rep.counter(&format!("rule_fired.{rule}")) == 0 {
            rep.extra.insert(
                format!("note.{rule}"),
                json!("never changed a translated plan in this run: no LPG front end emits a Join with conditions (DPccp needs a connected join graph) and push_projections_down only recurses without inserting projections"),
            );
        }
    }
    rep.finish()
}
