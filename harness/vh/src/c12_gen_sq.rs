//! C12 corpus for SPARQL.

use crate::c12::cgen::{chain, nest, wrap, Nest, EXTREME_NUMS};
use crate::c12::{Input, L_SPARQL};
use crate::rng::Rng;

const PFX: &str = "PREFIX foaf: <http://xmlns.com/foaf/0.1/> PREFIX ex: <http://example.org/> PREFIX xsd: <http://www.w3.org/2001/XMLSchema#> ";
const VARS: [&str; 6] = ["?s", "?p", "?o", "?x", "?n", "?a"];
const IRIS: [&str; 12] = [
    "foaf:name", "foaf:age", "foaf:knows", "ex:score", "ex:p", "ex:alice", "ex:bob", "<http://example.org/carol>", "a", "ex:nope", "foaf:Person", "<http://example.org/k0>",
];
const LITS: [&str; 22] = [
    "1", "0", "-1", "30", "9223372036854775807", "-9223372036854775808", "1.5", "1e0", "1e400", "\"Alice\"", "\"\"", "'a'", "\"Zoë\"@fr", "\"1\"^^xsd:integer", "\"x\"^^xsd:integer",
    "\"NaN\"^^xsd:double", "true", "false", "\"2024-01-01T00:00:00Z\"^^xsd:dateTime", "\"9223372036854775808\"^^xsd:integer", "'''long'''", "\"a\\nb\"",
];
pub const FUNCS: [&str; 62] = [
    "STR", "LANG", "LANGMATCHES", "DATATYPE", "IRI", "URI", "BNODE", "RAND", "ABS", "CEIL", "FLOOR", "ROUND", "CONCAT", "STRLEN", "UCASE", "LCASE", "ENCODE_FOR_URI", "CONTAINS",
    "STRSTARTS", "STRENDS", "STRBEFORE", "STRAFTER", "YEAR", "MONTH", "DAY", "HOURS", "MINUTES", "SECONDS", "TIMEZONE", "TZ", "NOW", "UUID", "STRUUID", "MD5", "SHA1", "SHA256",
    "SHA384", "SHA512", "STRLANG", "STRDT", "SAMETERM", "ISIRI", "ISURI", "ISBLANK", "ISLITERAL", "ISNUMERIC", "REGEX", "SUBSTR", "REPLACE", "VECTOR", "COSINE_SIMILARITY",
    "EUCLIDEAN_DISTANCE", "DOT_PRODUCT", "MANHATTAN_DISTANCE", "BOUND", "IF", "COALESCE", "COUNT", "SUM", "AVG", "SAMPLE", "GROUP_CONCAT",
];

fn term(r: &mut Rng) -> String {
    match r.below(10) {
        0..=4 => (*r.pick(&VARS)).to_string(),
        5..=7 => (*r.pick(&IRIS)).to_string(),
        8 => (*r.pick(&LITS)).to_string(),
        _ => (*r.pick(&["_:b", "[]", "[ foaf:name ?n ]", "( 1 2 )", "()"])).to_string(),
    }
}

fn path(r: &mut Rng, d: u32) -> String {
    if d == 0 || r.chance(0.5) {
        return (*r.pick(&["foaf:knows", "foaf:name", "ex:p", "a", "?p", "<http://example.org/p>", "ex:nope"])).to_string();
    }
    match r.below(8) {
        0 => format!("{}/{}", path(r, d - 1), path(r, d - 1)),
        1 => format!("{}|{}", path(r, d - 1), path(r, d - 1)),
        2 => format!("^{}", path(r, d - 1)),
        3 => format!("({})", path(r, d - 1)),
        4 => format!("{}?", path(r, d - 1)),
        5 => format!("!{}", r.pick(&["foaf:knows", "(foaf:knows|foaf:name)", "^ex:p", "(^ex:p|a)", "a"])),
        // closures only over the small fixture's 3-cycle are cheap; kept rare
        6 => format!("{}{}", r.pick(&["foaf:knows", "ex:nope", "(foaf:knows)"]), r.pick(&["?", "?", "+", "*"])),
        _ => path(r, d - 1),
    }
}

pub fn expr(r: &mut Rng, d: u32) -> String {
    if d == 0 || r.chance(0.25) {
        return match r.below(3) {
            0 => (*r.pick(&VARS)).to_string(),
            1 => (*r.pick(&LITS)).to_string(),
            _ => (*r.pick(&IRIS[..8])).to_string(),
        };
    }
    let e = |r: &mut Rng| expr(r, d - 1);
    match r.below(14) {
        0 => format!("{} {} {}", e(r), r.pick(&["+", "-", "*", "/"]), e(r)),
        1 => format!("{} {} {}", e(r), r.pick(&["=", "!=", "<", "<=", ">", ">="]), e(r)),
        2 => format!("{} {} {}", e(r), r.pick(&["&&", "||"]), e(r)),
        3 => format!("!{}", e(r)),
        4 => format!("-{}", e(r)),
        5 => format!("({})", e(r)),
        6 => format!("{} {}IN ({})", e(r), if r.chance(0.3) { "NOT " } else { "" }, (0..r.below(4)).map(|_| e(r)).collect::<Vec<_>>().join(", ")),
        7..=9 => {
            let n = r.below(4);
            format!("{}({})", r.pick(&FUNCS), (0..n).map(|_| e(r)).collect::<Vec<_>>().join(", "))
        }
        10 => format!("{}EXISTS {{ {} }}", if r.chance(0.5) { "NOT " } else { "" }, triples(r)),
        11 => format!("IF({}, {}, {})", e(r), e(r), e(r)),
        12 => format!("xsd:{}({})", r.pick(&["integer", "double", "string", "boolean", "dateTime", "decimal", "nope"]), e(r)),
        _ => format!("+{}", e(r)),
    }
}

fn triples(r: &mut Rng) -> String {
    let n = 1 + r.below(3);
    (0..n)
        .map(|_| {
            let p = if r.chance(0.25) { path(r, 2) } else { (*r.pick(&["?p", "foaf:name", "foaf:age", "foaf:knows", "ex:score", "a", "ex:p"])).to_string() };
            let mut t = format!("{} {} {}", term(r), p, term(r));
            if r.chance(0.15) {
                t.push_str(&format!(" ; {} {}", r.pick(&IRIS[..5]), term(r)));
            }
            if r.chance(0.1) {
                t.push_str(&format!(" , {}", term(r)));
            }
            t
        })
        .collect::<Vec<_>>()
        .join(" . ")
}

fn group(r: &mut Rng, d: u32) -> String {
    let mut s = triples(r);
    if d == 0 {
        return s;
    }
    let n = r.below(3);
    for _ in 0..n {
        s.push(' ');
        s.push_str(&match r.below(11) {
            0..=2 => format!("FILTER({})", expr(r, 3)),
            3 => format!("OPTIONAL {{ {} }}", group(r, d - 1)),
            4 => format!("{{ {} }} UNION {{ {} }}", group(r, d - 1), group(r, d - 1)),
            5 => format!("MINUS {{ {} }}", group(r, d - 1)),
            6 => format!("BIND({} AS ?b{})", expr(r, 2), r.below(3)),
            7 => format!("VALUES {} {{ {} }}", r.pick(&VARS), (0..r.below(4)).map(|_| (*r.pick(&["1", "\"a\"", "ex:alice", "UNDEF", "1.5", "true"])).to_string()).collect::<Vec<_>>().join(" ")),
            8 => format!("GRAPH {} {{ {} }}", r.pick(&["?g", "ex:g", "<http://example.org/g>"]), group(r, d - 1)),
            9 => format!("{{ SELECT {} WHERE {{ {} }} {} }}", r.pick(&["*", "?s", "?s (COUNT(?o) AS ?c)"]), group(r, d - 1), r.pick(&["", "LIMIT 2", "GROUP BY ?s", "ORDER BY ?s"])),
            _ => format!("FILTER {}({})", r.pick(&FUNCS), expr(r, 1)),
        });
    }
    s
}

fn modifiers(r: &mut Rng) -> String {
    let mut s = String::new();
    if r.chance(0.2) {
        s.push_str(&format!(" GROUP BY {}", r.pick(&["?s", "?p ?o", "(STR(?s) AS ?k)", "?nope", "(?a + 1)"])));
        if r.chance(0.4) {
            s.push_str(&format!(" HAVING ({})", expr(r, 2)));
        }
    }
    if r.chance(0.3) {
        s.push_str(&format!(" ORDER BY {}", r.pick(&["?s", "DESC(?o)", "ASC(?a) ?s", "(?a + 1)", "DESC(STR(?n))", "?nope", "RAND()"])));
    }
    if r.chance(0.3) {
        s.push_str(&format!(" LIMIT {}", r.pick(&["0", "1", "5", "9223372036854775807", "18446744073709551615", "18446744073709551616", "-1"])));
    }
    if r.chance(0.2) {
        s.push_str(&format!(" OFFSET {}", r.pick(&["0", "1", "100", "18446744073709551615", "-1"])));
    }
    s
}

pub fn gen_sparql(r: &mut Rng) -> String {
    let p = if r.chance(0.9) { PFX } else { "" };
    match r.below(16) {
        0..=7 => {
            let proj = match r.below(6) {
                0 => "*".to_string(),
                1 => "?s ?p ?o".to_string(),
                2 => format!("({} AS ?e)", expr(r, 3)),
                3 => format!("?s ({}({}?o) AS ?c)", r.pick(&["COUNT", "SUM", "AVG", "MIN", "MAX", "SAMPLE", "GROUP_CONCAT"]), if r.chance(0.3) { "DISTINCT " } else { "" }),
                4 => "(COUNT(*) AS ?c)".to_string(),
                _ => format!("{} {}", r.pick(&VARS), r.pick(&VARS)),
            };
            format!("{p}SELECT {}{proj} {}WHERE {{ {} }}{}", r.pick(&["", "", "DISTINCT ", "REDUCED "]), r.pick(&["", "", "", "FROM ex:g ", "FROM NAMED ex:g "]), group(r, 2), modifiers(r))
        }
        8 => format!("{p}ASK {{ {} }}", group(r, 2)),
        9 => format!("{p}CONSTRUCT {{ {} }} WHERE {{ {} }}{}", triples(r), group(r, 1), modifiers(r)),
        10 => format!("{p}DESCRIBE {} {}", r.pick(&["?s", "ex:alice", "*", "ex:alice ex:bob", "?s ?o"]), if r.chance(0.7) { format!("WHERE {{ {} }}", group(r, 1)) } else { String::new() }),
        11 => format!("{p}INSERT DATA {{ {} }}", triples(r).replace('?', "ex:v")),
        12 => format!("{p}DELETE DATA {{ {} }}", triples(r).replace('?', "ex:v")),
        13 => format!("{p}DELETE {{ {} }} INSERT {{ {} }} WHERE {{ {} }}", triples(r), triples(r), group(r, 1)),
        14 => format!("{p}{} WHERE {{ {} }}", r.pick(&["DELETE", "INSERT { ?s ex:new ?o }", "WITH ex:g DELETE { ?s ?p ?o }"]), group(r, 1)),
        _ => format!(
            "{p}{}",
            r.pick(&[
                "CLEAR ALL", "CLEAR DEFAULT", "CLEAR GRAPH ex:g", "DROP SILENT GRAPH ex:g", "DROP ALL", "CREATE GRAPH ex:g", "CREATE SILENT GRAPH ex:g", "LOAD <http://example.org/x.ttl>", "LOAD SILENT <file:///etc/passwd> INTO GRAPH ex:g",
                "COPY DEFAULT TO ex:g", "MOVE ex:g TO DEFAULT", "ADD ex:g TO ex:h", "CLEAR NAMED", "INSERT DATA { GRAPH ex:g { ex:a ex:p 1 } }", "DELETE WHERE { ?s ?p ?o }", "INSERT DATA { ex:a ex:p 1 } ; DELETE DATA { ex:a ex:p 1 }",
            ])
        ),
    }
}

pub fn sparql_nests() -> Vec<Nest> {
    let l = L_SPARQL;
    vec![
        nest(l, "group", |d| wrap("SELECT * WHERE ", "{ ", "?s ?p ?o", " }", "", d)),
        nest(l, "paren-filter", |d| wrap("SELECT * WHERE { ?s ?p ?o FILTER", "(", "true", ")", " }", d)),
        nest(l, "not", |d| wrap("SELECT * WHERE { ?s ?p ?o FILTER(", "!", "true", "", ") }", d)),
        nest(l, "unary-minus", |d| wrap("SELECT (", "- ", "1", "", " AS ?x) WHERE { ?s ?p ?o }", d)),
        nest(l, "optional", |d| wrap("SELECT * WHERE { ?s ?p ?o ", "OPTIONAL { ?s ?p ?o ", "", "}", " }", d)),
        nest(l, "subquery", |d| wrap("SELECT * WHERE ", "{ SELECT * WHERE ", "{ ?s ?p ?o }", " }", "", d)),
        nest(l, "exists", |d| wrap("SELECT * WHERE { ?s ?p ?o FILTER ", "EXISTS { ?s ?p ?o FILTER ", "(true)", " }", " }", d)),
        nest(l, "function", |d| wrap("SELECT (", "STR(", "?s", ")", " AS ?x) WHERE { ?s ?p ?o }", d)),
        nest(l, "if", |d| wrap("SELECT (", "IF(true, ", "1", ", 0)", " AS ?x) WHERE { ?s ?p ?o }", d)),
        nest(l, "path-paren", |d| wrap("SELECT * WHERE { ?s ", "(", "<http://example.org/nope>", ")", " ?o }", d)),
        nest(l, "path-inverse", |d| wrap("SELECT * WHERE { ?s ", "^", "<http://example.org/nope>", "", " ?o }", d)),
        nest(l, "path-sequence", |d| chain("SELECT * WHERE { ?s ", "<http://example.org/nope>", "/", " ?o }", d)),
        nest(l, "path-alternative", |d| chain("SELECT * WHERE { ?s ", "<http://example.org/nope>", "|", " ?o }", d)),
        nest(l, "path-optional-mod", |d| wrap("SELECT * WHERE { ?s ", "(", "<http://example.org/nope>", ")?", " ?o }", d)),
        nest(l, "collection", |d| wrap("SELECT * WHERE { ?s ?p ", "( ", "1", " )", " }", d)),
        nest(l, "blank-node-list", |d| wrap("SELECT * WHERE { ?s ?p ", "[ <http://example.org/p> ", "1", " ]", " }", d)),
        nest(l, "chain-and", |d| chain("SELECT * WHERE { ?s ?p ?o FILTER(", "?o > 1", " && ", ") }", d)),
        nest(l, "chain-plus", |d| chain("SELECT (", "1", " + ", " AS ?x) WHERE { ?s ?p ?o }", d)),
        nest(l, "chain-union", |d| chain("SELECT * WHERE { ", "{ ?s <http://example.org/nope> ?o }", " UNION ", " }", d)),
        nest(l, "chain-triples", |d| chain("SELECT * WHERE { ", "?s <http://example.org/nope> ?o", " . ", " }", d)),
        nest(l, "chain-optional", |d| chain("SELECT * WHERE { ?s <http://example.org/nope> ?o ", "OPTIONAL { ?s <http://example.org/nope> ?o }", " ", " }", d)),
        nest(l, "chain-filter", |d| chain("SELECT * WHERE { ?s <http://example.org/nope> ?o ", "FILTER(?o > 1)", " ", " }", d)),
        nest(l, "chain-bind", |d| {
            let mut s = String::from("SELECT * WHERE { ?s <http://example.org/nope> ?o ");
            for i in 0..d {
                s.push_str(&format!("BIND(1 AS ?b{i}) "));
            }
            s.push('}');
            s
        }),
        nest(l, "chain-prefix", |d| chain("", "PREFIX ex: <http://example.org/>", " ", " SELECT * WHERE { ?s ?p ?o }", d)),
        nest(l, "chain-values", |d| chain("SELECT * WHERE { VALUES ?x { ", "1", " ", " } }", d)),
        nest(l, "chain-insert-data", |d| chain("INSERT DATA { ", "<http://example.org/a> <http://example.org/p> 1", " . ", " }", d)),
        nest(l, "chain-object-list", |d| chain("SELECT * WHERE { ?s <http://example.org/nope> ", "1", " , ", " }", d)),
        nest(l, "chain-in", |d| chain("SELECT * WHERE { ?s ?p ?o FILTER(?o IN (", "1", ", ", ")) }", d)),
        nest(l, "chain-update-ops", |d| chain("", "INSERT DATA { <http://example.org/a> <http://example.org/p> 1 }", " ; ", "", d)),
    ]
}

pub fn sparql_directed(v: &mut Vec<Input>) {
    let l = L_SPARQL;
    macro_rules! add { ($f:expr, $x:expr, $q:expr) => { v.push(Input::new(l, $x, $f, $q)) }; }
    let sel = |e: &str| format!("{PFX}SELECT ({e} AS ?x) WHERE {{ ?s foaf:age ?a . ?s foaf:name ?n OPTIONAL {{ ?s ex:score ?sc }} }}");
    let fil = |e: &str| format!("{PFX}SELECT ?s WHERE {{ ?s foaf:age ?a . ?s foaf:name ?n OPTIONAL {{ ?s ex:score ?sc }} FILTER({e}) }}");
    // arithmetic: op × operands
    let operands = ["0", "1", "-1", "9223372036854775807", "-9223372036854775808", "0.0", "1e308", "1.5", "?a", "?sc", "?n", "?unbound", "\"a\"", "true", "\"9223372036854775807\"^^xsd:integer", "\"x\"^^xsd:integer", "ex:alice"];
    for op in ["+", "-", "*", "/"] {
        for a in operands {
            for b in operands {
                add!("arith", 1, sel(&format!("{a} {op} {b}")));
                add!("arith", 1, fil(&format!("{a} {op} {b} > 0")));
            }
        }
    }
    for e in [
        "-?a", "- ?a", "-(-9223372036854775807 - 1)", "+?a", "!?a", "ABS(?a)", "ABS(-9223372036854775807 - 1)", "?a + ?a", "?a * ?a", "?a / 0", "?a / 0.0", "1 / 0", "0 / 0", "0.0 / 0", "CEIL(?sc)", "FLOOR(1e308)", "ROUND(?sc)",
        "xsd:integer(?sc)", "xsd:integer(1e308)", "xsd:integer(\"9223372036854775808\")", "xsd:integer(\"x\")", "xsd:double(\"1e400\")", "xsd:integer(?n)", "xsd:boolean(?a)", "xsd:dateTime(?n)", "xsd:string(?a)", "xsd:nope(?a)",
        "SUM(?a)", "AVG(?a)", "SUM(?a) + 1", "COUNT(*) * 9223372036854775807", "MIN(?n)", "MAX(?sc)", "SAMPLE(?a)", "GROUP_CONCAT(?n)", "GROUP_CONCAT(?n ; SEPARATOR = \"\")", "GROUP_CONCAT(DISTINCT ?a ; SEPARATOR = ?n)", "COUNT(DISTINCT ?a)", "SUM(DISTINCT ?a)", "AVG(?n)", "SUM(?n)",
    ] {
        add!("arith", 1, sel(e));
        add!("arith", 1, fil(&format!("{e} > 0")));
        add!("arith", 1, format!("{PFX}SELECT ?s WHERE {{ ?s foaf:age ?a ; foaf:name ?n }} ORDER BY {}", if e.contains('(') && !e.starts_with('-') { e.to_string() } else { format!("({e})") }));
        add!("arith", 1, format!("{PFX}SELECT ?s WHERE {{ ?s foaf:age ?a ; foaf:name ?n BIND({e} AS ?b) }}"));
        add!("arith", 1, format!("{PFX}SELECT ?s ({e} AS ?x) WHERE {{ ?s foaf:age ?a ; foaf:name ?n }} GROUP BY ?s HAVING ({e} > 0)"));
    }
    // numeric extremes
    for x in EXTREME_NUMS {
        for t in [
            "SELECT * WHERE { ?s ?p ?o } LIMIT {x}", "SELECT * WHERE { ?s ?p ?o } OFFSET {x}", "SELECT * WHERE { ?s ?p ?o } LIMIT {x} OFFSET {x}", "SELECT * WHERE { ?s ?p ?o } ORDER BY ?s LIMIT {x}", "SELECT * WHERE { ?s ?p {x} }",
            "SELECT * WHERE { ?s ?p ?o FILTER(?o = {x}) }", "SELECT * WHERE { ?s ?p ?o FILTER(?o < {x}) }", "SELECT ({x} AS ?x) WHERE { ?s ?p ?o }", "SELECT ({x} + 1 AS ?x) WHERE { ?s ?p ?o }", "SELECT ({x} * {x} AS ?x) WHERE { ?s ?p ?o }",
            "INSERT DATA { <http://example.org/n> <http://example.org/v> {x} }", "SELECT * WHERE { VALUES ?v { {x} } }", "SELECT (SUBSTR(\"abc\", {x}) AS ?x) WHERE { ?s ?p ?o }", "SELECT (SUBSTR(\"abc\", 1, {x}) AS ?x) WHERE { ?s ?p ?o }",
            "SELECT (SUBSTR(\"Zoë日本\", {x}, {x}) AS ?x) WHERE { ?s ?p ?o }", "SELECT * WHERE { ?s ?p ?o FILTER(?o = \"{x}\"^^<http://www.w3.org/2001/XMLSchema#integer>) }", "SELECT * WHERE { ?s ?p \"{x}\"^^<http://www.w3.org/2001/XMLSchema#double> }",
            "SELECT (ROUND({x}) AS ?a) (CEIL({x}) AS ?b) (FLOOR({x}) AS ?c) (ABS({x}) AS ?d) WHERE { ?s ?p ?o }", "SELECT (STR({x}) AS ?a) (STRLEN(STR({x})) AS ?b) WHERE { ?s ?p ?o }",
        ] {
            add!("numeric", 1, t.replace("{x}", x));
        }
    }
    // functions: every name × arity × argument kinds
    let args = ["?s", "?o", "?n", "?a", "?unbound", "1", "-1", "0", "9223372036854775807", "1.5", "\"a\"", "\"\"", "\"Zoë\"", "\"a\"@en", "\"1\"^^xsd:integer", "true", "ex:alice", "_:b", "\"2024-01-01T00:00:00Z\"^^xsd:dateTime", "\"not a date\"^^xsd:dateTime", "\"(\""];
    for f in FUNCS {
        add!("function", 1, sel(&format!("{f}()")));
        add!("function", 1, sel(&format!("{f}(*)")));
        add!("function", 1, sel(&format!("{f}(DISTINCT ?a)")));
        for a in args {
            add!("function", 1, sel(&format!("{f}({a})")));
            add!("function", 1, fil(&format!("{f}({a})")));
            add!("function", 0, format!("{PFX}SELECT ({f}({a}) AS ?x) WHERE {{ }}"));
        }
        for (a, b) in [("?n", "\"A\""), ("?n", "1"), ("1", "?n"), ("?n", "\"\""), ("\"abc\"", "-1"), ("\"abc\"", "100"), ("\"Zoë日本\"", "2"), ("?n", "\"(a+)+$\""), ("?n", "\"[\""), ("?a", "?a"), ("?unbound", "?n"), ("?n", "\"en\""), ("?n", "xsd:integer"), ("?n", "ex:nope"), ("\"[1.0, 2.0]\"", "\"[1.0]\""), ("?s", "?s")] {
            add!("function", 1, sel(&format!("{f}({a}, {b})")));
            add!("function", 1, fil(&format!("{f}({a}, {b})")));
        }
        add!("function", 1, sel(&format!("{f}(?n, \"a\", \"b\")")));
        add!("function", 1, sel(&format!("{f}(?n, 1, 2)")));
        add!("function", 1, sel(&format!("{f}(?n, -1, 9223372036854775807)")));
        add!("function", 1, sel(&format!("{f}(?n, \"(\", \"$1\", \"x\")")));
        add!("function", 1, sel(&format!("{f}(?n, \"a\", \"b\", \"i\", \"extra\")")));
        add!("function", 1, sel(&format!("{f}({f}(?n))")));
        add!("function", 1, format!("{PFX}SELECT ?s WHERE {{ ?s foaf:name ?n }} ORDER BY {f}(?n)"));
        add!("function", 1, format!("{PFX}SELECT ({f}(?n) AS ?k) (COUNT(*) AS ?c) WHERE {{ ?s foaf:name ?n }} GROUP BY {f}(?n)"));
    }
    // regex
    for p in ["", ".*", "(", ")", "[", "*", "+", "?", "\\\\\\\\", "a{1000000}", "a{99999999999}", "(a+)+$", "(a*)*b", "((((((((((a*)*)*)*)*)*)*)*)*)*", "(?i)al.*", "\\\\\\\\1", "(?=a)", "[z-a]", "a{2,1}", "^$", "é+", "(?", ".{0,1000}{0,1000}"] {
        for fl in ["", ", \"i\"", ", \"x\"", ", \"ismxq\"", ", \"Z\"", ", ?n", ", 1"] {
            add!("regex", 1, fil(&format!("REGEX(?n, \"{p}\"{fl})")));
        }
        add!("regex", 1, sel(&format!("REPLACE(?n, \"{p}\", \"$1$2\\\\\\\\\")")));
        add!("regex", 1, sel(&format!("REPLACE(?n, \"{p}\", \"x\", \"i\")")));
        add!("regex", 1, fil(&format!("REGEX(\"{}!\", \"{p}\")", "a".repeat(40))));
        add!("regex", 1, fil(&format!("REGEX(STR(?a), \"{p}\")")));
        add!("regex", 1, fil(&format!("REGEX(?a, \"{p}\")")));
    }
    // property paths on the small cyclic graph (3-cycle) — closures must terminate
    for p in [
        "foaf:knows", "foaf:knows+", "foaf:knows*", "foaf:knows?", "^foaf:knows", "^foaf:knows+", "(foaf:knows)+", "(^foaf:knows)*", "foaf:knows/foaf:knows", "foaf:knows/foaf:knows/foaf:knows/foaf:knows", "foaf:knows|foaf:name", "(foaf:knows|^foaf:knows)+",
        "(foaf:knows/foaf:knows)+", "(foaf:knows*)*", "(foaf:knows+)+", "(foaf:knows?)*", "((foaf:knows*)*)*", "foaf:knows*/foaf:knows*", "foaf:knows+/foaf:name", "!foaf:knows", "!(foaf:knows|foaf:name)", "!^foaf:knows", "!(^foaf:knows|foaf:name)", "!a", "!()",
        "a", "a+", "a/a", "^a", "foaf:knows{2}", "foaf:knows{1,2}", "foaf:knows{,2}", "foaf:knows{2,}", "ex:nope*", "ex:nope+", "ex:nope?", "(ex:nope|foaf:knows)*", "?p*", "?p+", "(?p)", "foaf:knows**", "foaf:knows+*", "foaf:knows?+", "+", "*", "/", "|", "^", "!", "()", "(|)", "(/)",
        "foaf:knows/", "/foaf:knows", "foaf:knows|", "|foaf:knows", "foaf:knows^", "^^foaf:knows", "!!foaf:knows", "(foaf:knows", "foaf:knows)",
    ] {
        for (s, o) in [("?s", "?o"), ("ex:alice", "?o"), ("?s", "ex:alice"), ("ex:alice", "ex:bob"), ("ex:alice", "ex:alice"), ("?s", "?s"), ("ex:nope", "?o"), ("?s", "\"lit\"")] {
            add!("path", 1, format!("{PFX}SELECT * WHERE {{ {s} {p} {o} }}"));
        }
        add!("path", 0, format!("{PFX}SELECT * WHERE {{ ?s {p} ?o }}"));
        add!("path", 1, format!("{PFX}ASK {{ ex:alice {p} ex:carol }}"));
        add!("path", 1, format!("{PFX}SELECT (COUNT(*) AS ?c) WHERE {{ ?s {p} ?o . ?o {p} ?z }}"));
    }
    // parameters (accepted and ignored by the API) through the with_params entry point
    for k in (0..crate::vals::pool().len()).step_by(3) {
        v.push(Input::new(l, 1, "params-pool", format!("{PFX}SELECT * WHERE {{ ?s foaf:age ?a FILTER(?a > $p) }}")).par(format!("p{k}")));
        v.push(Input::new(l, 1, "params-pool", format!("{PFX}SELECT * WHERE {{ ?s foaf:age ?a }} LIMIT 2")).par(format!("p{k}")));
    }
    v.push(Input::new(l, 1, "params-pool", "SELECT * WHERE { ?s ?p ?o }").par("all"));
    v.push(Input::new(l, 0, "params-pool", "SELECT * WHERE { ?s ?p $p }").par("none"));
    add_semantic(v);
    // dense RDF clique: bounded joins must return
    for q in ["SELECT (COUNT(*) AS ?c) WHERE { ?a ex:p ?b . ?b ex:p ?c }", "SELECT (COUNT(*) AS ?c) WHERE { ?a ex:p ?b . ?b ex:p ?c . ?c ex:p ?d }", "SELECT * WHERE { ex:k0 ex:p ?b } ORDER BY DESC(?b) LIMIT 3", "ASK { ex:k0 ex:p/ex:p ex:k0 }", "SELECT DISTINCT ?c WHERE { ex:k0 ex:p/ex:p/ex:p ?c }", "DELETE WHERE { ?s ex:p ?o }", "SELECT ?a (COUNT(?b) AS ?n) WHERE { ?a ex:p ?b } GROUP BY ?a HAVING (COUNT(?b) > 1)"] {
        v.push(Input::new(l, 2, "clique", format!("{PFX}{q}")));
    }
    for (c, q) in [
        ("path-closure-clique", "SELECT (COUNT(*) AS ?c) WHERE { ex:k0 ex:p* ?o }"),
        ("path-closure-clique", "SELECT (COUNT(*) AS ?c) WHERE { ?s ex:p+ ?o }"),
        ("path-closure-clique", "SELECT (COUNT(*) AS ?c) WHERE { ?s (ex:p/ex:p)+ ?o }"),
        ("path-closure-clique", "SELECT (COUNT(*) AS ?c) WHERE { ?s (ex:p|^ex:p)* ?o }"),
        ("path-closure-clique", "ASK { ex:k0 (ex:p*)* ex:k5 }"),
        ("cartesian-product", "SELECT (COUNT(*) AS ?c) WHERE { ?a ?b ?c . ?d ?e ?f . ?g ?h ?i }"),
    ] {
        v.push(Input::new(l, 2, "explosive", format!("{PFX}{q}")).cons(c));
    }
}

fn add_semantic(v: &mut Vec<Input>) {
    let l = L_SPARQL;
    for q in [
        "SELECT * WHERE { ?s ?p ?o }", "SELECT * { ?s ?p ?o }", "SELECT * WHERE { }", "SELECT * WHERE { ?s ?p ?o . }", "SELECT * WHERE { ?s ?p ?o . . }", "SELECT * WHERE { . }", "SELECT * WHERE { ?s ?p }", "SELECT * WHERE { ?s }", "SELECT * WHERE { ?s ?p ?o ?x }",
        "SELECT WHERE { ?s ?p ?o }", "SELECT ?s", "SELECT", "SELECT *", "SELECT * WHERE", "SELECT * WHERE {", "SELECT * WHERE }", "SELECT * FROM WHERE { ?s ?p ?o }", "SELECT * FROM <g> WHERE { ?s ?p ?o }", "SELECT * FROM NAMED <g> FROM <h> WHERE { GRAPH ?g { ?s ?p ?o } }",
        "SELECT ?s ?s WHERE { ?s ?p ?o }", "SELECT (?s AS ?s) WHERE { ?s ?p ?o }", "SELECT (1 AS ?x) (2 AS ?x) WHERE { ?s ?p ?o }", "SELECT (?x AS ?y) (?y AS ?x) WHERE { ?s ?p ?o }", "SELECT (?nope AS ?y) WHERE { ?s ?p ?o }", "SELECT ?nope WHERE { ?s ?p ?o }",
        "SELECT (1 AS) WHERE { ?s ?p ?o }", "SELECT (AS ?x) WHERE { ?s ?p ?o }", "SELECT (1 ?x) WHERE { ?s ?p ?o }", "SELECT 1 WHERE { ?s ?p ?o }", "SELECT (COUNT(*) AS ?c) ?s WHERE { ?s ?p ?o }", "SELECT (COUNT(COUNT(?s)) AS ?c) WHERE { ?s ?p ?o }",
        "SELECT ?s (COUNT(?o) AS ?c) WHERE { ?s ?p ?o } GROUP BY ?s ORDER BY DESC(?c) LIMIT 1", "SELECT ?s WHERE { ?s ?p ?o } GROUP BY ?nope", "SELECT * WHERE { ?s ?p ?o } GROUP BY ?s", "SELECT ?o WHERE { ?s ?p ?o } GROUP BY ?s", "SELECT ?s WHERE { ?s ?p ?o } GROUP BY",
        "SELECT ?s WHERE { ?s ?p ?o } GROUP BY (?o + 1 AS ?k)", "SELECT ?k WHERE { ?s ?p ?o } GROUP BY (STR(?o) AS ?k) ?s", "SELECT ?s WHERE { ?s ?p ?o } HAVING (COUNT(*) > 1)", "SELECT ?s WHERE { ?s ?p ?o } GROUP BY ?s HAVING (?o > 1)", "SELECT ?s WHERE { ?s ?p ?o } GROUP BY ?s HAVING",
        "SELECT ?s WHERE { ?s ?p ?o } ORDER BY", "SELECT ?s WHERE { ?s ?p ?o } ORDER BY ?o ?s DESC(?p) ASC(?o)", "SELECT ?s WHERE { ?s ?p ?o } ORDER BY DESC", "SELECT ?s WHERE { ?s ?p ?o } ORDER BY DESC(", "SELECT ?s WHERE { ?s ?p ?o } ORDER BY ?o LIMIT", "SELECT ?s WHERE { ?s ?p ?o } LIMIT 1 LIMIT 2",
        "SELECT ?s WHERE { ?s ?p ?o } OFFSET 1 LIMIT 1 OFFSET 2", "SELECT ?s WHERE { ?s ?p ?o } LIMIT ?x", "SELECT ?s WHERE { ?s ?p ?o } LIMIT 1.5", "SELECT ?s WHERE { ?s ?p ?o } LIMIT -1", "SELECT ?s WHERE { ?s ?p ?o } LIMIT 'a'", "SELECT DISTINCT * WHERE { ?s ?p ?o } ORDER BY ?o",
        "SELECT REDUCED ?o WHERE { ?s ?p ?o }", "SELECT DISTINCT REDUCED ?o WHERE { ?s ?p ?o }", "SELECT DISTINCT ?o WHERE { ?s ?p ?o } ORDER BY ?o", "SELECT * WHERE { ?s ?p ?o } ORDER BY ?o", "SELECT * WHERE { ?s ?p ?o } ORDER BY DESC(?o) ?s", "SELECT (MIN(?o) AS ?a) (MAX(?o) AS ?b) WHERE { ?s ?p ?o }",
        "SELECT (SUM(?o) AS ?a) (AVG(?o) AS ?b) WHERE { ?s ?p ?o }", "SELECT (SAMPLE(?o) AS ?a) (GROUP_CONCAT(?o) AS ?b) WHERE { ?s ?p ?o }", "SELECT ?p (SUM(?o) AS ?a) WHERE { ?s ?p ?o } GROUP BY ?p", "SELECT (SUM(?o) AS ?a) WHERE { ?s <http://xmlns.com/foaf/0.1/age> ?o }",
        "SELECT (AVG(?o) AS ?a) WHERE { ?s <http://xmlns.com/foaf/0.1/age> ?o }", "SELECT (SUM(?o) + SUM(?o) AS ?a) WHERE { ?s <http://xmlns.com/foaf/0.1/age> ?o }", "SELECT (MAX(?o) + 1 AS ?a) WHERE { ?s <http://xmlns.com/foaf/0.1/age> ?o }", "SELECT (COUNT(*) AS ?c) WHERE { }",
        "SELECT (SUM(?x) AS ?c) WHERE { }", "SELECT (AVG(?x) AS ?c) WHERE { }", "SELECT (MIN(?x) AS ?c) WHERE { }", "SELECT (AVG(?o) AS ?c) WHERE { ?s <http://example.org/nope> ?o }", "ASK { }", "ASK { ?s ?p ?o }", "ASK WHERE { ?s ?p ?o }", "ASK", "ASK { ?s ?p ?o } LIMIT 1",
        "ASK FROM <g> { ?s ?p ?o }", "CONSTRUCT { ?s ?p ?o } WHERE { ?s ?p ?o }", "CONSTRUCT WHERE { ?s ?p ?o }", "CONSTRUCT { } WHERE { ?s ?p ?o }", "CONSTRUCT { ?s ?p ?nope } WHERE { ?s ?p ?o }", "CONSTRUCT { ?o ?p ?s } WHERE { ?s ?p ?o }", "CONSTRUCT { _:b ?p ?o } WHERE { ?s ?p ?o }",
        "CONSTRUCT { ?s ?p ?o } WHERE { ?s ?p ?o } LIMIT 1", "CONSTRUCT { ?s <p> [ <q> ?o ] } WHERE { ?s ?p ?o }", "CONSTRUCT { ?s ?p ( 1 2 ) } WHERE { ?s ?p ?o }", "CONSTRUCT { ?s ?p ?o FILTER(1) } WHERE { ?s ?p ?o }", "CONSTRUCT", "CONSTRUCT {", "CONSTRUCT { ?s ?p ?o }",
        "DESCRIBE ?s WHERE { ?s ?p ?o }", "DESCRIBE <http://example.org/alice>", "DESCRIBE *", "DESCRIBE * WHERE { ?s ?p ?o }", "DESCRIBE", "DESCRIBE ?s", "DESCRIBE ?nope WHERE { ?s ?p ?o }", "DESCRIBE <http://example.org/alice> <http://example.org/bob> ?s WHERE { ?s ?p ?o }", "DESCRIBE 1",
        "SELECT * WHERE { ?s ?p ?o OPTIONAL { ?o ?q ?z } }", "SELECT * WHERE { OPTIONAL { ?s ?p ?o } }", "SELECT * WHERE { OPTIONAL { } }", "SELECT * WHERE { ?s ?p ?o OPTIONAL { ?s ?p ?o FILTER(?z > 1) } }", "SELECT * WHERE { ?s ?p ?o OPTIONAL { ?s ?q ?z } FILTER(!BOUND(?z)) }",
        "SELECT * WHERE { ?s ?p ?o OPTIONAL }", "SELECT * WHERE { { ?s ?p ?o } UNION { ?o ?p ?s } }", "SELECT * WHERE { { } UNION { } }", "SELECT * WHERE { { ?s ?p ?o } UNION }", "SELECT * WHERE { UNION { ?s ?p ?o } }", "SELECT * WHERE { { ?s ?p ?o } UNION { ?a ?b ?c } UNION { ?d ?e ?f } }",
        "SELECT * WHERE { ?s ?p ?o MINUS { ?s ?p 1 } }", "SELECT * WHERE { ?s ?p ?o MINUS { } }", "SELECT * WHERE { MINUS { ?s ?p ?o } }", "SELECT * WHERE { ?s ?p ?o MINUS { ?a ?b ?c } }", "SELECT * WHERE { ?s ?p ?o FILTER NOT EXISTS { ?s ?p 1 } }", "SELECT * WHERE { ?s ?p ?o FILTER EXISTS { } }",
        "SELECT * WHERE { ?s ?p ?o FILTER(EXISTS { ?s ?p ?o } && NOT EXISTS { ?o ?p ?s }) }", "SELECT * WHERE { ?s ?p ?o FILTER NOT { } }", "SELECT * WHERE { ?s ?p ?o FILTER EXISTS }", "SELECT * WHERE { FILTER(?x > 1) }", "SELECT * WHERE { FILTER(true) }", "SELECT * WHERE { FILTER(1/0) }",
        "SELECT * WHERE { ?s ?p ?o FILTER() }", "SELECT * WHERE { ?s ?p ?o FILTER }", "SELECT * WHERE { ?s ?p ?o FILTER ?o }", "SELECT * WHERE { ?s ?p ?o FILTER(?o) }", "SELECT * WHERE { ?s ?p ?o FILTER(?s) }", "SELECT * WHERE { ?s ?p ?o FILTER(\"a\") }", "SELECT * WHERE { ?s ?p ?o FILTER(\"\") }",
        "SELECT * WHERE { ?s ?p ?o FILTER(0) }", "SELECT * WHERE { ?s ?p ?o FILTER(\"x\"^^<http://www.w3.org/2001/XMLSchema#boolean>) }", "SELECT * WHERE { ?s ?p ?o FILTER(?o = ?o = ?o) }", "SELECT * WHERE { ?s ?p ?o FILTER(1 < 2 < 3) }", "SELECT * WHERE { ?s ?p ?o FILTER(?s = ?o || ?s != ?o && !(?s < ?o)) }",
        "SELECT * WHERE { ?s ?p ?o FILTER(?o IN ()) }", "SELECT * WHERE { ?s ?p ?o FILTER(?o NOT IN ()) }", "SELECT * WHERE { ?s ?p ?o FILTER(?o IN (1, \"a\", <x>, ?s, 1/0)) }", "SELECT * WHERE { ?s ?p ?o FILTER(?o IN) }", "SELECT * WHERE { ?s ?p ?o FILTER(?o NOT) }", "SELECT * WHERE { ?s ?p ?o FILTER(?o IN (1,)) }",
        "SELECT * WHERE { ?s ?p ?o BIND(?o + 1 AS ?x) }", "SELECT * WHERE { BIND(1 AS ?x) }", "SELECT * WHERE { ?s ?p ?o BIND(1 AS ?s) }", "SELECT * WHERE { ?s ?p ?o BIND(?x AS ?x) }", "SELECT * WHERE { ?s ?p ?o BIND(1 AS ?x) BIND(2 AS ?x) }", "SELECT * WHERE { ?s ?p ?o BIND(1) }", "SELECT * WHERE { ?s ?p ?o BIND(1 AS) }",
        "SELECT * WHERE { ?s ?p ?o BIND() }", "SELECT * WHERE { ?s ?p ?o BIND(1/0 AS ?x) FILTER(BOUND(?x)) }", "SELECT * WHERE { BIND(?y AS ?x) BIND(?x AS ?y) }", "SELECT * WHERE { VALUES ?x { 1 2 } }", "SELECT * WHERE { VALUES ?x { } }", "SELECT * WHERE { VALUES (?x ?y) { (1 2) (UNDEF 3) } }",
        "SELECT * WHERE { VALUES (?x ?y) { (1) } }", "SELECT * WHERE { VALUES (?x) { (1 2) } }", "SELECT * WHERE { VALUES () { () () } }", "SELECT * WHERE { VALUES ?x { UNDEF } ?s ?p ?x }", "SELECT * WHERE { VALUES ?x { ?y } }", "SELECT * WHERE { VALUES ?x { _:b } }", "SELECT * WHERE { VALUES ?x { 1 } VALUES ?x { 2 } }",
        "SELECT * WHERE { VALUES (?x ?x) { (1 2) } }", "SELECT * WHERE { ?s ?p ?o } VALUES ?s { <http://example.org/alice> }", "SELECT * WHERE { VALUES ?x {", "SELECT * WHERE { VALUES }", "SELECT * WHERE { VALUES ( { } }", "SELECT * WHERE { GRAPH ?g { ?s ?p ?o } }", "SELECT * WHERE { GRAPH <g> { } }",
        "SELECT * WHERE { GRAPH { ?s ?p ?o } }", "SELECT * WHERE { GRAPH ?g }", "SELECT * WHERE { GRAPH 1 { ?s ?p ?o } }", "SELECT * WHERE { SERVICE <http://example.org/sparql> { ?s ?p ?o } }", "SELECT * WHERE { SERVICE SILENT ?x { ?s ?p ?o } }", "SELECT * WHERE { { SELECT ?s WHERE { ?s ?p ?o } LIMIT 1 } ?s ?q ?z }",
        "SELECT * WHERE { { SELECT (COUNT(*) AS ?c) WHERE { ?s ?p ?o } } FILTER(?c > 1) }", "SELECT * WHERE { { SELECT * WHERE { { SELECT * WHERE { ?s ?p ?o } } } } }", "SELECT * WHERE { SELECT * WHERE { ?s ?p ?o } }", "SELECT * WHERE { { SELECT } }", "SELECT * WHERE { { SELECT ?nope WHERE { ?s ?p ?o } } }",
        "SELECT * WHERE { ?s ?p ?o ; }", "SELECT * WHERE { ?s ?p ?o ; ; ?q ?z }", "SELECT * WHERE { ?s ?p ?o , }", "SELECT * WHERE { ?s ?p ?o ,, ?z }", "SELECT * WHERE { ?s ?p ?o ; ?q ?z , ?w ; ?e ?f . ?g ?h ?i }", "SELECT * WHERE { ?s ; ?p ?o }", "SELECT * WHERE { ?s , ?p ?o }", "SELECT * WHERE { ; }", "SELECT * WHERE { , }",
        "SELECT * WHERE { [] ?p ?o }", "SELECT * WHERE { [ ?p ?o ] }", "SELECT * WHERE { [ ?p ?o ] ?q ?z }", "SELECT * WHERE { [ ] }", "SELECT * WHERE { [ ?p ] }", "SELECT * WHERE { [ ?p ?o ; ] }", "SELECT * WHERE { [ ?p [ ?q [ ?r ?o ] ] ] ?a ?b }", "SELECT * WHERE { ?s ?p [ ] }", "SELECT * WHERE { ?s ?p [ ?q ?o ] , [ ?r ?z ] }", "SELECT * WHERE { [",
        "SELECT * WHERE { ( ) ?p ?o }", "SELECT * WHERE { ( 1 2 3 ) ?p ?o }", "SELECT * WHERE { ?s ?p ( ) }", "SELECT * WHERE { ?s ?p ( 1 ( 2 ( 3 ) ) [ ?q ?o ] ) }", "SELECT * WHERE { ( ?a ?b ) }", "SELECT * WHERE { ( }", "SELECT * WHERE { ?s ?p ( }", "SELECT * WHERE { _:a ?p _:a }", "SELECT * WHERE { _: ?p ?o }", "SELECT * WHERE { _:a _:b _:c }",
        "SELECT * WHERE { ?s a ?o }", "SELECT * WHERE { a a a }", "SELECT * WHERE { ?s A ?o }", "SELECT * WHERE { 1 ?p ?o }", "SELECT * WHERE { \"lit\" ?p ?o }", "SELECT * WHERE { ?s 1 ?o }", "SELECT * WHERE { ?s \"lit\" ?o }", "SELECT * WHERE { ?s _:b ?o }", "SELECT * WHERE { ?s ?p ?o . ?s ?p ?o . ?s ?p ?o }", "SELECT * WHERE { ?s ?s ?s }", "SELECT * WHERE { ?s ?p ?s }",
        "SELECT * WHERE { ?a ?b ?c . ?d ?e ?f }", "SELECT * WHERE { <http://example.org/alice> ?p ?o . ?o ?q ?z . ?z ?r <http://example.org/alice> }", "SELECT * WHERE { ?s <http://xmlns.com/foaf/0.1/age> 30 }", "SELECT * WHERE { ?s <http://xmlns.com/foaf/0.1/age> \"30\"^^<http://www.w3.org/2001/XMLSchema#integer> }",
        "SELECT * WHERE { ?s <http://xmlns.com/foaf/0.1/age> 30.0 }", "SELECT * WHERE { ?s <http://xmlns.com/foaf/0.1/age> \"30\" }", "SELECT * WHERE { ?s <http://xmlns.com/foaf/0.1/age> ?a FILTER(?a = 30.0) }", "SELECT * WHERE { ?s <http://xmlns.com/foaf/0.1/age> ?a FILTER(?a > \"a\") }", "SELECT * WHERE { ?s ?p \"Zoë 日本\"@fr }",
        "SELECT * WHERE { ?s ?p \"a\"@ }", "SELECT * WHERE { ?s ?p \"a\"@en-US-x-very-long-tag-1234 }", "SELECT * WHERE { ?s ?p \"a\"@1 }", "SELECT * WHERE { ?s ?p \"a\"^^ }", "SELECT * WHERE { ?s ?p \"a\"^^\"b\" }", "SELECT * WHERE { ?s ?p \"a\"^^?x }", "SELECT * WHERE { ?s ?p \"a\"^^<> }", "SELECT * WHERE { ?s ?p \"a\"^ }", "SELECT * WHERE { ?s ?p \"a\"@en^^<x> }",
        "SELECT * WHERE { ?s ?p \"unterminated }", "SELECT * WHERE { ?s ?p 'unterminated }", "SELECT * WHERE { ?s ?p \"\"\"unterminated }", "SELECT * WHERE { ?s ?p '''unterminated }", "SELECT * WHERE { ?s ?p \"\"\"a\"\"b\"\"\" }", "SELECT * WHERE { ?s ?p \"\"\"\"\"\" }", "SELECT * WHERE { ?s ?p \"\"\"\"\"\"\" }", "SELECT * WHERE { ?s ?p \"a\\",
        "SELECT * WHERE { ?s ?p \"\\u00e9\\U0001F600\\t\\n\\\\\\\"\" }", "SELECT * WHERE { ?s ?p \"\\u12\" }", "SELECT * WHERE { ?s ?p \"\\uD800\" }", "SELECT * WHERE { ?s ?p \"\\UFFFFFFFF\" }", "SELECT * WHERE { ?s ?p \"\\U00110000\" }", "SELECT * WHERE { ?s ?p \"\\x\" }", "SELECT * WHERE { ?s ?p \"\\u\" }", "SELECT * WHERE { ?s ?p \"\\U0001F60\" }", "SELECT * WHERE { ?s ?p \"\n\" }",
        "SELECT * WHERE { <> ?p ?o }", "SELECT * WHERE { < ?p ?o }", "SELECT * WHERE { <a b> ?p ?o }", "SELECT * WHERE { <a<b> ?p ?o }", "SELECT * WHERE { <a\\u0020b> ?p ?o }", "SELECT * WHERE { <a\\u12> ?p ?o }", "SELECT * WHERE { <\\> ?p ?o }", "SELECT * WHERE { <http://é.org/日本> ?p ?o }", "SELECT * WHERE { <urn:x> <urn:y> <urn:z> }", "SELECT * WHERE { <#frag> </abs> <../rel> }",
        "BASE <http://example.org/> SELECT * WHERE { <alice> ?p ?o }", "BASE <> SELECT * WHERE { <alice> ?p ?o }", "BASE SELECT * WHERE { ?s ?p ?o }", "BASE <a> BASE <b> SELECT * WHERE { ?s ?p ?o }", "BASE <http://example.org/> PREFIX : <> SELECT * WHERE { :alice ?p ?o }", "BASE", "BASE <", "PREFIX", "PREFIX :", "PREFIX : <x>", "PREFIX x <y> SELECT * WHERE { }",
        "PREFIX : <http://example.org/> SELECT * WHERE { :alice ?p ?o }", "PREFIX : <http://example.org/> SELECT * WHERE { : ?p ?o }", "PREFIX : <http://example.org/> PREFIX : <http://other/> SELECT * WHERE { :alice ?p ?o }", "SELECT * WHERE { undefined:alice ?p ?o }", "SELECT * WHERE { :alice ?p ?o }", "SELECT * WHERE { foaf: ?p ?o }",
        "PREFIX ex: <http://example.org/> SELECT * WHERE { ex:a.b ?p ?o }", "PREFIX ex: <http://example.org/> SELECT * WHERE { ex:a. ?p ?o }", "PREFIX ex: <http://example.org/> SELECT * WHERE { ex:.a ?p ?o }", "PREFIX ex: <http://example.org/> SELECT * WHERE { ex:a%20b ex:a\\~b ex:%ZZ }", "PREFIX ex: <http://example.org/> SELECT * WHERE { ex:a:b:c ?p ?o }",
        "PREFIX ex: <http://example.org/> SELECT * WHERE { ex:1 ex:_ ex:- }", "PREFIX ex: <http://example.org/> SELECT * WHERE { ex:é ex:日本 ex:a\u{301} }", "PREFIX é: <http://example.org/> SELECT * WHERE { é:a ?p ?o }", "PREFIX a.b: <http://example.org/> SELECT * WHERE { a.b:c ?p ?o }", "PREFIX 1: <x> SELECT * WHERE { }", "PREFIX _: <x> SELECT * WHERE { }",
        "SELECT * WHERE { ?s ?p ?o } # comment", "# only a comment", "#", "SELECT * # c\n WHERE # d\n { ?s ?p ?o }", "SELECT * WHERE { ?s ?p ?o #}", "SELECT * WHERE { <a#b> ?p ?o }", "SELECT * WHERE { ?s ?p \"#\" }", "SELECT * WHERE { ? ?p ?o }", "SELECT * WHERE { ?1 ?_ ?é }", "SELECT * WHERE { $s $p $o }", "SELECT * WHERE { ?s $p ?o FILTER(?p = $p) }",
        "SELECT * WHERE { $ ?p ?o }", "SELECT * WHERE { ?s?p?o }", "SELECT*WHERE{?s?p?o}", "SELECT*{?s?p?o.?o?q?z}", "select * where { ?s ?p ?o }", "SeLeCt * WhErE { ?s ?p ?o } LiMiT 1", "SELECT * WHERE { ?s ?p ?o FILTER(str(?o) = \"a\" && isiri(?s)) }", "SELECT * WHERE { ?s ?p TRUE }", "SELECT * WHERE { ?s ?p True }",
        "SELECT * WHERE { ?s ?p 1. }", "SELECT * WHERE { ?s ?p 1.e5 }", "SELECT * WHERE { ?s ?p .5 }", "SELECT * WHERE { ?s ?p 1e }", "SELECT * WHERE { ?s ?p 1e+ }", "SELECT * WHERE { ?s ?p +1 }", "SELECT * WHERE { ?s ?p -1 }", "SELECT * WHERE { ?s ?p +-1 }", "SELECT * WHERE { ?s ?p 1.2.3 }", "SELECT * WHERE { ?s ?p 0x10 }", "SELECT * WHERE { ?s ?p 1a }",
        "SELECT (1+1 AS ?x) (1-1 AS ?y) (1 -1 AS ?z) (1 - -1 AS ?w) (1+-1 AS ?v) WHERE { }", "SELECT (1 ++ 1 AS ?x) WHERE { }", "SELECT (1 -- 1 AS ?x) WHERE { }", "SELECT (1 */ 1 AS ?x) WHERE { }", "SELECT (* AS ?x) WHERE { }", "SELECT (1 1 AS ?x) WHERE { }", "SELECT ((1) AS ?x) WHERE { }", "SELECT (() AS ?x) WHERE { }",
        "INSERT DATA { <http://example.org/a> <http://example.org/p> 1 }", "INSERT DATA { }", "INSERT DATA { ?s ?p ?o }", "INSERT DATA { _:b <http://example.org/p> _:b }", "INSERT DATA { <a> <p> 1 , 2 ; <q> \"x\"@en , \"y\"^^<t> . <b> <p> <a> }", "INSERT DATA { <a> <p> ( 1 2 ) }", "INSERT DATA { <a> <p> [ <q> 1 ] }",
        "INSERT DATA { GRAPH <g> { <a> <p> 1 } }", "INSERT DATA { GRAPH ?g { <a> <p> 1 } }", "INSERT DATA { GRAPH <g> { } }", "INSERT DATA { <a> <p> 1 } ;", "INSERT DATA { <a> <p> 1 } ; ;", "INSERT DATA { <a> <p> 1 } ; INSERT DATA { <a> <p> 2 } ; DELETE DATA { <a> <p> 1 }", "INSERT DATA", "INSERT DATA {", "INSERT", "INSERT { } WHERE { }",
        "INSERT { ?s ?o ?p } WHERE { ?s ?p ?o }", "DELETE { ?s ?o ?p } WHERE { ?s ?p ?o }", "CONSTRUCT { ?s ?o ?p } WHERE { ?s ?p ?o }", "CONSTRUCT { ?o ?p ?s } WHERE { ?s ?p ?o }", "INSERT { ?s ?s ?s } WHERE { ?s ?p ?o }", "INSERT { ?o ?o ?o } WHERE { ?s ?p ?o }",
        "INSERT { ?s <http://example.org/q> ?o } WHERE { ?s ?p ?o }", "INSERT { ?s ?p ?nope } WHERE { ?s ?p ?o }", "INSERT { ?o ?p ?s } WHERE { ?s ?p ?o }", "INSERT { ?s ?p 1 } WHERE { ?s ?p ?o FILTER(1/0) }", "INSERT { ?s ?p ?o } WHERE { ?s ?p ?o }", "INSERT { ?s <q> ?x } WHERE { ?s ?p ?o BIND(?o + 9223372036854775807 AS ?x) }",
        "INSERT { GRAPH <g> { ?s ?p ?o } } WHERE { ?s ?p ?o }", "INSERT { ?s ?p ?o } USING <g> WHERE { ?s ?p ?o }", "INSERT { ?s ?p ?o } USING NAMED <g> USING <h> WHERE { ?s ?p ?o }", "WITH <g> INSERT { ?s ?p ?o } WHERE { ?s ?p ?o }", "WITH <g> DELETE { ?s ?p ?o } INSERT { ?s ?p 1 } WHERE { ?s ?p ?o }", "WITH", "WITH <g>", "WITH <g> SELECT * WHERE { }",
        "DELETE DATA { <http://example.org/alice> <http://xmlns.com/foaf/0.1/age> 30 }", "DELETE DATA { }", "DELETE DATA { ?s ?p ?o }", "DELETE DATA { _:b <p> 1 }", "DELETE DATA { <nope> <nope> <nope> }", "DELETE WHERE { ?s ?p ?o }", "DELETE WHERE { }", "DELETE WHERE { ?s ?p ?o FILTER(1) }", "DELETE WHERE { <http://example.org/alice> ?p ?o }",
        "DELETE { ?s ?p ?o } WHERE { ?s ?p ?o }", "DELETE { ?s ?p ?o } WHERE { ?s ?p ?o FILTER(?o > 1) }", "DELETE { ?s ?p ?nope } WHERE { ?s ?p ?o }", "DELETE { _:b ?p ?o } WHERE { ?s ?p ?o }", "DELETE { } WHERE { ?s ?p ?o }", "DELETE { ?s ?p ?o } INSERT { ?s ?p ?o } WHERE { ?s ?p ?o }", "DELETE { ?s ?p ?o } INSERT { ?o ?p ?s } WHERE { ?s ?p ?o }",
        "DELETE { ?s ?p ?o }", "DELETE", "DELETE {", "DELETE { ?s ?p ?o } INSERT", "DELETE INSERT WHERE", "CLEAR ALL", "CLEAR DEFAULT", "CLEAR NAMED", "CLEAR GRAPH <g>", "CLEAR SILENT GRAPH <g>", "CLEAR", "CLEAR GRAPH", "CLEAR GRAPH ?g", "CLEAR <g>", "DROP ALL", "DROP DEFAULT", "DROP GRAPH <g>", "DROP SILENT NAMED", "DROP",
        "CREATE GRAPH <g>", "CREATE SILENT GRAPH <g>", "CREATE GRAPH", "CREATE", "CREATE GRAPH <g> ; CREATE GRAPH <g>", "LOAD <http://example.org/x>", "LOAD SILENT <http://example.org/x> INTO GRAPH <g>", "LOAD <file:///etc/passwd>", "LOAD <file:///dev/zero>", "LOAD <>", "LOAD", "LOAD <x> INTO", "LOAD <x> INTO GRAPH",
        "COPY DEFAULT TO <g>", "COPY <g> TO DEFAULT", "COPY <g> TO <g>", "COPY SILENT GRAPH <g> TO GRAPH <h>", "COPY", "COPY <g>", "COPY <g> TO", "MOVE DEFAULT TO <g>", "MOVE <g> TO <h>", "MOVE DEFAULT TO DEFAULT", "ADD DEFAULT TO <g>", "ADD <g> TO <g>", "ADD DEFAULT TO DEFAULT", "ADD", "MOVE",
        "SELECT * WHERE { ?s ?p ?o } ; SELECT * WHERE { ?s ?p ?o }", "SELECT * WHERE { ?s ?p ?o } INSERT DATA { <a> <p> 1 }", "INSERT DATA { <a> <p> 1 } ; SELECT * WHERE { ?s ?p ?o }", "SELECT * WHERE { ?s ?p ?o } extra", "SELECT * WHERE { ?s ?p ?o } }", "SELECT * WHERE { ?s ?p ?o } )", ";", ";;", "{ }", "{ ?s ?p ?o }", "?s ?p ?o", "WHERE { ?s ?p ?o }",
    ] {
        v.push(Input::new(l, 1, "semantic", q));
        v.push(Input::new(l, 0, "semantic", q));
    }
}
