//! C19 — graph algorithms compute what their definitions say.
//!
//! Runtime monitor: small random directed multigraphs (plus every simple digraph with
//! self-loops on <= 3 / <= 4 nodes) are loaded into a real `LpgStore`; every bundled algorithm
//! of `grafeo_adapters::plugins::algorithms` is run for every source/target choice and judged
//! by brute-force / by-definition oracles (`c19_oracle.rs`). A failing (algorithm, clause) is
//! shrunk to a 1-minimal witness graph whose skeleton is the signature (scheme 3).

#[path = "c19_checks_a.rs"]
mod checks_a;
#[path = "c19_checks_b.rs"]
mod checks_b;
#[path = "c19_model.rs"]
mod model;
#[path = "c19_oracle.rs"]
mod oracle;

use crate::report::{Report, Tier};
use crate::rng::Rng;
use model::{Built, G, Num, Out, Slot, build, directed_witnesses, exhaustive_graph, gen_graph, view_matches};
use oracle::P;
use serde_json::{Value as J, json};
use std::collections::{BTreeMap, HashMap, HashSet};
use std::sync::atomic::{AtomicU64, Ordering};
use std::sync::{Arc, Mutex};
use std::time::{Duration, Instant};

type GroupFn = fn(&G, &Built, &P, &mut Out);

const GROUPS: &[(&str, GroupFn)] = &[
    ("shortest_path", checks_a::check_sp),
    ("traversal", checks_a::check_trav),
    ("components", checks_a::check_comp),
    ("mst", checks_a::check_mst),
    ("flow", checks_b::check_flow),
    ("structure", checks_b::check_struct),
    ("centrality", checks_b::check_cent),
    ("clustering", checks_b::check_clust),
    ("community", checks_b::check_comm),
];

// ------------------------------------------------------------------------------------------
// reducer (delta debugging on nodes, edges, numbers, flags)
// ------------------------------------------------------------------------------------------

struct Reducer<'a> {
    group: GroupFn,
    algo: &'static str,
    clause: &'a str,
    slot: Option<&'a Slot>,
    case: u64,
    tests: u64,
    /// verdicts of earlier candidate tests of this worker (tiny candidates recur constantly)
    cache: &'a mut HashMap<(&'static str, String, String), bool>,
}

impl Reducer<'_> {
    /// The engine iterates randomly seeded hash maps, so a defective algorithm may fail on
    /// one run and pass on the next: a candidate counts as failing if one of three runs fails.
    fn fails(&mut self, g: &G) -> bool {
        let key = (self.algo, self.clause.to_string(), g.show());
        if let Some(v) = self.cache.get(&key) {
            return *v;
        }
        let v = self.fails_uncached(g);
        if self.cache.len() > 300_000 {
            self.cache.clear();
        }
        self.cache.insert(key, v);
        v
    }

    fn fails_uncached(&mut self, g: &G) -> bool {
        let p = g.plain();
        for _ in 0..3 {
            self.tests += 1;
            let b = build(g);
            let mut out = Out::new(self.slot, self.case);
            (self.group)(g, &b, &p, &mut out);
            if out.devs.iter().any(|d| d.algo == self.algo && d.clause == self.clause) {
                return true;
            }
        }
        false
    }

    fn reduce(&mut self, g0: &G) -> G {
        let mut g = g0.clone();
        loop {
            let mut changed = false;
            // nodes, last first
            let mut i = g.n;
            while i > 0 {
                i -= 1;
                if g.n > 1 {
                    let c = g.remove_node(i);
                    if self.fails(&c) {
                        g = c;
                        changed = true;
                    }
                }
            }
            // edges, last first
            let mut k = g.edges.len();
            while k > 0 {
                k -= 1;
                let mut c = g.clone();
                c.edges.remove(k);
                if self.fails(&c) {
                    g = c;
                    changed = true;
                }
            }
            // flags
            if g.gaps.iter().any(|x| *x) {
                let mut c = g.clone();
                c.gaps = vec![false; c.n];
                if self.fails(&c) {
                    g = c;
                    changed = true;
                }
            }
            if g.use_w {
                let mut c = g.clone();
                c.use_w = false;
                for e in &mut c.edges {
                    e.w = Num::Miss;
                }
                if self.fails(&c) {
                    g = c;
                    changed = true;
                }
            } else if g.edges.iter().any(|e| e.w != Num::Miss) {
                for e in &mut g.edges {
                    e.w = Num::Miss; // ignored by the engine when no weight property is passed
                }
            }
            if g.use_cap {
                let mut c = g.clone();
                c.use_cap = false;
                for e in &mut c.edges {
                    e.cap = Num::Miss;
                    e.cost = Num::Miss;
                }
                if self.fails(&c) {
                    g = c;
                    changed = true;
                }
            } else if g.edges.iter().any(|e| e.cap != Num::Miss || e.cost != Num::Miss) {
                for e in &mut g.edges {
                    e.cap = Num::Miss;
                    e.cost = Num::Miss;
                }
            }
            // numbers: walk each down the simplification ladder
            for k in 0..g.edges.len() {
                for field in 0..3 {
                    let cur = match field {
                        0 => g.edges[k].w,
                        1 => g.edges[k].cap,
                        _ => g.edges[k].cost,
                    };
                    for cand in Num::LADDER {
                        if cand.rank() >= cur.rank() {
                            break;
                        }
                        if field > 0 && cand.or(0.0) < 0.0 {
                            continue; // capacities and costs stay non-negative
                        }
                        let mut c = g.clone();
                        match field {
                            0 => c.edges[k].w = cand,
                            1 => c.edges[k].cap = cand,
                            _ => c.edges[k].cost = cand,
                        }
                        if self.fails(&c) {
                            g = c;
                            changed = true;
                            break;
                        }
                    }
                }
            }
            // pairs of numbers: get rid of an unusual value (0, negative, fraction) by changing
            // it together with one other number of the same kind
            if !changed && g.edges.len() <= 8 {
                let get = |g: &G, k: usize, f: usize| match f {
                    0 => g.edges[k].w,
                    1 => g.edges[k].cap,
                    _ => g.edges[k].cost,
                };
                let set = |g: &mut G, k: usize, f: usize, v: Num| match f {
                    0 => g.edges[k].w = v,
                    1 => g.edges[k].cap = v,
                    _ => g.edges[k].cost = v,
                };
                'pairs: for f in 0..3 {
                    for i in 0..g.edges.len() {
                        let ci = get(&g, i, f);
                        if ci.rank() < 3 {
                            continue;
                        }
                        for j in 0..g.edges.len() {
                            if i == j {
                                continue;
                            }
                            let cj = get(&g, j, f);
                            for a in Num::LADDER {
                                for b in Num::LADDER {
                                    if a.rank() >= ci.rank() || a.rank() + b.rank() >= ci.rank() + cj.rank() {
                                        continue;
                                    }
                                    if f > 0 && (a.or(0.0) < 0.0 || b.or(0.0) < 0.0) {
                                        continue;
                                    }
                                    let mut c = g.clone();
                                    set(&mut c, i, f, a);
                                    set(&mut c, j, f, b);
                                    if self.fails(&c) {
                                        g = c;
                                        changed = true;
                                        break 'pairs;
                                    }
                                }
                            }
                        }
                    }
                }
            }
            if !changed {
                break;
            }
        }
        g
    }
}

// ------------------------------------------------------------------------------------------
// one case
// ------------------------------------------------------------------------------------------

#[derive(Default)]
struct Acc {
    cases: u64,
    calls: BTreeMap<&'static str, u64>,
    notes: BTreeMap<&'static str, u64>,
    features: BTreeMap<&'static str, u64>,
    hashes: HashSet<u64>,
    devs: Vec<(u64, String, J)>,
    samples: Vec<(u64, J)>,
    precondition_failed: Vec<String>,
    harness_errors: Vec<String>,
    reductions: u64,
    reduction_tests: u64,
    cache: HashMap<(&'static str, String, String), bool>,
}

fn case_graph(seed: u64, plan: &Plan, idx: u64) -> (G, &'static str) {
    if idx < plan.directed.len() as u64 {
        return (plan.directed[idx as usize].clone(), "directed");
    }
    let idx = idx - plan.directed.len() as u64;
    if idx < plan.exh.len() as u64 {
        let (n, code, pat) = plan.exh[idx as usize];
        (exhaustive_graph(n, code, pat), "exhaustive")
    } else {
        let mut r = Rng::new(seed, "c19.graph", idx);
        (gen_graph(&mut r), "random")
    }
}

fn run_case(idx: u64, g: &G, kind: &'static str, sample: bool, slot: &Slot, acc: &mut Acc) {
    acc.cases += 1;
    let b = build(g);
    if !view_matches(g, &b) {
        acc.precondition_failed.push(g.show());
        return;
    }
    let p = g.plain();
    *acc.features.entry(match kind {
        "exhaustive" => "kind.exhaustive",
        "directed" => "kind.directed_witness",
        _ => "kind.random",
    })
    .or_insert(0) += 1;
    for f in g.features() {
        *acc.features.entry(f).or_insert(0) += 1;
    }
    *acc.features.entry(match g.n {
        0..=2 => "nodes<=2",
        3..=4 => "nodes3-4",
        5..=7 => "nodes5-7",
        _ => "nodes8-9",
    })
    .or_insert(0) += 1;
    if g.n >= 2 && !g.edges.is_empty() {
        acc.hashes.insert(g.hash());
    }
    let mut summary = Vec::new();
    for (gname, group) in GROUPS {
        let mut out = Out::new(Some(slot), idx);
        group(g, &b, &p, &mut out);
        for (k, v) in &out.calls {
            *acc.calls.entry(k).or_insert(0) += v;
        }
        for (k, v) in &out.notes {
            *acc.notes.entry(k).or_insert(0) += v;
        }
        for d in out.devs {
            let mut red = Reducer { group: *group, algo: d.algo, clause: &d.clause, slot: Some(slot), case: idx, tests: 0, cache: &mut acc.cache };
            let w = red.reduce(g);
            acc.reductions += 1;
            acc.reduction_tests += red.tests;
            let sig = format!("algo:{}.{}|{}", d.algo, d.clause, w.feature_class());
            // what the engine does on the reduced witness itself
            let on_witness = {
                let bw = build(&w);
                let mut o2 = Out::new(Some(slot), idx);
                group(&w, &bw, &w.plain(), &mut o2);
                o2.devs.into_iter().find(|x| x.algo == d.algo && x.clause == d.clause).map(|x| x.detail)
            };
            summary.push(sig.clone());
            acc.devs.push((
                idx,
                sig,
                json!({"case": idx, "kind": kind, "group": gname, "algorithm": d.algo, "clause": d.clause,
                       "graph": g.to_json(), "reduced_witness": w.to_json(), "reduced_witness_skeleton": w.skeleton(), "observation_on_reduced_witness": on_witness,
                       "observation_on_original_graph": d.detail}),
            ));
        }
    }
    // the first six random cases of the run (independent of thread scheduling)
    if kind == "random" && sample {
        acc.samples.push((idx, json!({"case": idx, "graph": g.to_json(), "deviating": summary})));
    }
}

struct Plan {
    directed: Vec<G>,
    exh: Vec<(usize, u64, bool)>,
    random: u64,
}

fn plan(tier: Tier) -> Plan {
    let mut exh = Vec::new();
    let maxn = tier.pick(3usize, 4usize);
    for n in 0..=maxn {
        // every digraph with self-loops allowed, no parallel edges, unweighted call
        for code in 0..(1u64 << (n * n)) {
            exh.push((n, code, false));
        }
    }
    // the loop-free ones again with a fixed weight / capacity / cost pattern
    for n in 2..=maxn {
        for code in 0..(1u64 << (n * n)) {
            if (0..n).all(|u| code >> (u * n + u) & 1 == 0) {
                exh.push((n, code, true));
            }
        }
    }
    Plan { directed: directed_witnesses(), exh, random: tier.pick(12_000, 100_000) }
}

const HANG_CPU_SECS: f64 = 10.0;
const BLOCKED_WALL_SECS: u64 = 1200;

pub fn run(tier: Tier, seed: u64) -> ! {
    let mut rep = Report::new("C19", tier, seed, "exploration");
    rep.rule = "case = one directed multigraph (<= 9 nodes, <= 24 edges; random shapes: sparse, dense, DAG, bidirected, two parts, cycle+chords, tree, near-complete; self-loops, parallel and antiparallel edges, isolated nodes, Int64/Float64/missing weight, capacity and cost properties, negative weights, node-id gaps) or one member of the exhaustive enumeration of all digraphs with self-loops on <= 3 (quick) / <= 4 (thorough) nodes, loaded into an LpgStore; every bundled algorithm runs on it for every source/target. Non-trivial = at least 2 nodes and 1 edge; distinct by hash of the literal graph (edge order, numbers, flags).".into();
    rep.assumptions = vec![
        "weights/capacities/costs are dyadic rationals (k/2), so float sums are exact; comparisons use 1e-9 relative (flows 1e-7)".into(),
        "non-numeric weight values are not generated (docs: Int64/Float64, default 1.0 when the property is missing; default capacity 1.0, default cost 0.0)".into(),
        "Dijkstra and A* are only run on non-negative weights; Bellman-Ford, Floyd-Warshall, Kruskal and Prim also get negative weights; costs and capacities are always >= 0".into(),
        "with a (reachable) negative cycle only the detection flag is judged; path reconstruction is not called (it is not defined then)".into(),
        "A* heuristics: zero, and a per-node fraction {0,1/2,1} of the true remaining distance (admissible, not consistent) - the doc requires admissibility only".into(),
        "MST is judged on the underlying undirected multigraph (module doc + code comments 'treating as undirected'); Prim must span exactly the component of its start node, Kruskal every component".into(),
        "max_flow/min_cost_max_flow report one flow per node pair: judged against the summed capacity of the parallel edges; min cost is judged on the true multigraph (each parallel edge its own cost)".into(),
        "bridges: for node pairs joined by several edges both readings are accepted (simple-graph: reported if removing all of them disconnects; multigraph: not a bridge); demanded only where the readings agree".into(),
        "k-core: the result must match the definition under at least one consistent reading (parallel edges collapsed or counted, a self-loop adding 0, 1 or 2 to the degree)".into(),
        "betweenness: paths counted as edge sequences or as node sequences (either accepted), documented normalisation 2/((n-1)(n-2)); closeness/BFS on out-edges as the code documents".into(),
        "clustering: triangle = three distinct pairwise adjacent nodes (doc); local coefficient accepted with the degree counting or not counting a self-loop".into(),
        "PageRank: non-negative, sums to 1 +- 1e-6 for every parameter choice; fixed point of the PageRank equation (multigraph or simple reading) only when max_iterations suffices for convergence".into(),
        "dfs_all: documented as reverse post-order, so the reversed result must be a depth-first finishing order; dfs: post-order".into(),
        "community detection: sanity only (every node assigned, communities do not span disconnected parts, counts consistent, documented label normalisation); Louvain modularity vs Newman's definition is counted as information, not judged".into(),
        format!("an engine call that burns more than {HANG_CPU_SECS} s of thread CPU time on a <= 9-node graph is re-run once with a 2x budget; only a reproduced stall is reported (hang:<algorithm>), otherwise inconclusive; wall clock is not used"),
    ];

    let plan = Arc::new(plan(tier));
    let total = (plan.directed.len() + plan.exh.len()) as u64 + plan.random;
    let first_random = (plan.directed.len() + plan.exh.len()) as u64;
    let next = Arc::new(AtomicU64::new(0));
    let workers = std::thread::available_parallelism().map_or(8, |n| n.get()).min(32);
    let results: Arc<Mutex<Vec<Acc>>> = Arc::new(Mutex::new(Vec::new()));
    let slots: Vec<Arc<Slot>> = (0..workers).map(|_| Arc::new(Slot::new())).collect();
    // debugging aids: VH_C19_ONLY=<case index> judges that single case of the run
    let only: Option<u64> = std::env::var("VH_C19_ONLY").ok().and_then(|s| s.parse().ok());
    let mut handles = Vec::new();
    for w in 0..workers {
        let (plan, next, results, slot) = (plan.clone(), next.clone(), results.clone(), slots[w].clone());
        handles.push(std::thread::Builder::new().stack_size(16 << 20).spawn(move || {
            let mut acc = Acc::default();
            slot.register_current_thread();
            loop {
                let idx = next.fetch_add(1, Ordering::Relaxed);
                if idx >= total {
                    break;
                }
                if only.is_some_and(|o| o != idx) {
                    continue;
                }
                let (g, kind) = case_graph(seed, &plan, idx);
                {
                    let mut st = slot.state.lock().unwrap();
                    *st = (idx, "build", st.2 + 1, false);
                }
                let r = std::panic::catch_unwind(std::panic::AssertUnwindSafe(|| run_case(idx, &g, kind, idx >= first_random && idx < first_random + 6, &slot, &mut acc)));
                if let Err(e) = r {
                    let msg = e.downcast_ref::<String>().cloned().or_else(|| e.downcast_ref::<&str>().map(|s| (*s).to_string())).unwrap_or_default();
                    acc.harness_errors.push(format!("case {idx}: {msg}"));
                }
            }
            slot.state.lock().unwrap().3 = true;
            results.lock().unwrap().push(acc);
        }));
    }
    drop(handles); // never joined: a stalled worker must not block the verdict

    // watchdog: a worker that burns more than HANG_CPU_SECS of CPU inside one engine call
    let mut stalled: Vec<(u64, &'static str)> = Vec::new();
    let mut lost = vec![false; workers];
    let mut seen: Vec<(u64, f64, Instant)> = vec![(u64::MAX, 0.0, Instant::now()); workers];
    loop {
        std::thread::sleep(Duration::from_millis(50));
        let mut live = 0;
        for (w, s) in slots.iter().enumerate() {
            if lost[w] {
                continue;
            }
            let (case, algo, seq, fin) = *s.state.lock().unwrap();
            if fin {
                continue;
            }
            let cpu = s.cpu_seconds().unwrap_or(0.0);
            if seq != seen[w].0 {
                seen[w] = (seq, cpu, Instant::now());
            } else if cpu - seen[w].1 > HANG_CPU_SECS {
                stalled.push((case, algo));
                lost[w] = true;
                continue;
            } else if seen[w].2.elapsed() > Duration::from_secs(BLOCKED_WALL_SECS) {
                rep.inconclusive(&format!("worker blocked without using CPU for {BLOCKED_WALL_SECS}s in {algo} on case {case}"));
                lost[w] = true;
                continue;
            }
            live += 1;
        }
        if live == 0 {
            break;
        }
    }
    // confirmation runs for the first stalls (2x CPU budget inside the same algorithm)
    for (idx, algo) in stalled.iter().skip(3) {
        rep.inconclusive(&format!("engine call {algo} stalled on case {idx}; not re-run (only the first three stalls are confirmed)"));
    }
    for (idx, algo) in stalled.iter().take(3) {
        let (g, _) = case_graph(seed, &plan, *idx);
        let slot = Arc::new(Slot::new());
        let s2 = slot.clone();
        let g2 = g.clone();
        let idx2 = *idx;
        std::thread::spawn(move || {
            s2.register_current_thread();
            let mut acc = Acc::default();
            run_case(idx2, &g2, "confirm", false, &s2, &mut acc);
            s2.state.lock().unwrap().3 = true;
        });
        let mut confirmed = false;
        let mut last = (u64::MAX, 0.0);
        loop {
            std::thread::sleep(Duration::from_millis(100));
            let (_, a, seq, fin) = *slot.state.lock().unwrap();
            if fin {
                break;
            }
            let cpu = slot.cpu_seconds().unwrap_or(0.0);
            if seq != last.0 {
                last = (seq, cpu);
            } else if cpu - last.1 > 2.0 * HANG_CPU_SECS && a == *algo {
                confirmed = true;
                break;
            }
        }
        if confirmed {
            rep.deviation(&format!("hang:{algo}"), json!({"case": idx, "graph": g.to_json(), "algorithm": algo, "note": "did not return; reproduced on a second run with 2x CPU budget"}));
        } else {
            rep.inconclusive(&format!("engine call {algo} used > {HANG_CPU_SECS}s CPU on case {idx} but did not reproduce"));
        }
    }

    // merge (order-independent: sums, set union, deviations sorted by case index)
    let mut accs = std::mem::take(&mut *results.lock().unwrap());
    let mut devs: Vec<(u64, String, J)> = Vec::new();
    let mut samples: Vec<(u64, J)> = Vec::new();
    let mut cases = 0;
    for a in accs.iter_mut() {
        cases += a.cases;
        for (k, v) in &a.calls {
            rep.count(&format!("checks.{k}"), *v);
            rep.evals(*v);
        }
        for (k, v) in &a.notes {
            rep.count(&format!("note.{k}"), *v);
        }
        for (k, v) in &a.features {
            rep.count(&format!("graphs.with.{k}"), *v);
        }
        for h in &a.hashes {
            rep.nontrivial(*h);
        }
        rep.count("reductions", a.reductions);
        rep.count("reduction_tests", a.reduction_tests);
        devs.append(&mut a.devs);
        samples.append(&mut a.samples);
        for e in &a.precondition_failed {
            rep.inconclusive(&format!("store view differs from the model graph (not a C19 matter): {e}"));
        }
        for e in &a.harness_errors {
            rep.inconclusive(&format!("harness error: {e}"));
        }
    }
    rep.count("graphs.total", cases);
    if only.is_none() && cases + (stalled.len() as u64) < total {
        rep.inconclusive(&format!("only {cases} of {total} cases were judged"));
    }
    devs.sort_by(|a, b| a.0.cmp(&b.0).then(a.1.cmp(&b.1)));
    let mut per_sig: BTreeMap<String, u64> = BTreeMap::new();
    for (_, sig, detail) in devs {
        *per_sig.entry(sig.clone()).or_insert(0) += 1;
        rep.deviation(&sig, detail);
    }
    rep.extra.insert("deviation_signatures".into(), json!(per_sig));
    samples.sort_by_key(|s| s.0);
    for (_, s) in samples.into_iter().take(6) {
        rep.sample(s);
    }
    rep.finish()
}
