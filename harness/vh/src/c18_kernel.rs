//! C18 (c) kernel differential and (b) exact search monitors.

use super::refs::*;
use crate::rng::{Rng, fnv};
use crate::util::catch;
use grafeo_common::types::NodeId;
use grafeo_core::index::vector::{
    DistanceMetric as M, batch_distances, brute_force_knn, brute_force_knn_filtered, compute_distance, cosine_distance,
    cosine_similarity, dot_product, euclidean_distance, euclidean_distance_squared, l2_norm, manhattan_distance, normalize,
};
use serde_json::json;
use std::collections::HashSet;

type K2 = fn(&[f32], &[f32]) -> f32;

const BINARY: &[(&str, Fun, K2)] = &[
    ("compute_distance[cosine]", Fun::CosDist, |a, b| compute_distance(a, b, M::Cosine)),
    ("compute_distance[euclidean]", Fun::Euclid, |a, b| compute_distance(a, b, M::Euclidean)),
    ("compute_distance[dot_product]", Fun::NegDot, |a, b| compute_distance(a, b, M::DotProduct)),
    ("compute_distance[manhattan]", Fun::Manhattan, |a, b| compute_distance(a, b, M::Manhattan)),
    ("cosine_distance", Fun::CosDist, |a, b| cosine_distance(a, b)),
    ("cosine_similarity", Fun::CosSim, |a, b| cosine_similarity(a, b)),
    ("euclidean_distance", Fun::Euclid, |a, b| euclidean_distance(a, b)),
    ("euclidean_distance_squared", Fun::EuclidSq, |a, b| euclidean_distance_squared(a, b)),
    ("dot_product", Fun::Dot, |a, b| dot_product(a, b)),
    ("manhattan_distance", Fun::Manhattan, |a, b| manhattan_distance(a, b)),
];

pub const KERNEL_KINDS: &[VKind] = &[
    VKind::Unit, VKind::BigNorm, VKind::Scaled, VKind::Small, VKind::Tiny, VKind::Minus30, VKind::Huge, VKind::Zero,
    VKind::Grid, VKind::MixedHuge, VKind::Sparse,
];

pub fn kernel_dims() -> Vec<usize> {
    let mut d: Vec<usize> = (1..=67).collect();
    d.push(128);
    d.push(385);
    d
}

fn dim_class(n: usize) -> &'static str {
    if n < 4 {
        "dim<4"
    } else if n < 8 {
        "dim4..7"
    } else if n % 8 == 0 {
        "dim%8==0"
    } else {
        "dim>8,rem"
    }
}

/// One pair through every public kernel.
pub fn check_pair(acc: &mut Acc, a: &[f32], b: &[f32], tag: &str) {
    let n = a.len();
    for (name, fun, f) in BINARY {
        acc.eval();
        let r = reference(*fun, a, b);
        match catch(|| f(a, b)) {
            Err(p) => acc.dev(&format!("kernel:{name}.panic@{}|{}", p.site, r.class), || json!({"at": p.at, "msg": p.msg, "a": show_vec(a), "b": show_vec(b)})),
            Ok(got) => {
                if r.demanded {
                    acc.count(&format!("kernel.compared.{name}"), 1);
                    if !within(got, &r) {
                        acc.dev(&format!("kernel:{name}.beyond_bound|{}", r.class), || {
                            json!({"tag": tag, "dim": n, "dim_class": dim_class(n), "a": show_vec(a), "b": show_vec(b), "got": format!("{got:e}"),
                                   "definition_f64": r.val, "bound": r.tol, "abs_error": (f64::from(got) - r.val).abs()})
                        });
                    }
                } else {
                    acc.count(&format!("kernel.no_panic_only.{}", r.class), 1);
                }
            }
        }
    }
    // unary: l2_norm, normalize
    acc.eval();
    let na = norm64(a);
    let finite = a.iter().all(|x| x.is_finite());
    let in_range = finite && na * na <= LIM && (na == 0.0 || na * na >= UNDER);
    let g = 4.0 * gamma(n + 4);
    match catch(|| l2_norm(a)) {
        Err(p) => acc.dev(&format!("kernel:l2_norm.panic@{}", p.site), || json!({"at": p.at, "msg": p.msg, "a": show_vec(a)})),
        Ok(got) => {
            if in_range {
                acc.count("kernel.compared.l2_norm", 1);
                if !((f64::from(got) - na).abs() <= g * na + 1e-6) {
                    acc.dev("kernel:l2_norm.beyond_bound|finite", || json!({"a": show_vec(a), "got": format!("{got:e}"), "definition_f64": na}));
                }
            }
        }
    }
    acc.eval();
    match catch(|| {
        let mut v = a.to_vec();
        let r = normalize(&mut v);
        (r, v)
    }) {
        Err(p) => acc.dev(&format!("kernel:normalize.panic@{}", p.site), || json!({"at": p.at, "msg": p.msg, "a": show_vec(a)})),
        Ok((ret, out)) => {
            if in_range {
                acc.count("kernel.compared.normalize", 1);
                if !((f64::from(ret) - na).abs() <= g * na + 1e-6) {
                    acc.dev("kernel:normalize.returned_norm|finite", || json!({"a": show_vec(a), "got": format!("{ret:e}"), "definition_f64": na}));
                }
                if na == 0.0 {
                    // documented: zero magnitude -> returns 0.0 and leaves the vector unchanged
                    if out.iter().zip(a).any(|(x, y)| x.to_bits() != y.to_bits()) || ret != 0.0 {
                        acc.dev("kernel:normalize.zero_vector_changed", || json!({"a": show_vec(a), "out": show_vec(&out)}));
                    }
                } else {
                    // documented: "Normalizes a vector to unit length"; only a zero magnitude is exempt
                    let class = if is_tiny_norm(a) { "norm<=f32eps" } else { "normal" };
                    let bad = out.iter().zip(a).any(|(x, y)| !((f64::from(*x) - f64::from(*y) / na).abs() <= g + 1e-6));
                    if bad {
                        acc.dev(&format!("kernel:normalize.not_unit|{class}"), || {
                            json!({"a": show_vec(a), "out": show_vec(&out), "norm_f64": na, "norm_of_output": norm64(&out)})
                        });
                    }
                }
            }
        }
    }
}

fn derive_b(r: &mut Rng, a: &[f32], kind: VKind, rel: usize) -> Vec<f32> {
    match rel {
        0 => a.to_vec(),                          // duplicate
        1 => a.iter().map(|x| -x).collect(),      // opposite
        2 => a.iter().map(|x| x * 0.5).collect(), // same direction, other length
        _ => gen_vec(r, a.len(), kind),
    }
}

/// Directed matrix (seed independent): every dim x magnitude kind x relation, all kernels.
pub fn kernel_matrix(acc: &mut Acc) {
    let mut cell = 0u64;
    for dim in kernel_dims() {
        for &ka in KERNEL_KINDS {
            for rel in 0..5usize {
                let mut r = Rng::new(0x18, "C18.kernel.matrix", cell);
                cell += 1;
                let a = gen_vec(&mut r, dim, ka);
                let kb = if rel == 4 { *r.pick(KERNEL_KINDS) } else { ka };
                let b = derive_b(&mut r, &a, kb, rel);
                check_pair(acc, &a, &b, "matrix");
                if ka != VKind::Zero {
                    acc.nontrivial(fnv(format!("km{dim}{}{rel}", ka.name()).as_bytes()));
                }
            }
        }
    }
    acc.count("kernel.matrix_cells", cell);
}

/// Random pairs of one chunk.
pub fn kernel_random(acc: &mut Acc, seed: u64, chunk: u64, pairs: usize) {
    let dims = kernel_dims();
    for i in 0..pairs {
        let mut r = Rng::new(seed, "C18.kernel.random", chunk * 1_000_003 + i as u64);
        let dim = *r.pick(&dims);
        let ka = KERNEL_KINDS[r.weighted(&[30, 15, 15, 6, 4, 3, 3, 3, 8, 3, 5])];
        let a = gen_vec(&mut r, dim, ka);
        let rel = r.weighted(&[4, 3, 3, 60, 30]);
        let kb = if rel == 4 { KERNEL_KINDS[r.below(KERNEL_KINDS.len())] } else { ka };
        let mut b = derive_b(&mut r, &a, kb, rel);
        if r.chance(0.002) {
            let j = r.below(dim);
            b[j] = *r.pick(&[f32::NAN, f32::INFINITY, f32::NEG_INFINITY, f32::MAX, f32::MIN_POSITIVE, -0.0]);
        }
        check_pair(acc, &a, &b, "random");
        acc.count(&format!("kernel.pairs.{}", dim_class(dim)), 1);
        if i < 2 && chunk == 0 {
            acc.sample(json!({"monitor": "kernel", "dim": dim, "kind_a": ka.name(), "kind_b": kb.name(), "a": show_vec(&a), "b": show_vec(&b)}));
        }
        if ka != VKind::Zero && dim > 1 {
            acc.nontrivial(fnv(format!("kr{seed}{chunk}{i}").as_bytes()));
        }
    }
}

// ---------------------------------------------------------------------------------------
// (b) exact search
// ---------------------------------------------------------------------------------------

const METRICS: [M; 4] = [M::Cosine, M::Euclidean, M::DotProduct, M::Manhattan];

/// class of a whole exact-search case: the coarsest class of all (query, vector) references
fn case_class(refs: &[Refv]) -> (&'static str, bool) {
    let all = refs.iter().all(|r| r.demanded);
    if !all {
        return ("not_demanded", false);
    }
    if refs.iter().any(|r| r.class == "normprod<1") {
        ("normprod<1", true)
    } else if refs.iter().any(|r| r.class == "normprod>=1") {
        ("normprod>=1", true)
    } else {
        ("finite", true)
    }
}

pub fn brute_case(acc: &mut Acc, seed: u64, case: u64) {
    let mut r = Rng::new(seed, "C18.brute", case);
    let dim = *r.pick(&[1usize, 2, 3, 7, 8, 9, 16, 17, 33, 128]);
    let metric = METRICS[r.below(4)];
    let n = *r.pick(&[0usize, 1, 2, 5, 20, 21, 22, 50, 64, 200]);
    // flavour: clean (norms >= 1), small norms, or anything (extremes, zeros)
    let flavour = r.weighted(&[55, 20, 25]);
    let kinds: &[VKind] = match flavour {
        0 => &[VKind::BigNorm],
        1 => &[VKind::Unit, VKind::Small, VKind::Grid, VKind::Scaled, VKind::Sparse],
        _ => KERNEL_KINDS,
    };
    let mut vecs: Vec<Vec<f32>> = Vec::with_capacity(n);
    for _ in 0..n {
        if !vecs.is_empty() && r.chance(0.15) {
            let j = r.below(vecs.len());
            vecs.push(vecs[j].clone()); // duplicates
        } else {
            vecs.push(gen_any(&mut r, dim, kinds));
        }
    }
    let q = if !vecs.is_empty() && r.chance(0.3) { vecs[r.below(vecs.len())].clone() } else { gen_any(&mut r, dim, kinds) };
    let k = *r.pick(&[0usize, 1, 2, n.saturating_sub(1), n, n + 5]);
    let ids: Vec<u64> = (0..n as u64).map(|i| i * 3 + 1).collect();
    let fun = metric_fun(metric);
    let refs: Vec<Refv> = vecs.iter().map(|v| reference(fun, &q, v)).collect();
    let (class, demanded) = case_class(&refs);
    let mname = metric.name();
    let flav = ["clean", "smallnorm", "extreme"][flavour];
    acc.count(&format!("brute.cases.{mname}.{flav}"), 1);
    if n >= 2 && k >= 1 {
        acc.nontrivial(fnv(format!("b{seed}{case}").as_bytes()));
    }
    let detail = |what: &str, extra: serde_json::Value| {
        json!({"what": what, "metric": mname, "dim": dim, "n": n, "k": k, "query": show_vec(&q),
               "vectors": if n <= 8 { json!(vecs.iter().map(|v| show_vec(v)).collect::<Vec<_>>()) } else { json!(format!("{n} vectors, stream C18.brute case {case}")) },
               "extra": extra})
    };

    // brute_force_knn and the filtered variant
    for filtered in [false, true] {
        acc.eval();
        let name = if filtered { "knn_filtered" } else { "knn" };
        let keep = |id: u64| !filtered || id % 2 == 1;
        let res = catch(|| {
            let it = ids.iter().zip(vecs.iter()).map(|(i, v)| (NodeId::new(*i), v.as_slice()));
            if filtered {
                brute_force_knn_filtered(it, &q, k, metric, |id| id.as_u64() % 2 == 1)
            } else {
                brute_force_knn(it, &q, k, metric)
            }
        });
        let res = match res {
            Err(p) => {
                acc.dev(&format!("brute:{name}.panic@{}|{class}", p.site), || detail("panic", json!({"at": p.at, "msg": p.msg})));
                continue;
            }
            Ok(x) => x,
        };
        let universe: Vec<usize> = (0..n).filter(|i| keep(ids[*i])).collect();
        let want = k.min(universe.len());
        if res.len() != want {
            acc.dev(&format!("brute:{name}.length"), || detail("length", json!({"got": res.len(), "expected": want})));
        }
        let mut seen = HashSet::new();
        let mut dist_ok = true;
        for (id, d) in &res {
            let idx = ids.iter().position(|x| *x == id.as_u64());
            match idx {
                None => acc.dev(&format!("brute:{name}.unknown_id"), || detail("unknown id", json!({"id": id.as_u64()}))),
                Some(i) => {
                    if !keep(ids[i]) {
                        acc.dev(&format!("brute:{name}.filtered_id_returned"), || detail("filtered id", json!({"id": id.as_u64()})));
                    }
                    if !seen.insert(i) {
                        acc.dev(&format!("brute:{name}.repeated_id"), || detail("repeated id", json!({"id": id.as_u64()})));
                    }
                    if refs[i].demanded && !within(*d, &refs[i]) {
                        dist_ok = false;
                        acc.dev(&format!("brute:{name}.distance|{mname}|{}", refs[i].class), || {
                            detail("distance", json!({"id": id.as_u64(), "got": format!("{d:e}"), "definition_f64": refs[i].val, "bound": refs[i].tol}))
                        });
                    }
                }
            }
        }
        if demanded {
            acc.count(&format!("brute.{name}.fully_checked"), 1);
            for w in res.windows(2) {
                if w[0].1 > w[1].1 {
                    acc.dev(&format!("brute:{name}.not_sorted|{mname}"), || detail("order", json!({"pair": [format!("{:e}", w[0].1), format!("{:e}", w[1].1)]})));
                    break;
                }
            }
            // true k nearest as a multiset of distances
            let mut truth: Vec<f64> = universe.iter().map(|i| refs[*i].val).collect();
            truth.sort_by(|a, b| a.partial_cmp(b).unwrap());
            let tmax = universe.iter().map(|i| refs[*i].tol).fold(0.0, f64::max);
            for (i, (_, d)) in res.iter().enumerate().take(truth.len()) {
                if !((f64::from(*d) - truth[i]).abs() <= tmax) {
                    let _ = dist_ok;
                    acc.dev(&format!("brute:{name}.not_k_nearest|{mname}|{class}"), || {
                        detail("k nearest", json!({"rank": i, "got": format!("{d:e}"), "true_ith_smallest": truth[i], "bound": tmax}))
                    });
                    break;
                }
            }
        } else {
            acc.count(&format!("brute.{name}.no_panic_only"), 1);
        }
    }

    // batch_distances: same order as the input, each value the definition
    acc.eval();
    match catch(|| batch_distances(ids.iter().zip(vecs.iter()).map(|(i, v)| (NodeId::new(*i), v.as_slice())), &q, metric)) {
        Err(p) => acc.dev(&format!("brute:batch_distances.panic@{}|{class}", p.site), || detail("panic", json!({"at": p.at, "msg": p.msg}))),
        Ok(res) => {
            if res.len() != n || res.iter().zip(&ids).any(|(x, y)| x.0.as_u64() != *y) {
                acc.dev("brute:batch_distances.order_or_length", || detail("order", json!({"got_len": res.len()})));
            } else {
                for (i, (_, d)) in res.iter().enumerate() {
                    if refs[i].demanded && !within(*d, &refs[i]) {
                        acc.dev(&format!("brute:batch_distances.distance|{mname}|{}", refs[i].class), || {
                            detail("distance", json!({"index": i, "got": format!("{d:e}"), "definition_f64": refs[i].val, "bound": refs[i].tol}))
                        });
                    }
                }
            }
        }
    }
    if case < 2 {
        acc.sample(json!({"monitor": "brute_force", "metric": mname, "dim": dim, "n": n, "k": k, "flavour": flav, "query": show_vec(&q)}));
    }
}
